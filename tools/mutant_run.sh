#!/bin/sh
# tools/mutant_run.sh <patch-file | -R:<commit>> <property id> [tier]
# Runs one check against a scratch copy of /repo with a patch applied (or a
# commit reverted).  Evidence and replays of the real tree are left untouched.
set -e
patch="$1"; id="$2"; tier="${3:-quick}"
work=$(mktemp -d /dev/shm/mutrepo_XXXXXX)
trap 'rm -rf "$work"' EXIT
rsync -a --exclude .git --exclude '__pycache__' /repo/ "$work/repo/"
case "$patch" in
  -R:*) (cd /repo && git show "${patch#-R:}" ) | (cd "$work/repo" && patch -R -p1 -s) ;;
  *) (cd "$work/repo" && patch -p1 -s < "$patch") ;;
esac
cd /verif
set +e
VERIF_REPO="$work/repo" VERIF_REPLAY_DIR="$work/replays" VERIF_EVIDENCE_DIR="$work/evidence" ./check "$id" --tier "$tier" > "$work/out.txt" 2>&1
rc=$?
set -e
grep -v "^VIOLATION" "$work/out.txt" | tail -${TAILN:-12}
echo "exit=$rc violations_lines=$(grep -c '^VIOLATION' "$work/out.txt")"
