#!/bin/sh
# runs every thorough check one after the other, logging exit code and seconds (evidence goes to a scratch dir)
cd /verif
out=${1:-/dev/shm/thorough_all.txt}
: > $out
for id in C10 C18 C09 C12 C16 C14 C06 C04 C19 C08 C17 C20 C15 C02 C01 C07 C05 C13 C11 C03; do
  s=$(date +%s)
  VERIF_EVIDENCE_DIR=/dev/shm/thorough_evidence VERIF_REPLAY_DIR=/dev/shm/thorough_replays timeout 3600 ./check $id --tier thorough > /dev/shm/th_$id.txt 2>&1
  rc=$?
  e=$(date +%s)
  echo "$id rc=$rc secs=$((e-s))" >> $out
done
