#!/usr/bin/env python3
"""Regenerate the table of seeded changes in DESIGN.md (between the SEEDED markers) from seeded/*/meta.json."""
import json
import os
import re

V = os.path.dirname(os.path.dirname(os.path.abspath(__file__)))
rows = []
for d in sorted(os.listdir(os.path.join(V, "seeded"))):
    mp = os.path.join(V, "seeded", d, "meta.json")
    if not os.path.exists(mp):
        continue
    m = json.load(open(mp))
    readme = os.path.join(V, "seeded", d, "README.md")
    what = ""
    if os.path.exists(readme):
        txt = open(readme).read()
        lines = [l.strip() for l in txt.splitlines() if l.strip() and not l.startswith("#")]
        what = " ".join(lines[:2])[:230]
    valid = m.get("valid_on_current_tree", True)
    det = m.get("detected")
    hist = (m.get("history") or "")
    if not valid:
        status = "not valid on the current tree"
    elif det and "another check" in str(m.get("our_check_result")):
        status = "caught as built, by another property's check"
    elif det and "MISSED" in hist.upper():
        status = "caught after strengthening"
    elif det:
        status = "caught as built"
    else:
        status = "**missed**"
    rows.append("| %s | %s | %s | %s |" % (d, m.get("property"), status, (hist or what).replace("|", "/")[:260]))
rounds = {}
for r in rows:
    name = r.split("|")[1].strip()
    m2 = re.search(r"-r(\d)seed", name)
    rd = int(m2.group(1)) if m2 else 1
    c = rounds.setdefault(rd, [0, 0, 0, 0, 0])
    if "not valid" in r:
        c[4] += 1
    elif "another property" in r:
        c[1] += 1
    elif "after strengthening" in r:
        c[2] += 1
    elif "**missed**" in r:
        c[3] += 1
    else:
        c[0] += 1
summary = "| round | seeds | caught as built | caught as built by another property's check | caught after strengthening | still missed | invalidated by a later fix |\n|---|---|---|---|---|---|---|\n" + \
    "\n".join("| %d | %d | %d | %d | %d | %d | %d |" % (rd, sum(c), c[0], c[1], c[2], c[3], c[4]) for rd, c in sorted(rounds.items()))
table = summary + "\n\n| seed | property | result | what it needed / what was added |\n|---|---|---|---|\n" + "\n".join(rows)
p = os.path.join(V, "DESIGN.md")
s = open(p).read()
block = "<!-- SEEDED-BEGIN -->\n" + table + "\n<!-- SEEDED-END -->"
if "<!-- SEEDED-BEGIN -->" in s:
    s = re.sub(r"<!-- SEEDED-BEGIN -->.*?<!-- SEEDED-END -->", lambda _: block, s, flags=re.S)
else:
    s += "\n### 9.5 Seeded changes (written by independent sub-agents from the property text only)\n\n" \
         "Each was confirmed by us (repository suite green with the change, the author's demonstration fails with it " \
         "and passes without) and then run against our checks (`tools/seed_verify.sh`). `caught as built`: the quick " \
         "check exited 1 the first time; `caught after strengthening`: first missed, then the spec/binding was " \
         "extended for the *class* of scenario (column 4) and it is now caught.\n\n" + block + "\n"
open(p, "w").write(s)
n = len(rows)
print(n, "seeds;", sum("caught as built |" in r for r in rows), "as built;",
      sum("another property" in r for r in rows), "by another property's check;", sum("after strengthening" in r for r in rows), "after strengthening;", sum("**missed**" in r for r in rows), "missed")
