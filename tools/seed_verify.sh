#!/bin/sh
# tools/seed_verify.sh <worktree> <seedN> <property id> [quick|thorough]
# Confirms a seeded change (tests pass with it, demo fails with it / passes without), runs our check
# against it, and stores it under /verif/seeded/<id>-<seedN>/.
wt="$1"; seed="$2"; id="$3"; tier="${4:-quick}"
sd="$wt/$seed"
out="/verif/seeded/$id-${SEEDTAG:-}$seed"
mkdir -p "$out"
cd "$wt" || exit 2
git checkout -q -- rope
if ! git apply --check "$sd/patch.diff" 2>/dev/null; then echo "patch does not apply"; exit 2; fi
git apply "$sd/patch.diff"
tests=$(/venv/bin/python -m pytest -q -p no:cacheprovider -n 8 ropetest 2>&1 | tail -1)
ROPE_SRC="$wt" PYTHONPATH="$wt" /venv/bin/python "$sd/demo.py" >/dev/null 2>&1; demo_with=$?
git checkout -q -- rope
ROPE_SRC="$wt" PYTHONPATH="$wt" /venv/bin/python "$sd/demo.py" >/dev/null 2>&1; demo_without=$?
cd /verif
chk=$(TAILN=6 tools/mutant_run.sh "$sd/patch.diff" "$id" "$tier" 2>&1)
rc=$(echo "$chk" | grep -o 'exit=[0-9]*' | tail -1)
cp "$sd/patch.diff" "$sd/demo.py" "$out/" 2>/dev/null
cp "$sd/README.md" "$out/README.md" 2>/dev/null
/venv/bin/python - "$out" "$id" "$seed" "$tests" "$demo_with" "$demo_without" "$rc" "$tier" <<'PY'
import json, sys
out, pid, seed, tests, dw, dwo, rc, tier = sys.argv[1:9]
meta = {"property": pid, "seed": seed,
        "tests_with_patch": tests.strip(),
        "demo_exit_with_patch": int(dw), "demo_exit_without_patch": int(dwo),
        "confirmed": ("passed" in tests and " failed" not in tests and not tests.strip().startswith("failed") and int(dw) != 0 and int(dwo) == 0),
        "our_check": "./check %s --tier %s against a scratch copy with the patch" % (pid, tier),
        "our_check_result": rc, "detected": rc == "exit=1",
        "needs_to_manifest": open(out + "/README.md").read()[:1500] if __import__("os").path.exists(out + "/README.md") else ""}
json.dump(meta, open(out + "/meta.json", "w"), indent=1)
print(json.dumps({k: meta[k] for k in ("tests_with_patch", "demo_exit_with_patch", "demo_exit_without_patch", "confirmed", "our_check_result", "detected")}))
PY
echo "$chk" | tail -8 | cut -c1-260
