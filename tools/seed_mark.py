#!/usr/bin/env python3
"""tools/seed_mark.py <seed dir name> <detected 0|1> <history text>: record the outcome of strengthening for one seed."""
import json, os, sys
V = os.path.dirname(os.path.dirname(os.path.abspath(__file__)))
p = os.path.join(V, "seeded", sys.argv[1], "meta.json")
m = json.load(open(p))
m["detected"] = bool(int(sys.argv[2]))
if m["detected"]:
    m["our_check_result"] = "exit=1"
m["history"] = sys.argv[3]
json.dump(m, open(p, "w"), indent=1)
