#!/usr/bin/env python3
"""Regenerate MANIFEST.json from the table below (single source of truth)."""
import json
import os

VERIF = os.path.dirname(os.path.dirname(os.path.abspath(__file__)))

ALL = ["C%02d" % i for i in range(1, 21)]

CHECKS = {
    "C10": dict(
        category="model_checking",
        text="TLC exhausts spec/RopeChange.tla (every step-by-step executable composite of <=3 leaves over a "
             "12-path universe x every fs-command fault x every stop position x naturally failing last leaf, do and "
             "undo) and checks the atomicity invariants on the model of ChangeSet.do/undo; every terminal behaviour "
             "of the TLC graph is replayed on a real rope project (fault = n-th FileSystemCommands call raises, stop "
             "= TaskHandle observer at the chosen job boundary) and the real disk tree, history lists and raised "
             "exception are judged against the property, the fs-command sequence against the spec.",
        design_ref="3.1 C10",
        note="Bounded: <=3 leaves per composite (+ one nested ChangeSet grouping), 3 initial trees, one fault per "
             "call, plain FileSystemCommands. Trusts TLC, the RopeFS model of os/shutil (cross-checked by the replay "
             "itself: the predicted final tree must equal the disk), tmpfs semantics.",
        technique="TLA+ spec RopeChange + TLC exhaustive invariants; spec-to-code replay of every terminal behaviour",
        engine="tlc-replay",
    ),
    "C11": dict(
        category="model_checking",
        text="TLC explores spec/RopeHistory.tla (do of 1-2 leaf change sets, undo, redo, selective undo/redo of any listed "
             "change with the code's dependency pass, drop, clear, history limit) exhaustively to 4-5 API calls with the "
             "trail and to unbounded calls over 3 changes under a VIEW, plus random walks of 10 calls; invariants: "
             "NeverMade (tree = replay of the changes still in force), OnlyDependents (the code's one-pass dependency "
             "search equals the closure the property describes), LimitRespected, RedoClearedByDo, EmptyRefused. Every "
             "exported behaviour is replayed on a real project and after every call the disk tree and the identity and "
             "order of undo_list/redo_list are compared with the spec state.",
        design_ref="3.1 C11",
        note="Bounded universe (9 paths, contents 0..2, <=6 changes); legal action set excludes clobbering moves and "
             "folder moves into missing parents; no external edits. Trusts TLC and the RopeFS model (cross-checked by "
             "the replay: predicted tree must equal the disk after every call).",
        technique="TLA+ spec RopeHistory + TLC invariants/action properties; spec-to-code replay with per-step state comparison",
    ),
    "C18": dict(
        category="fault_enumeration",
        text="spec/RopePersist.tla models the writer steps of _DataFiles.write_data per data file, Crash after any step "
             "and Reopen; TLC proves OpenNeverRaises/CompleteVersion/OldNeverLost for the atomic writer and refutes them "
             "for the in-place writer. The fs events of real Project.close() calls are recorded and validated by TLC "
             "against spec/TracePersist.tla (no live data file ever holds a content the measured reader raises on). "
             "Driven by that event list, the real save is cut at every event boundary and every byte prefix of every "
             "write, then a new Project is opened and used; lists must be complete old, complete new or empty.",
        design_ref="3.1 C18",
        note="Crash granularity = Python-level open/write/close/os.replace calls with byte-prefix cuts; fsync/directory "
             "durability not observable. Interposition on rope.base.project.open and os.replace/rename/remove.",
        technique="TLA+ spec RopePersist + TLC; trace validation of recorded save traces (TracePersist); byte-level crash enumeration on the real code",
    ),
    "C12": dict(
        category="model_checking",
        text="(a) spec/RopeHistory.tla with the Reopen action (close the project, open a new one on the directory; a no-op "
             "on the abstract state): TLC exhausts histories of <=5 calls with a reopen at any position (also repeated) and "
             "random walks of 10 calls; each is replayed on a real project saving its history with unicode/multi-line "
             "contents: the reloaded lists must equal the saved ones (order, descriptions, contents) and every later "
             "undo/redo/selective undo must give the spec's trees; a failure counts only if the twin history without the "
             "reopen does not fail identically (ReopenTransparent). (b) object db: analysed module, close/reopen twice, "
             "stored mapping equal. (c) spec/Serial.tla transcribes python_to_json/json_to_python; TLC checks RoundTrip, "
             "EncodedIsJson, NoKeyCollision for every value of the bounded universe (tuple/numeric-string/None keys, both "
             "versions) and each value goes through the real encoder, json text and decoder and ScopeInfo's state hooks.",
        design_ref="3.1 C12",
        note="Bounded: histories over a 9-path universe, values of depth <=3 (quick) / <=4 (thorough) over 6 atoms and 7 "
             "key kinds; save is not interrupted (C18). Trusts TLC and json.",
        technique="TLA+ specs RopeHistory (+Reopen) and Serial + TLC; replay with real close/reopen and twin run; value round trip through the real serializer",
    ),
    "C13": dict(
        category="model_checking",
        text="spec/RopeCache.tla models the file-list cache, the module cache with wholesale forgetting of concluded data, "
             "the filtered observer's watch list with change indicators, rope-made changes with observer fan-out, "
             "changes behind rope's back and validate; TLC checks FilesCoherent, SourceCoherent, InferNoStalePositive, "
             "CachedIsWatched exhaustively (every action order to 3-5 operations, deeper under a VIEW) and random walks. "
             "Every behaviour is replayed on a real project; in each quiet state a battery (files, python files, "
             "find_module, source, attribute names, definition locations, first-level inferred objects, occurrences) is "
             "compared between the warm project and a brand-new Project on the same directory.",
        design_ref="3.1 C13",
        note="5-path package-shaped universe, 5 module bodies; external edits change (mtime,size) (set explicitly); "
             "auto-import index not included. The differential oracle needs no model of inference; the model supplies the "
             "behaviours and classifies the one known gap (StaleNegative).",
        technique="TLA+ spec RopeCache + TLC invariants; replay with warm-vs-fresh differential oracle",
    ),
    "C09": dict(
        category="model_checking",
        text="spec/RopeEffects.tla states the request contract over project/ignored/outside regions (TLC: consistent, a "
             "well-behaved implementation satisfies every clause). Every refactoring kind (22) is issued at every offset "
             "of every module of a fixture project that imports an out-of-project module and contains an ignored module, "
             "with and without resources=; one effect trace per request (files changed by compute, announced, changed by "
             "perform, written with non-previewed content, error class) is validated by TLC against "
             "spec/TraceEffects.tla whose invariants are the contract's clauses (PureCompute, OnlyAnnounced, "
             "InsideProject, NothingOutside, PreviewMatches, RefusalClean).",
        design_ref="3.1 C09",
        note="One fixture project; effects observed on the project root and the sibling python_path folder (bytes, and "
             "mtime for the compute phase). Trace validation in the monitoring sense: the model is a contract, the "
             "strength is that every request at every offset is checked.",
        technique="TLA+ contract spec RopeEffects + TLC trace validation (TraceEffects) of effect traces recorded from the real refactorings",
    ),
}

NOT_YET = "check not built yet in this round; see DESIGN.md section 3 for the planned spec and binding"

DESIGN_REF = {"C01": "3.3 C01, 9.4", "C02": "3.3 C02, 9.4", "C03": "3.3 C03, 9.4", "C04": "3.3 C04, 9.4",
              "C05": "3.3 C05, 9.4", "C06": "3.3 C06, 9.4", "C07": "3.3 C07, 9.4", "C08": "3.2 C08, 9.4",
              "C14": "3.2 C14, 9.4", "C15": "3.2 C15, 9.4", "C16": "3.2 C16, 9.4", "C17": "3.3 C17, 9.4",
              "C19": "3.3 C19, 9.4", "C20": "3.3 C20, 9.4"}
# properties built by the builder sessions: their MANIFEST fields live in notes/<ID>.manifest.json;
# a property is claimed once it is listed here (after its check was reviewed and found silent)
ACCEPTED = ["C01", "C02", "C15", "C03", "C04", "C05", "C06", "C07", "C08", "C14", "C16", "C17", "C19", "C20"]
for _pid in ACCEPTED:
    _d = json.load(open(os.path.join(VERIF, "notes", _pid + ".manifest.json")))
    CHECKS[_pid] = dict(category=_d["category"], text=_d["text"], note=_d.get("note", ""),
                        technique=_d.get("technique", ""), design_ref=DESIGN_REF[_pid])


def main():
    checks = []
    for pid in ALL:
        if pid not in CHECKS:
            continue
        c = CHECKS[pid]
        checks.append({
            "property_id": pid,
            "quick_cmd": "./check %s --tier quick" % pid,
            "thorough_cmd": "./check %s --tier thorough" % pid,
            "evidence_file": "evidence/%s.json" % pid,
            "replay_cmd_template": "./check %s --replay {path}" % pid,
            "engine": c.get("engine", "tlc-replay"),
            "level_claimed": {"category": c["category"], "text": c["text"], "design_ref": c["design_ref"]},
            "level_note": c["note"],
            "technique": c["technique"],
        })
    na = [{"property_id": pid, "reason": NOT_YET} for pid in ALL if pid not in CHECKS]
    manifest = {
        "version": 1,
        "setup_cmd": "./setup.sh",
        "hooks": {
            "guard": "ROPE_VERIF",
            "enable": "no source hooks: checks import rope from $VERIF_REPO (default /repo) and observe it through "
                      "Project(fscommands=...), project.add_observer, TaskHandle.add_observer and call-through wrappers",
            "baseline_off_cmd": "cd /repo && /venv/bin/python -m pytest -ra -q -p no:cacheprovider --timeout=900 "
                                "--continue-on-collection-errors",
            "source_commits": [],
            "add_only": True,
        },
        "engines": [
            {"name": "tlc-replay", "path": "engine/", "serves_properties": sorted(CHECKS),
             "kind_free_text": "TLA+ specs under spec/ checked by TLC (engine/tlc.py); behaviours exported from TLC "
                               "are replayed on the real code by bind/<id>.py (engine/replay.py), traces recorded "
                               "from the real code are validated by Trace*.tla specs"},
        ],
        "checks": checks,
        "not_applicable": na,
        "notes": "Every check: ./check <id> --tier quick|thorough; exit 0 held, 1 VIOLATION, 2 machinery failure. "
                 "Known findings: known_findings.jsonl. Seeded changes used to test the checks: seeded/.",
    }
    with open(os.path.join(VERIF, "MANIFEST.json"), "w") as f:
        json.dump(manifest, f, indent=1)
    print("MANIFEST.json: %d checks, %d not claimed" % (len(checks), len(na)))


if __name__ == "__main__":
    main()
