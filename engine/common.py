"""Shared plumbing of the checks: locating rope, verdicts, evidence, known findings."""
import hashlib
import json
import os
import random
import shutil
import sys
import tempfile
import time

VERIF = os.path.dirname(os.path.dirname(os.path.abspath(__file__)))
REPO = os.environ.get("VERIF_REPO", "/repo")
SEED = int(os.environ.get("VERIF_SEED", "0") or 0)
SCRATCH_BASE = "/dev/shm" if os.path.isdir("/dev/shm") else tempfile.gettempdir()


def use_repo():
    """Make `import rope` resolve to the working tree under test."""
    if REPO not in sys.path:
        sys.path.insert(0, REPO)
    for k in list(sys.modules):
        if k == "rope" or k.startswith("rope."):
            mod = sys.modules[k]
            f = getattr(mod, "__file__", "") or ""
            if not f.startswith(REPO):
                del sys.modules[k]
    import rope  # noqa
    assert os.path.abspath(rope.__file__).startswith(os.path.abspath(REPO)), rope.__file__


def scratch(prefix="rv_"):
    return tempfile.mkdtemp(prefix=prefix, dir=SCRATCH_BASE)


def rmtree(p):
    shutil.rmtree(p, ignore_errors=True)


def rng(salt=""):
    return random.Random("%s/%s" % (SEED, salt))


def digest(obj):
    return hashlib.sha1(json.dumps(obj, sort_keys=True, default=str).encode()).hexdigest()[:16]


# ---------------------------------------------------------------- findings
def load_known(prop):
    """Entries of known_findings.jsonl for one property.

    Returns (open_entries, fixed_entries).  `fixed` entries suppress nothing.
    """
    import glob
    paths = [os.path.join(VERIF, "known_findings.jsonl")] + sorted(
        glob.glob(os.path.join(VERIF, "known_findings.d", "*.jsonl")))
    opens, fixed = [], []
    for path in paths:
        if not os.path.exists(path):
            continue
        for line in open(path):
            line = line.strip()
            if not line or line.startswith("#"):
                continue
            e = json.loads(line)
            if e.get("property") != prop:
                continue
            (opens if e.get("status") == "open" else fixed).append(e)
    return opens, fixed


class Verdict:
    """Collects failures of one check run, separates known findings from violations."""

    def __init__(self, prop):
        self.prop = prop
        self.opens, self.fixed = load_known(prop)
        self.violations = []      # (key, replay_path)
        self.known_hits = {}      # finding id -> count
        self.machinery = []       # machinery failures (exit 2)
        self.by_key = {}
        self.first_path = {}

    def match_known(self, key):
        """key: dict describing the failure; an open finding matches when all of
        its `match` items equal the corresponding items of key."""
        for e in self.opens:
            m = e.get("match", {})
            if m and all(key.get(k) == v for k, v in m.items()):
                return e
        return None

    def failure(self, key, replay_obj):
        e = self.match_known(key)
        if e is not None:
            self.known_hits[e["id"]] = self.known_hits.get(e["id"], 0) + 1
            return "known"
        ks = json.dumps(key, sort_keys=True, default=str)
        n = self.by_key.get(ks, 0)
        self.by_key[ks] = n + 1
        if n < 3 and len(self.by_key) <= 40:
            path = write_replay(self.prop, replay_obj)
            self.first_path.setdefault(ks, path)
        else:
            path = self.first_path.get(ks) or self.violations[-1][1]
        self.violations.append((key, path))
        return "violation"

    def machinery_failure(self, msg):
        self.machinery.append(msg)

    def finish(self):
        """Print verdict lines and return the exit code."""
        for e in self.opens:
            if e["id"] in self.known_hits:
                print("KNOWN-FINDING: property=%s %s %s (%d cases)" % (
                    self.prop, e["id"], e["what"], self.known_hits[e["id"]]))
        seen = set()
        for key, path in self.violations:
            if path in seen:
                continue
            seen.add(path)
            print("VIOLATION property=%s replay=%s" % (self.prop, path))
            if len(seen) >= 10:
                break
        if self.violations:
            print("%d violating cases in total, by kind:" % len(self.violations))
            for ks, n in sorted(self.by_key.items(), key=lambda kv: -kv[1])[:25]:
                print("  %6d  %s  e.g. %s" % (n, ks[:400], self.first_path.get(ks)))
            return 1
        if self.machinery:
            for m in self.machinery[:10]:
                print("MACHINERY-FAILURE property=%s %s" % (self.prop, m))
            return 2
        print("OK property=%s" % self.prop)
        return 0


def write_replay(prop, obj):
    d = os.path.join(os.environ.get("VERIF_REPLAY_DIR") or os.path.join(VERIF, "replays"), prop)
    os.makedirs(d, exist_ok=True)
    path = os.path.join(d, digest(obj) + ".json")
    with open(path, "w") as f:
        json.dump(obj, f, indent=1, default=str, sort_keys=True)
    return path


# ---------------------------------------------------------------- evidence
def write_evidence(prop, tier, level, coverage, wall_s, violations=0, assumptions=()):
    d = os.environ.get("VERIF_EVIDENCE_DIR") or os.path.join(VERIF, "evidence")
    os.makedirs(d, exist_ok=True)
    ev = {
        "property_id": prop,
        "tier": tier,
        "seed": SEED,
        "level": level,
        "coverage": coverage,
        "assumptions": list(assumptions),
        "wall_s": round(wall_s, 2),
        "violations": violations,
    }
    with open(os.path.join(d, prop + ".json"), "w") as f:
        json.dump(ev, f, indent=1, default=str)
    return ev


class Timer:
    def __init__(self):
        self.t0 = time.time()

    def s(self):
        return time.time() - self.t0


# ---------------------------------------------------------------- disk snapshots
def snapshot(root, skip=(".ropeproject",)):
    """{relative path: None for a folder | bytes for a file}"""
    out = {}
    for dirpath, dirnames, filenames in os.walk(root):
        rel = os.path.relpath(dirpath, root)
        dirnames[:] = sorted(d for d in dirnames if not (rel == "." and d in skip))
        for d in dirnames:
            out[os.path.normpath(os.path.join(rel, d))] = None
        for f in sorted(filenames):
            if rel == "." and f in skip:
                continue
            p = os.path.normpath(os.path.join(rel, f))
            with open(os.path.join(dirpath, f), "rb") as h:
                out[p] = h.read()
    return out


def snap_json(s):
    return {k: (None if v is None else v.decode("utf-8", "backslashreplace")) for k, v in sorted(s.items())}
