"""Run rendered Python programs and capture what they print (the behavioural oracle).

exec_source(): in-process, single module, captured stdout, exception class.
run_entry():   fresh interpreter (python -S -E) with cwd = project root, for
               multi-module projects; returns (stdout, exception class name | None).
Programs given to these are terminating and deterministic by construction.
"""
import contextlib
import io
import os
import subprocess
import sys

PY = sys.executable


def exec_source(src, name="<rendered>", inputs=None, max_out=20000):
    """Execute src as a module body. Returns {"out": str, "exc": str|None, "syntax": bool}."""
    try:
        code = compile(src, name, "exec")
    except SyntaxError as e:
        return {"out": "", "exc": "SyntaxError", "syntax": True, "msg": str(e)}
    glob = {"__name__": "__main__"}
    if inputs:
        glob.update(inputs)
    buf = io.StringIO()
    exc = None
    with contextlib.redirect_stdout(buf):
        try:
            exec(code, glob)
        except BaseException as e:  # the program's own exception is an observable
            exc = type(e).__name__
    return {"out": buf.getvalue()[:max_out], "exc": exc, "syntax": False}


_RUNNER = r"""
import sys, runpy, os
sys.path.insert(0, os.getcwd())
try:
    runpy.run_path(sys.argv[1], run_name="__main__")
except BaseException as e:
    print("EXC:" + type(e).__name__)
"""


def run_entry(root, relpath, timeout=20):
    """Run root/relpath as __main__ in a fresh interpreter. Returns (stdout, exc)."""
    p = subprocess.run([PY, "-S", "-E", "-B", "-c", _RUNNER, relpath], cwd=root, capture_output=True,
                       text=True, timeout=timeout, env={"PYTHONHASHSEED": "0", "PATH": "/usr/bin:/bin"})
    out = p.stdout
    exc = None
    lines = out.splitlines()
    if lines and lines[-1].startswith("EXC:"):
        exc = lines[-1][4:]
        out = "\n".join(lines[:-1]) + ("\n" if len(lines) > 1 else "")
    elif p.returncode != 0:
        exc = "exit%d:%s" % (p.returncode, p.stderr.strip().splitlines()[-1][:120] if p.stderr.strip() else "")
    return out, exc


def run_module(root, modname, timeout=20):
    """Import modname (dotted) as the entry in a fresh interpreter with cwd=root."""
    code = ("import sys, os, importlib\nsys.path.insert(0, os.getcwd())\n"
            "try:\n    importlib.import_module(%r)\nexcept BaseException as e:\n    print('EXC:' + type(e).__name__)\n" % modname)
    p = subprocess.run([PY, "-S", "-E", "-B", "-c", code], cwd=root, capture_output=True, text=True,
                       timeout=timeout, env={"PYTHONHASHSEED": "0", "PATH": "/usr/bin:/bin"})
    out = p.stdout
    exc = None
    lines = out.splitlines()
    if lines and lines[-1].startswith("EXC:"):
        exc = lines[-1][4:]
        out = "\n".join(lines[:-1]) + ("\n" if len(lines) > 1 else "")
    elif p.returncode != 0:
        exc = "exit%d" % p.returncode
    return out, exc
