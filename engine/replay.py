"""Process pool that steps TLC behaviours through the real code."""
import multiprocessing as mp
import os
import traceback

NPROC = int(os.environ.get("VERIF_NPROC", "16"))


def _run_chunk(args):
    fn, chunk = args
    out = []
    for item in chunk:
        try:
            out.append(fn(item))
        except BaseException as e:  # harness bug: report, never swallow
            out.append({"machinery": "%s: %s\n%s" % (type(e).__name__, e, traceback.format_exc()[-1500:]),
                        "item": item})
    return out


def pool_map(fn, items, chunk=200, nproc=None, init=None):
    """Apply module-level fn to every item in worker processes; yields results in chunk order."""
    nproc = nproc or NPROC
    items = list(items)
    if not items:
        return
    chunks = [(fn, items[k:k + chunk]) for k in range(0, len(items), chunk)]
    if nproc <= 1 or len(items) < 8:
        if init:
            init()
        for c in chunks:
            for r in _run_chunk(c):
                yield r
        return
    ctx = mp.get_context("fork")
    with ctx.Pool(nproc, initializer=init) as pool:
        for res in pool.imap_unordered(_run_chunk, chunks):
            for r in res:
                yield r
