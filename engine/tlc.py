"""Run TLC and collect what the checks need from it.

One entry point, run(), used by every check:

* writes a .cfg from a dict (constants, invariants, properties, constraint...)
* runs TLC (exhaustive or -simulate) with a private -metadir on /dev/shm that
  is removed afterwards
* streams stdout; lines printed by the spec with PrintT(<<"TAG", ToJson(x)>>)
  are decoded and handed to a callback / collected (behaviour export)
* parses states generated / distinct / depth, the violated invariant and the
  counterexample, and per-action coverage when asked for.

Nothing here knows about rope.
"""
import json
import os
import re
import shutil
import subprocess
import tempfile
import time

SPEC_DIR = os.path.join(os.path.dirname(os.path.dirname(os.path.abspath(__file__))), "spec")
JAVA_CP = "/opt/veriftools/tla/tla2tools.jar:/opt/veriftools/tla/CommunityModules-deps.jar"


class TLCResult:
    def __init__(self):
        self.ok = False            # TLC finished and found no error
        self.completed = False     # state space exhausted / simulation finished
        self.violated = None       # name of violated invariant / property
        self.error = None          # other TLC error text
        self.trace = ""            # counterexample as printed
        self.generated = 0
        self.distinct = 0
        self.depth = 0
        self.queue = 0
        self.coverage = {}         # action name -> (distinct, total)
        self.tagged = {}           # tag -> list of decoded json values
        self.all_violations = []   # with extra=("-continue",): [(invariant name, trace text)]
        self.wall_s = 0.0
        self.cmd = ""
        self.tail = ""

    def summary(self):
        return {
            "ok": self.ok, "completed": self.completed, "violated": self.violated,
            "generated": self.generated, "distinct": self.distinct,
            "depth": self.depth, "wall_s": round(self.wall_s, 2),
        }


def tla_value(v):
    """Python value -> TLA+ text for a cfg constant."""
    if isinstance(v, bool):
        return "TRUE" if v else "FALSE"
    if isinstance(v, int):
        return str(v)
    if isinstance(v, str):
        return '"%s"' % v
    if isinstance(v, (set, frozenset)):
        return "{" + ", ".join(sorted(tla_value(x) for x in v)) + "}"
    if isinstance(v, (list, tuple)):
        return "<<" + ", ".join(tla_value(x) for x in v) + ">>"
    raise TypeError(v)


class Sub:
    """cfg substitution  NAME <- Definition"""

    def __init__(self, name):
        self.name = name


def write_cfg(path, spec="Spec", constants=None, invariants=(), properties=(),
              constraints=(), action_constraints=(), view=None, postcondition=None,
              deadlock=False, init_next=None):
    lines = []
    if init_next:
        lines.append("INIT %s" % init_next[0])
        lines.append("NEXT %s" % init_next[1])
    else:
        lines.append("SPECIFICATION %s" % spec)
    if constants:
        lines.append("CONSTANTS")
        for k, v in constants.items():
            if isinstance(v, Sub):
                lines.append("  %s <- %s" % (k, v.name))
            else:
                lines.append("  %s = %s" % (k, tla_value(v)))
    for inv in invariants:
        lines.append("INVARIANT %s" % inv)
    for p in properties:
        lines.append("PROPERTY %s" % p)
    for c in constraints:
        lines.append("CONSTRAINT %s" % c)
    for c in action_constraints:
        lines.append("ACTION_CONSTRAINT %s" % c)
    if view:
        lines.append("VIEW %s" % view)
    if postcondition:
        lines.append("POSTCONDITION %s" % postcondition)
    lines.append("CHECK_DEADLOCK %s" % ("TRUE" if deadlock else "FALSE"))
    with open(path, "w") as f:
        f.write("\n".join(lines) + "\n")


_TAG_RE = re.compile(r'^<<"([A-Z][A-Z0-9_]*)", "(.*)">>$')


def _decode_tagged(line):
    m = _TAG_RE.match(line)
    if not m:
        return None
    tag, body = m.group(1), m.group(2)
    # TLC prints the string with \" and \\ escapes
    try:
        text = json.loads('"' + body + '"')
        return tag, json.loads(text)
    except ValueError:
        return tag, None


def run(module, cfg, workers=16, simulate=None, depth=None, seed=None, coverage=False,
        on_tagged=None, collect_tags=True, timeout=3600, env=None, extra=(),
        spec_dir=SPEC_DIR, java_opts=(), max_tagged=None, dfs_queue=False):
    """Run TLC on spec_dir/module.tla with cfg (a path).

    simulate: None for exhaustive, or dict(num=N[, file=prefix]).
    on_tagged(tag, value): called for every decoded PrintT(<<"TAG", ToJson(v)>>).
    """
    res = TLCResult()
    meta = tempfile.mkdtemp(prefix="tlcmeta_", dir="/dev/shm" if os.path.isdir("/dev/shm") else None)
    cmd = ["java", "-XX:+UseParallelGC", "-Xmx6g"]
    if dfs_queue:
        cmd.append("-Dtlc2.tool.queue.IStateQueue=StateDeque")
    cmd += list(java_opts)
    cmd += ["-cp", JAVA_CP, "tlc2.TLC", "-workers", str(workers), "-metadir", meta,
            "-noGenerateSpecTE", "-config", cfg]
    if simulate is not None:
        s = "num=%d" % simulate["num"]
        if simulate.get("file"):
            s = "file=%s,%s" % (simulate["file"], s)
        cmd += ["-simulate", s]
    if depth is not None:
        cmd += ["-depth", str(depth)]
    if seed is not None:
        cmd += ["-seed", str(seed)]
    if coverage:
        cmd += ["-coverage", "1"]
    cmd += list(extra)
    cmd.append(module if module.endswith(".tla") else module + ".tla")
    res.cmd = " ".join(cmd)
    t0 = time.time()
    e = dict(os.environ)
    if env:
        e.update(env)
    proc = subprocess.Popen(cmd, cwd=spec_dir, stdout=subprocess.PIPE, stderr=subprocess.STDOUT,
                            text=True, env=e, bufsize=1 << 20)
    tail = []
    in_trace = False
    trace_lines = []
    ntag = 0
    cov_re = re.compile(r"^<(\w+) line \d+, col \d+ to line \d+, col \d+ of module (\w+)>: (\d+):(\d+)")
    try:
        for line in proc.stdout:
            line = line.rstrip("\n")
            if line.startswith('<<"'):
                d = _decode_tagged(line)
                if d is not None:
                    tag, val = d
                    if val is None:
                        res.error = "undecodable tagged line: " + line[:200]
                        continue
                    ntag += 1
                    if on_tagged:
                        on_tagged(tag, val)
                    if collect_tags and (max_tagged is None or len(res.tagged.get(tag, ())) < max_tagged):
                        res.tagged.setdefault(tag, []).append(val)
                    continue
            tail.append(line)
            if len(tail) > 400:
                del tail[:200]
            m = re.match(r"Error: Invariant (\w+) is violated", line)
            if m:
                if res.violated is None:
                    res.violated = m.group(1)
                res.all_violations.append([m.group(1), []])
                in_trace = True
                continue
            m = re.match(r"Error: Action property (\w+) is violated", line) or \
                re.match(r"Error: Temporal properties were violated", line)
            if m:
                res.violated = m.group(1) if m.groups() else "temporal"
                in_trace = True
                continue
            if line.startswith("Error:") and res.error is None and "behavior up to this point" not in line:
                if res.violated is None:
                    res.error = line
                    in_trace = True
            m = re.match(r"(\d+) states generated, (\d+) distinct states found, (\d+) states left on queue", line)
            if m:
                res.generated, res.distinct, res.queue = int(m.group(1)), int(m.group(2)), int(m.group(3))
                in_trace = False
                continue
            m = re.match(r"The depth of the complete state graph search is (\d+)", line)
            if m:
                res.depth = int(m.group(1))
            if "Model checking completed. No error has been found" in line:
                res.completed = True
            m = re.match(r"Progress: (\d+) states checked, (\d+) traces generated", line)
            if m:
                res.generated = int(m.group(1))
            if "Finished in" in line and simulate is not None and res.violated is None and res.error is None:
                res.completed = True
            m = cov_re.match(line)
            if m:
                res.coverage[m.group(1)] = (int(m.group(3)), int(m.group(4)))
            if in_trace and len(trace_lines) < 4000:
                trace_lines.append(line)
            if in_trace and res.all_violations and len(res.all_violations[-1][1]) < 400:
                res.all_violations[-1][1].append(line)
        proc.wait(timeout=timeout)
    finally:
        if proc.poll() is None:
            proc.kill()
        shutil.rmtree(meta, ignore_errors=True)
        # TLC drops <module>_TTrace / states dirs next to the spec on some errors
    res.trace = "\n".join(trace_lines)
    res.all_violations = [(n, "\n".join(t)) for n, t in res.all_violations]
    res.tail = "\n".join(tail[-60:])
    res.wall_s = time.time() - t0
    res.ok = res.completed and res.violated is None and res.error is None and proc.returncode == 0
    if proc.returncode not in (0, 12, 13) and res.error is None and res.violated is None:
        res.error = "TLC exit code %s" % proc.returncode
    return res


def sany(module, spec_dir=SPEC_DIR):
    p = subprocess.run(["java", "-cp", JAVA_CP, "tla2sany.SANY", module + ".tla"], cwd=spec_dir,
                       capture_output=True, text=True)
    return p.returncode == 0 and "Fatal" not in p.stdout and "*** Errors" not in p.stdout, p.stdout
