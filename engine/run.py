"""python -m engine.run <ID> <tier>: runs bind.<id> exactly as `python -m bind.<id> <tier>` would, except that
an unhandled exception in the check itself ends with exit code 2 (machinery failure) instead of Python's
default 1, which ./check reserves for a reported VIOLATION."""
import os
import runpy
import sys
import traceback


def main():
    pid, tier = sys.argv[1], sys.argv[2]
    mod = "bind." + pid.lower()

    def hook(tp, val, tb):
        traceback.print_exception(tp, val, tb)
        sys.stderr.flush()
        print("MACHINERY-FAILURE property=%s the check itself died with an unhandled %s" % (pid, tp.__name__),
              flush=True)
        os._exit(2)

    sys.excepthook = hook
    sys.argv = [mod, tier]
    runpy.run_module(mod, run_name="__main__", alter_sys=True)


if __name__ == "__main__":
    main()
