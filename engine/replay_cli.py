"""./check <ID> --replay <path>: re-run one recorded failing case against the current tree.

A binding that can re-run a replay file defines `replay_case(obj) -> (failed: bool, detail)`.
For the others the recorded case is printed (it contains the scenario, what was expected
and what was observed) and the quick tier is re-run, which regenerates the case."""
import importlib
import json
import sys


def main(prop, path):
    obj = json.load(open(path))
    mod = importlib.import_module("bind." + prop.lower())
    fn = getattr(mod, "replay_case", None)
    if fn is None:
        print(json.dumps(obj, indent=1)[:6000])
        print("bind.%s has no single-case replay; re-running the quick tier" % prop.lower())
        return mod.main("quick")
    failed, detail = fn(obj)
    print(json.dumps(detail, indent=1, default=str)[:6000])
    if failed:
        print("VIOLATION property=%s replay=%s" % (prop, path))
        return 1
    print("OK property=%s (the recorded case no longer fails)" % prop)
    return 0


if __name__ == "__main__":
    sys.exit(main(sys.argv[1], sys.argv[2]))
