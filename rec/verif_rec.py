"""pytest plugin: record History.do/undo/redo of every rope Project the repository's
own tests create, as ndjson traces for spec/TraceHistory.tla.

Load with  PYTHONPATH=/verif  pytest -p rec.verif_rec ...  and VERIF_REC_DIR=<dir>.
Call-through wrappers only: the wrapped methods run unchanged; one event is logged
after each call returns (also when it raises), with the abstract state the spec talks
about: interned ids of the changes on the undo/redo lists, the flattened leaves of the
change, and the project tree before and after (paths as name lists, contents interned).
"""
import hashlib
import json
import os

_OUT = {"fh": None, "n": 0}


def _out():
    if _OUT["fh"] is None:
        d = os.environ.get("VERIF_REC_DIR")
        if not d:
            return None
        os.makedirs(d, exist_ok=True)
        _OUT["fh"] = open(os.path.join(d, "trace_%d.ndjson" % os.getpid()), "a")
    return _OUT["fh"]


class _Rec:
    """per History object"""

    def __init__(self, history):
        self.history = history
        self.ids = {}
        self.keep = []
        self.contents = {b"": 0}
        self.events = []
        self.tid = None

    def cid(self, data):
        k = hashlib.sha1(data).digest() if data else b""
        if k not in self.contents:
            self.contents[k] = len(self.contents)
        return self.contents[k]

    def chid(self, change):
        if id(change) not in self.ids:
            self.ids[id(change)] = len(self.ids) + 1
            self.keep.append(change)
        return self.ids[id(change)]

    def tree(self):
        root = self.history.project.address
        out = []
        for dirpath, dirnames, filenames in os.walk(root):
            rel = os.path.relpath(dirpath, root)
            parts = [] if rel == "." else rel.split(os.sep)
            dirnames[:] = sorted(d for d in dirnames if not (not parts and d == ".ropeproject"))
            for d in dirnames:
                out.append([parts + [d], -2])
            for f in sorted(filenames):
                try:
                    with open(os.path.join(dirpath, f), "rb") as h:
                        out.append([parts + [f], self.cid(h.read())])
                except OSError:
                    pass
        return out

    def leaves(self, change):
        from rope.base import change as cm
        out = []
        if isinstance(change, cm.ChangeSet):
            for c in change.changes:
                out.extend(self.leaves(c))
            return out
        def parts(path):
            return [x for x in path.split("/") if x]
        p = parts(change.resource.path) if getattr(change, "resource", None) is not None else []
        if isinstance(change, cm.ChangeContents):
            new = change.new_contents
            if not isinstance(new, bytes):
                try:
                    from rope.base import fscommands
                    new = fscommands.unicode_to_file_data(new, newlines=change.resource.newlines)
                except Exception:
                    new = new.encode("utf-8", "replace")
            out.append({"k": "W", "p": p, "q": [], "c": self.cid(new)})
        elif isinstance(change, cm.MoveResource):
            out.append({"k": "MV", "p": p, "q": parts(change.new_resource.path), "c": 0,
                        "dir": bool(change.resource.is_folder())})
        elif isinstance(change, cm.CreateResource):
            out.append({"k": "CD" if change.resource.is_folder() else "CF", "p": p, "q": [], "c": 0})
        elif isinstance(change, cm.RemoveResource):
            out.append({"k": "RM", "p": p, "q": [], "c": 0})
        else:
            out.append({"k": "?", "p": p, "q": [], "c": 0})
        return out


def _rec_of(history):
    r = getattr(history, "_verif_rec", None)
    if r is None:
        r = _Rec(history)
        history._verif_rec = r
    return r


def _wrap(name):
    from rope.base import history as hm
    orig = getattr(hm.History, name)

    def wrapper(self, *args, **kwargs):
        if getattr(self, "_verif_depth", 0) or not hasattr(self.project, "address"):
            return orig(self, *args, **kwargs)
        self._verif_depth = 1
        rec = _rec_of(self)
        ev = {"op": name}
        try:
            change = args[0] if args else kwargs.get("change", kwargs.get("changes"))
            ev["undo0"] = [rec.chid(c) for c in self.undo_list]
            ev["redo0"] = [rec.chid(c) for c in self.redo_list]
            ev["tree0"] = rec.tree()
            ev["limit"] = int(self.max_undos)
            if name == "do":
                ev["id"] = rec.chid(change)
                ev["leaves"] = rec.leaves(change)
                # the documented rule, evaluated here (not by calling the method under test): a change is
                # recorded iff at least one resource it changes is not an ignored resource
                ev["interesting"] = any(not self.project.is_ignored(r)
                                        for r in change.get_changed_resources() if r is not None)
                ev["i"] = 0
            else:
                lst = self.undo_list if name == "undo" else self.redo_list
                ev["i"] = (lst.index(change) + 1) if change is not None and change in lst else (len(lst) if change is None else -1)
                ev["id"] = 0
                ev["leaves"] = []
                ev["interesting"] = True
            ev["drop"] = bool(kwargs.get("drop", args[1] if len(args) > 1 and name == "undo" else False))
        except Exception as e:  # recording must never disturb the test
            ev["recerr"] = repr(e)[:200]
        exc = None
        try:
            return orig(self, *args, **kwargs)
        except BaseException as e:
            exc = e
            raise
        finally:
            self._verif_depth = 0
            try:
                ev["exc"] = type(exc).__name__ if exc is not None else ""
                ev["undo1"] = [rec.chid(c) for c in self.undo_list]
                ev["redo1"] = [rec.chid(c) for c in self.redo_list]
                ev["tree1"] = rec.tree()
                rec.events.append(ev)
                fh = _out()
                if fh is not None:
                    if rec.tid is None:
                        _OUT["n"] += 1
                        rec.tid = "%d-%d" % (os.getpid(), _OUT["n"])
                    ev["tid"] = rec.tid
                    fh.write(json.dumps(ev) + "\n")
                    fh.flush()
            except Exception:
                pass

    wrapper._verif_wrapped = True
    setattr(hm.History, name, wrapper)


def install():
    from rope.base import history as hm
    for name in ("do", "undo", "redo"):
        if not getattr(getattr(hm.History, name), "_verif_wrapped", False):
            _wrap(name)


def pytest_configure(config):
    install()
