"""C10 - a composite change is all-or-nothing under failure and interruption.

TLC explores spec/RopeChange.tla (every composite of <= MaxLeaves leaves that is
executable step by step, x every fs-command fault, x every stop position, x a
naturally failing last leaf, for do and undo), checks the atomicity invariants
on the model and prints one behaviour per terminal state.  Every behaviour is
then replayed on a real rope project: the composite is rendered to a ChangeSet,
the fault is the n-th mutating call of a FileSystemCommands wrapper, the stop is
issued from a TaskHandle observer at the job boundary the spec chose.  The
property is judged on the real disk tree / history / exception; the spec's
prediction (final tree, fs command sequence, history lengths) is compared too.
"""
import json
import os
import sys

from engine import common, tlc, replay

PROP = "C10"

FIXED_CONSTANTS = {"RollbackOrder": "reverse", "SelfRevert": True}


def constants(tier):
    c = {
        "DirNames": {"d", "e"},
        "FileNames": {"x", "y"},
        "MaxDepth": 2,
        "MaxLeaves": 3,
        "InitTrees": tlc.Sub("MCInitTreesQuick" if tier == "quick" else "MCInitTrees"),
        "Directions": {"do", "undo"},
        "AllowFault": True,
        "AllowStop": True,
        "AllowNatural": True,
        "AllowPreEdit": True,
        "FullHistory": False,
    }
    c.update(FIXED_CONSTANTS)
    return c


INVARIANTS = ["TypeOK", "TreeIsTree", "AtomicTreeNoRemove", "NoStray", "HistUnchanged",
              "ErrorReported", "RollbackRuns"]

# ------------------------------------------------------------------ rendering
HIST_FILE = "h_hist.txt"


def rpath(p):
    """abstract path (list of names) -> project-relative path"""
    s = "/".join(p)
    if RICH and p == ["x"]:
        return "x\udce9.py"     # bytes x\xe9.py on disk: legal on Linux, a lone surrogate in the str path
    if p == ["n"]:
        return "e"            # C12: a FILE rendered where the folder `e` would be (never both present)
    if p[-1] in ("x", "y"):
        s += ".py"
    elif p[-1] == "k":
        s += ".bak"      # matched by ignored_resources=["*.bak"] in the C11 configuration that uses it
    return s


RICH = False   # C12 switches this on: unicode, multi-line contents, a file name that is not valid UTF-8


def content(c):
    if c == 0:
        return b""
    text = "# content %d\n" % c
    if RICH and c % 2 == 1:
        text += "s = 'h\u00e9llo \u20ac \U0001F600'\n\nlast = 1"
    return text.encode("utf-8")


def render_tree(root, pairs):
    for p, v in sorted(pairs, key=lambda pv: len(pv[0])):
        full = os.path.join(root, rpath(p))
        if v == -2:
            os.mkdir(full)
        else:
            with open(full, "wb") as f:
                f.write(content(v))


def abstract_tree(root):
    """disk -> sorted list of [path, value]; unknown entries are kept verbatim"""
    snap = common.snapshot(root)
    out = []
    for rel, data in snap.items():
        if rel == HIST_FILE:
            continue
        names = rel.split(os.sep)
        if RICH and names == ["x\udce9.py"]:
            names = ["x.py"]
        if names[-1].endswith(".py"):
            names[-1] = names[-1][:-3]
        elif names[-1].endswith(".bak"):
            names[-1] = names[-1][:-4]
        if data is not None and names == ["e"]:
            names = ["n"]
        if data is None:
            out.append([names, -2])
        else:
            v = None
            if data == b"":
                v = 0
            elif data.startswith(b"# content "):
                try:
                    v = int(data[10:data.index(b"\n")])
                    if content(v) != data:
                        v = None
                except ValueError:
                    v = None
            out.append([names, v if v is not None else "?" + data.decode("latin-1")[:40]])
    return sorted(out)


class Faulty:
    """Call-through wrapper of FileSystemCommands: records mutating commands and
    raises OSError instead of performing the n-th one when armed."""

    MUT = ("create_file", "create_folder", "move", "remove", "write")

    def __init__(self, inner, root):
        self.inner = inner
        self.root = root
        self.log = None
        self.count = 0
        self.fail_at = 0

    def arm(self, fail_at):
        self.log = []
        self.count = 0
        self.fail_at = fail_at

    def _rel(self, path):
        names = os.path.relpath(path, self.root).split(os.sep)
        if names[-1].endswith(".py"):
            names[-1] = names[-1][:-3]
        return names

    def _mut(self, name, *paths_and_args):
        if self.log is not None:
            self.count += 1
            if self.count == self.fail_at:
                raise OSError(5, "injected fault in %s" % name)

    def create_file(self, path):
        self._mut("create_file")
        self.inner.create_file(path)
        if self.log is not None:
            self.log.append({"op": "create_file", "p": self._rel(path), "q": []})

    def create_folder(self, path):
        self._mut("create_folder")
        self.inner.create_folder(path)
        if self.log is not None:
            self.log.append({"op": "create_folder", "p": self._rel(path), "q": []})

    def move(self, path, new_location):
        self._mut("move")
        self.inner.move(path, new_location)
        if self.log is not None:
            self.log.append({"op": "move", "p": self._rel(path), "q": self._rel(new_location)})

    def remove(self, path):
        self._mut("remove")
        self.inner.remove(path)
        if self.log is not None:
            self.log.append({"op": "remove", "p": self._rel(path), "q": []})

    def write(self, path, data):
        self._mut("write")
        self.inner.write(path, data)
        if self.log is not None:
            self.log.append({"op": "write", "p": self._rel(path), "q": []})

    def read(self, path):
        return self.inner.read(path)


def build_changeset(project, cs, nest, change_mod):
    """cs: list of leaf records; nest: None or (a, b) 1-based inclusive run put
    into an inner ChangeSet."""
    def leaf(l):
        k = l["k"]
        if k == "W":
            return change_mod.ChangeContents(project.get_file(rpath(l["p"])), content(l["c"]).decode())
        if k == "CF":
            return change_mod.CreateResource(project.get_file(rpath(l["p"])))
        if k == "CD":
            return change_mod.CreateResource(project.get_folder(rpath(l["p"])))
        if k == "MV":
            isdir = l["p"][-1] in ("d", "e")
            res = project.get_folder(rpath(l["p"])) if isdir else project.get_file(rpath(l["p"]))
            return change_mod.MoveResource(res, rpath(l["q"]), exact=True)
        if k == "RM":
            isdir = l["p"][-1] in ("d", "e")
            res = project.get_folder(rpath(l["p"])) if isdir else project.get_file(rpath(l["p"]))
            return change_mod.RemoveResource(res)
        raise ValueError(k)

    top = change_mod.ChangeSet("composite under test")
    inner = None
    for n, l in enumerate(cs, 1):
        if nest and nest[0] <= n <= nest[1]:
            if inner is None:
                inner = change_mod.ChangeSet("inner")
                top.add_change(inner)
            inner.add_change(leaf(l))
        else:
            top.add_change(leaf(l))
    return top


def run_behaviour(item):
    """Replay one TLC behaviour (with one nesting variant) on a real project."""
    beh, nest = item
    if isinstance(beh, str):       # behaviours travel as compact JSON text (memory)
        beh = json.loads(beh)
    common.use_repo()
    from rope.base import project as project_mod, change as change_mod, taskhandle, fscommands, exceptions

    root = common.scratch("c10_")
    try:
        render_tree(root, beh["init"])
        with open(os.path.join(root, HIST_FILE), "wb") as f:
            f.write(b"h0\n")
        fs = Faulty(fscommands.FileSystemCommands(), root)
        full = beh["dir"] == "do" and beh.get("hist0") == [1, 0]     # spec: FullHistory
        project = project_mod.Project(root, fscommands=fs, ropefolder=None, **({"max_history_items": 1} if full else {}))
        hres = project.get_file(HIST_FILE)
        # history before the call: one undoable, one redoable change
        for text in ("h1\n", "h2\n"):
            c = change_mod.ChangeSet("prior " + text.strip())
            c.add_change(change_mod.ChangeContents(hres, text))
            project.do(c)
        if not full:
            project.history.undo()
        cs = beh["cs"]
        n = len(cs)
        changes = build_changeset(project, cs, nest, change_mod)
        undo_dir = beh["dir"] == "undo"
        if not undo_dir:
            # the change object exists and is previewed; then (spec: PreEdit) a file may get new contents
            # behind rope's back before the change is performed
            try:
                changes.get_description()
            except Exception:
                pass
            if beh.get("pre"):
                with open(os.path.join(root, rpath(beh["pre"])), "wb") as f:
                    f.write(content(3))
        if undo_dir:
            project.do(changes)
        hist_before = [list(project.history.undo_list), list(project.history.redo_list)]
        snap_before = abstract_tree(root)

        def jpos(i):  # leaf index -> position in iteration order
            return n - i + 1 if undo_dir else i

        fail_at = jpos(beh["faultAt"]) if beh["faultAt"] else 0
        handle = taskhandle.TaskHandle("c10")
        stop_cb = 0
        if beh["stopAt"]:
            ph, i = beh["stopAt"]
            j = jpos(i)
            stop_cb = (1 + 2 * (j - 1)) if ph == "start" else 2 * j
        state = {"cb": 0, "fired": False}

        def observer():
            if state["fired"]:
                return
            state["cb"] += 1
            if stop_cb and state["cb"] == stop_cb:
                state["fired"] = True
                handle.stop()

        handle.add_observer(observer)
        fs.arm(fail_at)
        exc = None
        try:
            if undo_dir:
                project.history.undo(task_handle=handle)
            else:
                project.do(changes, task_handle=handle)
        except BaseException as e:  # noqa
            exc = e
        ops = fs.log
        fs.log = None
        after = abstract_tree(root)
        hist_after = [list(project.history.undo_list), list(project.history.redo_list)]
        obs = {
            "exc": type(exc).__name__ if exc is not None else None,
            "exc_is_rope": isinstance(exc, exceptions.RopeError) if exc is not None else None,
            "exc_msg": str(exc)[:200] if exc is not None else None,
            "exc_chain": exc_chain(exc),
            "tree": after,
            "before": snap_before,
            "hist": [len(hist_after[0]), len(hist_after[1])],
            "hist_same": all(len(a) == len(b) and all(x is y for x, y in zip(a, b))
                             for a, b in zip(hist_before, hist_after)),
            "ops": ops,
            "stop_fired": state["fired"],
        }
        return judge(beh, nest, obs)
    finally:
        common.rmtree(root)


def exc_chain(e):
    out = []
    while e is not None and len(out) < 10:
        out.append(type(e).__name__)
        e = e.__context__
    return out


def judge(beh, nest, obs):
    """Property clauses first (they decide VIOLATION), then conformance with the
    spec's prediction."""
    fails = []
    final = sorted(beh["final"])
    snap = sorted(beh["snap"])
    expected_fail = beh["result"] != "ok"
    if obs["before"] != snap:
        return {"machinery": "rendered tree before the call differs from the spec's snap0",
                "item": [beh, nest], "obs": obs}
    if expected_fail:
        if obs["exc"] is None:
            fails.append("ErrorReported")
        if obs["tree"] != snap:
            fails.append("AtomicTree")
        if not obs["hist_same"]:
            fails.append("HistUnchanged")
    else:
        # nothing went wrong in this behaviour: the call must succeed and apply everything
        if obs["exc"] is not None:
            fails.append("SpuriousError")
        elif obs["tree"] != final:
            fails.append("FinalTree")
        elif obs["hist"] != beh["hist"]:
            fails.append("HistoryRecorded")
    conf = []
    if obs["ops"] != beh["ops"]:
        conf.append("ops")
    if expected_fail and obs["tree"] != final:
        conf.append("tree-vs-model")
    if beh["stopAt"] and not obs["stop_fired"] and beh["cause"] == "stop":
        conf.append("stop-not-fired")
    return {"fails": fails, "conf": conf, "beh": beh, "nest": nest, "obs": obs}


def key_of(r):
    beh = r["beh"]
    remove_undo = bool(beh["needsRM"]) and "NotImplementedError" in r["obs"]["exc_chain"]
    return {
        "clauses": sorted(r["fails"]),
        "remove_inverse_missing": remove_undo,
        "dir": beh["dir"],
        "cause": beh["cause"],
    }


def nest_variants(beh, rnd):
    n = len(beh["cs"])
    out = [None]
    if n >= 2:
        a = rnd.randint(1, n - 1) if n > 2 else 1
        b = rnd.randint(a + 1, n) if a + 1 <= n else n
        if rnd.random() < 0.5:
            a, b = 1, n
        out.append((a, b))
    return out


def main(tier):
    timer = common.Timer()
    verdict = common.Verdict(PROP)
    cfg = os.path.join(common.SCRATCH_BASE, "c10_%d.cfg" % os.getpid())
    tlc.write_cfg(cfg, constants=constants(tier), invariants=INVARIANTS + ["Export"])
    behs = []
    counter = {"n": 0, "kept": 0}

    def on_beh(t, v):
        # thorough: more than a million terminal behaviours; all failing ones with >= 2 fs commands are kept,
        # of the rest a seeded half (TLC itself still checks every state)
        counter["n"] += 1
        if tier == "thorough" and not (v["result"] != "ok" and len(v["ops"]) >= 2) and \
                (counter["n"] + common.SEED) % 2:
            return
        counter["kept"] += 1
        behs.append(v)
    res = tlc.run("MC_RopeChange", cfg, on_tagged=on_beh, collect_tags=False,
                  coverage=(tier == "quick"))
    os.unlink(cfg)
    print("TLC RopeChange:", res.summary())
    # the same calls on a history that is already at its limit (limit 1): a failed or interrupted call
    # must not cost the oldest entry
    cf = constants("quick")
    cf.update({"FullHistory": True, "Directions": {"do"}, "AllowPreEdit": False, "MaxLeaves": 2})
    cfgf = os.path.join(common.SCRATCH_BASE, "c10f_%d.cfg" % os.getpid())
    tlc.write_cfg(cfgf, constants=cf, invariants=INVARIANTS + ["Export"])
    full_behs = []
    resf = tlc.run("MC_RopeChange", cfgf, on_tagged=lambda t, v: full_behs.append(v), collect_tags=False)
    os.unlink(cfgf)
    print("TLC RopeChange[full history]:", resf.summary(), "behaviours:", len(full_behs))
    if not resf.ok:
        if resf.violated:
            path = common.write_replay(PROP, {"kind": "tlc-counterexample", "invariant": resf.violated,
                                              "trace": resf.trace})
            print("VIOLATION property=%s replay=%s" % (PROP, path))
            return 1
        print("MACHINERY-FAILURE property=%s TLC[full history]: %s\n%s" % (PROP, resf.error, resf.tail))
        return 2
    if not res.ok:
        if res.violated:
            # the model of the code as it is admits a non-atomic behaviour
            path = common.write_replay(PROP, {"kind": "tlc-counterexample", "invariant": res.violated,
                                              "trace": res.trace})
            print("VIOLATION property=%s replay=%s" % (PROP, path))
            print("TLC: invariant %s violated on the model with the code's constants" % res.violated)
            return 1
        print("MACHINERY-FAILURE property=%s TLC: %s\n%s" % (PROP, res.error, res.tail))
        return 2
    # vacuity guard: every action of the model was taken
    if res.coverage:
        needed = ["PreEdit", "NoPreEdit", "BuildLeaf", "BeginUndo", "ChooseLeaf", "EndOkDo", "Stop", "JobStart", "FsOp", "FsFail",
                  "FsNatural", "FinishOk", "FinishStopRevert", "FinishStopRevertFails", "RollbackStep"]
        for a in needed:
            if a in res.coverage and res.coverage[a][1] == 0:
                verdict.machinery_failure("action %s never taken" % a)

    # sensitivity of the model: with the pinned code's constants atomicity must fail
    sens = {}
    if tier == "thorough":
        for name, over in (("forward-rollback", {"RollbackOrder": "forward"}),
                           ("no-self-revert", {"SelfRevert": False})):
            c = constants("thorough")
            c.update(over)
            cfg2 = os.path.join(common.SCRATCH_BASE, "c10s_%d.cfg" % os.getpid())
            tlc.write_cfg(cfg2, constants=c, invariants=["AtomicTreeNoRemove", "RollbackRuns"])
            r2 = tlc.run("MC_RopeChange", cfg2)
            os.unlink(cfg2)
            sens[name] = r2.violated
            if r2.violated is None:
                verdict.machinery_failure("model insensitive: %s satisfies atomicity" % name)

    # beyond the exhaustive bound: random walks through composites of up to 5 leaves
    sim_info = {}
    if tier == "thorough":
        c = constants("thorough")
        c["MaxLeaves"] = 5
        cfg3 = os.path.join(common.SCRATCH_BASE, "c10sim_%d.cfg" % os.getpid())
        tlc.write_cfg(cfg3, constants=c, invariants=INVARIANTS + ["Export"])
        simb = []
        r3 = tlc.run("MC_RopeChange", cfg3, simulate={"num": 2500}, depth=60, seed=common.SEED + 10,
                     on_tagged=lambda t, v: simb.append(v), collect_tags=False)
        os.unlink(cfg3)
        print("TLC RopeChange[simulation, 5 leaves]:", r3.summary(), "behaviours:", len(simb))
        sim_info = {**r3.summary(), "behaviours": len(simb)}
        if not r3.ok:
            if r3.violated:
                path = common.write_replay(PROP, {"kind": "tlc-counterexample", "invariant": r3.violated,
                                                  "trace": r3.trace})
                print("VIOLATION property=%s replay=%s" % (PROP, path))
                return 1
            verdict.machinery_failure("simulation run: %s" % r3.error)
        seen = {common.digest(b) for b in behs}
        for b in simb:
            d = common.digest(b)
            if d not in seen:
                seen.add(d)
                behs.append(b)

    rnd = common.rng("c10")
    behs.sort(key=lambda b: json.dumps(b, sort_keys=True))
    total = len(behs)
    if tier == "quick":
        # all failing behaviours with >= 2 fs commands, a seeded sample of the rest
        keep = [b for b in behs if b["result"] != "ok" and len(b["ops"]) >= 2]
        rest = [b for b in behs if not (b["result"] != "ok" and len(b["ops"]) >= 2)]
        rnd.shuffle(rest)
        # a seeded sample, never a prefix of the sorted list (the sort key starts with the cause: a prefix
        # would drop whole classes - interrupted undo, failing inverse - as the model grows)
        rnd.shuffle(keep)
        chosen = keep[:70000] + rest[:15000]
        items = [(b, nv) for b in chosen for nv in nest_variants(b, rnd)]
    else:
        cap = 450000
        if len(behs) > cap:
            rnd.shuffle(behs)
            behs = behs[:cap]
        items = [(json.dumps(b, separators=(",", ":")), nv) for b in behs for nv in nest_variants(b, rnd)]
        sample_b = behs[len(behs) // 2] if behs else None
        behs = [sample_b] if sample_b else []
        import gc
        gc.collect()
    # full-history behaviours: every failing one, a seeded sample of the successful ones
    full_behs.sort(key=lambda b: json.dumps(b, sort_keys=True))
    f_fail = [b for b in full_behs if b["result"] != "ok"]
    f_ok = [b for b in full_behs if b["result"] == "ok"]
    rnd.shuffle(f_ok)
    full_chosen = (f_fail[:12000] if tier == "quick" else f_fail) + f_ok[:1500]
    total += len(full_behs)
    items += [((b if tier == "quick" else json.dumps(b, separators=(",", ":"))), None) for b in full_chosen]
    counts = {"ok": 0, "error": 0, "rberror": 0}
    conf_mismatch = {}
    nontrivial = set()
    samples = []
    replayed = 0
    for r in replay.pool_map(run_behaviour, items, chunk=300):
        replayed += 1
        if "machinery" in r:
            verdict.machinery_failure(r["machinery"][:800])
            continue
        beh = r["beh"]
        counts[beh["result"]] += 1
        if beh["ops"]:
            nontrivial.add(common.digest([beh["cs"], beh["dir"], beh["stopAt"], beh["faultAt"], beh["init"]]))
        if len(samples) < 4 and beh["result"] != "ok" and len(beh["ops"]) >= 3 and replayed % 7 == 0:
            samples.append({"composite": beh["cs"], "dir": beh["dir"], "stopAt": beh["stopAt"],
                            "faultAt": beh["faultAt"], "cause": beh["cause"], "spec_ops": beh["ops"],
                            "real_ops": r["obs"]["ops"], "real_exception": r["obs"]["exc"], "nest": r["nest"]})
        if r["fails"]:
            verdict.failure(key_of(r), {"property": PROP, "key": key_of(r), "behaviour": beh,
                                        "nest": r["nest"], "observed": r["obs"]})
        for c in r["conf"]:
            conf_mismatch[c] = conf_mismatch.get(c, 0) + 1
    if not samples and behs:
        b = behs[len(behs) // 2]
        samples.append({"composite": b["cs"], "dir": b["dir"], "stopAt": b["stopAt"], "faultAt": b["faultAt"]})
    # conformance with the model beyond the property clauses: on the unchanged
    # tree these are all zero; a difference that is not also a property failure
    # is reported as a note, not as a violation
    if conf_mismatch:
        print("NOTE conformance differences with the model (not property failures):", conf_mismatch)
    code = verdict.finish()
    common.write_evidence(PROP, tier, "model_checking", {
        "states": res.distinct + resf.distinct, "transitions": res.generated + resf.generated,
        "full_history_run": {**resf.summary(), "behaviours": len(full_behs)},
        "traces_validated_against_impl": replayed,
        "samples": samples,
        "exhaustive": False,
        "behaviours_exported_by_tlc": counter["n"],
        "behaviours_from_tlc": total,
        "replays_by_spec_result": counts,
        "distinct_nontrivial": len(nontrivial),
        "rule": "one behaviour per terminal state of the TLC graph (composite x fault x stop x direction), "
                "each replayed flat and with one nested ChangeSet grouping; non-trivial = at least one fs "
                "command was issued by the call under test",
        "conformance_mismatches": conf_mismatch,
        "model_sensitivity": sens,
        "simulation_beyond_bound": sim_info,
        "tlc": res.summary(),
        "constants": {k: (v.name if isinstance(v, tlc.Sub) else sorted(v) if isinstance(v, set) else v)
                      for k, v in constants(tier).items()},
        "known_finding_hits": verdict.known_hits,
    }, timer.s(), violations=len(verdict.violations), assumptions=[
        "one fault per call (a fault during rollback is not recoverable by any implementation)",
        "plain FileSystemCommands (no VCS back end); a single fs command is atomic (C18 covers byte level)",
        "clobbering moves are outside the legal action set",
    ])
    return code


def replay_case(obj):
    if "behaviour" not in obj:
        return True, obj
    nest = obj.get("nest")
    r = run_behaviour((obj["behaviour"], tuple(nest) if nest else None))
    if "machinery" in r:
        return True, r
    return bool(r["fails"]) and common.Verdict(PROP).match_known(key_of(r)) is None, \
        {"fails": r["fails"], "key": key_of(r), "observed": r["obs"]}


if __name__ == "__main__":
    sys.exit(main(sys.argv[1] if len(sys.argv) > 1 else "quick"))
