"""C03 - extract method / variable preserves behaviour or is refused.

TLC explores spec/PyFlow.tla: every well-formed body of <= N lines over the
line alphabet (exhaustively for small N, by random simulation beyond), checks
on the model that the abstract extraction (parameters = live-in, results =
live-out, call in place; one definition for all similar expressions only when
nothing read is rewritten) preserves the observable for all four input
valuations, and prints one record per body: the lines, the predicted
observable per valuation, the class of every line range (ok / struct /
unbound) and of every expression request (ok / stale / unbound).

Every record is rendered to Python (function, method, static/class method and
module-level variants), executed under CPython and compared with the spec's
prediction (a disagreement is a machinery failure), then every request is put
to rope's ExtractMethod / ExtractVariable.  rope may refuse with a RopeError;
if it answers, the new module must compile and print / raise exactly what the
original did for all four valuations.
"""
import json
import os
import sys

from engine import common, tlc, replay
from engine.runpy import exec_source

PROP = "C03"
VALS = [(False, False), (False, True), (True, False), (True, True)]
INITVAL = {"a": "(90, ())", "b": "(91, ())"}
VARORDER = ["a", "b"]

W_PRELUDE = (
    "_wc = {}\n"
    "def _w(k, c):\n"
    "    if not c or _wc.get(k, 0) >= 2:\n"
    "        _wc[k] = 0\n"
    "        return False\n"
    "    _wc[k] = _wc.get(k, 0) + 1\n"
    "    return True\n"
    "\n"
)

VARIANTS = ("func", "method", "smethod", "cmethod", "module")
# class variant "class:<host kind>": class K with four methods whose bodies are the same text
CLASS_METHODS = (("f", "method"), ("s", "smethod"), ("k", "cmethod"), ("m", "method"))
CLASS_DRIVER = (
    "for _call in (lambda: K().f(c1, c2%(args)s), lambda: K.s(c1, c2%(args)s),\n"
    "              lambda: K.k(c1, c2%(args)s), lambda: K().m(c1, c2%(args)s)):\n"
    "    if '_wc' in globals():\n"
    "        _wc.clear()\n"
    "    try:\n"
    "        print('RET', _call())\n"
    "    except NameError:\n"
    "        print('EXC NameError')\n"
)


# ------------------------------------------------------------------ rendering
def pyrepr(v):
    """spec value (nested lists of ints) -> text of the Python tuple"""
    if isinstance(v, list):
        if len(v) == 1:
            return "(%s,)" % pyrepr(v[0])
        return "(" + ", ".join(pyrepr(x) for x in v) + ")"
    return str(v)


def group_text(r):
    names = [v for v in VARORDER if v in r]
    if not names:
        return "()"
    if len(names) == 1:
        return "(%s,)" % names[0]
    return "(" + ", ".join(names) + ")"


def line_text(l):
    """-> (text, spans) spans: {"whole": (s, e), "group": (s, e), "name:a": (s, e)} relative to text"""
    k, n = l["k"], l["n"]
    spans = {}
    if k in ("asg", "aug", "prt", "ret"):
        g = group_text(l["r"])
        whole = "(%d, %s)" % (n, g)
        pre = {"asg": "%s = " % l["t"], "aug": "%s += " % l["t"], "prt": "print(", "ret": "return "}[k]
        post = ")" if k == "prt" else ""
        text = pre + whole + post
        ws = len(pre)
        spans["whole"] = (ws, ws + len(whole))
        gs = ws + len("(%d, " % n)
        spans["group"] = (gs, gs + len(g))
        pos = gs + 1
        for v in VARORDER:
            if v in l["r"]:
                spans["name:" + v] = (pos, pos + len(v))
                pos += len(v) + 2
        return text, spans
    if k in ("ifa", "wha"):
        # a compound statement on one physical line
        head = "if %s: " % l["c"] if k == "ifa" else "while _w(%d, %s): " % (n, l["c"])
        return head + "%s = (%d, %s)" % (l["t"], n, group_text(l["r"])), spans
    if k == "cmp":
        # the comprehension variable t shadows the outer name inside the comprehension only
        return "print((%d, tuple([%s for %s in %s])))" % (n, l["t"], l["t"], group_text(l["r"])), spans
    if k == "try":
        return "try:", spans
    if k == "exc":
        return "except NameError:", spans
    if k == "if":
        return "if %s:" % l["c"], spans
    if k == "else":
        return "else:", spans
    if k == "for":
        if l["t"]:
            return "for %s in ((%d, 1), (%d, 2)):" % (l["t"], n, n), spans
        return "for _ in (1, 2):", spans
    if k == "whl":
        return "while _w(%d, %s):" % (n, l["c"]), spans
    if k == "rtn":
        return "return", spans
    if k == "brk":
        return "break", spans
    if k == "cnt":
        return "continue", spans
    raise ValueError(k)


def render(lines, init, variant):
    """-> dict(src, driver, span={i: (start, end)}, sub={(i, key): (start, end)}) with 1-based i.
    Variables bound on entry are parameters of f whose values are passed by the
    driver (which rope never sees); module-level assignments in the module variant."""
    out = []
    if any(l["k"] in ("whl", "wha") for l in lines):
        out.append(W_PRELUDE)
    bound = [v for v in VARORDER if v in init]
    params = "".join(", " + v for v in bound)
    args = "".join(", " + INITVAL[v] for v in bound)
    inputs = {}
    if variant == "func":
        out.append("def f(c1, c2%s):\n" % params)
        base = 1
        driver = "print('RET', f(c1, c2%s))\n" % args
    elif variant == "method":
        out.append("class K:\n    def f(self, c1, c2%s):\n" % params)
        base = 2
        driver = "print('RET', K().f(c1, c2%s))\n" % args
    elif variant == "smethod":
        out.append("class K:\n    @staticmethod\n    def f(c1, c2%s):\n" % params)
        base = 2
        driver = "print('RET', K.f(c1, c2%s))\n" % args
    elif variant == "cmethod":
        out.append("class K:\n    @classmethod\n    def f(cls, c1, c2%s):\n" % params)
        base = 2
        driver = "print('RET', K.f(c1, c2%s))\n" % args
    elif variant == "module":
        for v in bound:
            out.append("%s = %s\n" % (v, INITVAL[v]))
        base = 0
        driver = "print('RET', None)\n"
    elif variant.startswith("class:"):
        return render_class(lines, out, params, args, variant.split(":")[1])
    else:
        raise ValueError(variant)
    pos = sum(len(x) for x in out)
    span, sub = {}, {}
    for idx, l in enumerate(lines, 1):
        ind = "    " * (base + l["d"])
        text, spans = line_text(l)
        start = pos + len(ind)
        span[idx] = (pos, pos + len(ind) + len(text))
        for key, (s, e) in spans.items():
            sub[(idx, key)] = (start + s, start + e)
        out.append(ind + text + "\n")
        pos += len(ind) + len(text) + 1
    return {"src": "".join(out), "driver": driver, "span": span, "sub": sub, "inputs": inputs}


def render_class(lines, out, params, args, hostkind):
    """class K with a normal, a static, a class and a second normal method, all with the same body;
    spans are those of the first method of kind hostkind"""
    out.append("class K:\n")
    span, sub = {}, {}
    host = [n for n, k in CLASS_METHODS if k == hostkind][0]
    for name, kind in CLASS_METHODS:
        if kind == "smethod":
            out.append("    @staticmethod\n    def %s(c1, c2%s):\n" % (name, params))
        elif kind == "cmethod":
            out.append("    @classmethod\n    def %s(cls, c1, c2%s):\n" % (name, params))
        else:
            out.append("    def %s(self, c1, c2%s):\n" % (name, params))
        pos = sum(len(x) for x in out)
        for idx, l in enumerate(lines, 1):
            ind = "    " * (2 + l["d"])
            text, spans = line_text(l)
            if name == host:
                span[idx] = (pos, pos + len(ind) + len(text))
                for key, (s, e) in spans.items():
                    sub[(idx, key)] = (pos + len(ind) + s, pos + len(ind) + e)
            out.append(ind + text + "\n")
            pos += len(ind) + len(text) + 1
        out.append("\n")
    return {"src": "".join(out), "driver": CLASS_DRIVER % {"args": args}, "span": span, "sub": sub, "inputs": {}}


def norm_exc(name):
    # UnboundLocalError is a NameError; which of the two an unbound read
    # raises depends on whether the reader is a function or the module
    return "NameError" if name == "UnboundLocalError" else name


def run_all(src, driver, inputs=None):
    res = []
    for c1, c2 in VALS:
        glob = {"c1": c1, "c2": c2}
        glob.update(inputs or {})
        r = exec_source(src + "\n" + driver, inputs=glob)
        if r["syntax"]:
            return None
        res.append([r["out"], norm_exc(r["exc"])])
    return res


def expected_runs(rec, klass=False):
    """the spec's prediction, as text (class variant: every method of K is called and behaves like the body)"""
    res = []
    for run in rec["runs"]:
        out = "".join(pyrepr(v) + "\n" for v in run["out"])
        if klass:
            out += "EXC NameError\n" if run["exc"] else "RET %s\n" % (pyrepr(run["rv"]) if run["rv"] else "None")
            res.append([out * len(CLASS_METHODS), None])
        elif run["exc"]:
            res.append([out, "NameError"])
        else:
            out += "RET %s\n" % (pyrepr(run["rv"]) if run["rv"] else "None")
            res.append([out, None])
    return res


# ------------------------------------------------------------------ requests
def is_global_classmethod(q):
    """extracting to module level while the new function is to be a classmethod:
    kept apart from the main exploration (every use fails, see known findings)"""
    return q["global_"] and (q["kind"] == "classmethod" or q["variant"] == "cmethod") and \
        not (q["what"] == "expr" and q["via"] == "var")


def requests_for(rec, rnd, tier):
    """Concrete rope requests for one exported body: every line range of class
    ok / struct in the plain function variant with default options, seeded
    picks of the other variants and options, and expression requests."""
    has_ret = any(l["k"] in ("ret", "rtn") for l in rec["lines"])
    variants = [v for v in VARIANTS if not (v == "module" and has_ret)]
    reqs = []
    dense = tier == "thorough"
    if tier == "tries":
        # try / except focused bodies: every line range in function and module variant, every expression request
        for r in rec["regions"]:
            if r["cls"] != "unbound":
                for v in (["func"] if has_ret else ["func", "module"]):
                    reqs.append({"what": "stmts", "i": r["i"], "j": r["j"], "cls": r["cls"],
                                 "params": sorted(r["params"]), "results": sorted(r["results"]),
                                 "written": sorted(r["written"]), "shapes": r["shapes"],
                                 "variant": v, "global_": False, "similar": False, "kind": None})
        for e in rec["exprs"]:
            if e["cls"] != "unbound" and not (e["sim"] and e["sub"] == "name") and e["via"] == "var":
                reqs.append({"what": "expr", "i": e["i"], "sub": e["sub"], "v": e["v"], "via": e["via"],
                             "cls": e["cls"], "variant": rnd.choice(["func", "module"]) if not has_ret else "func",
                             "global_": False, "similar": e["sim"], "kind": None, "reads": sorted(e["reads"])})
        return reqs
    if tier == "loops":
        # control-flow focused bodies: every line range, plain function variant, default options
        for r in rec["regions"]:
            if r["cls"] != "unbound":
                reqs.append({"what": "stmts", "i": r["i"], "j": r["j"], "cls": r["cls"],
                             "params": sorted(r["params"]), "results": sorted(r["results"]),
                             "written": sorted(r["written"]), "shapes": r["shapes"],
                             "variant": "func", "global_": False, "similar": False, "kind": None})
        return reqs
    for r in rec["regions"]:
        if r["cls"] == "unbound":
            continue          # outside the precondition: the original already reads an unbound name
        base = {"what": "stmts", "i": r["i"], "j": r["j"], "cls": r["cls"],
                "params": sorted(r["params"]), "results": sorted(r["results"]),
                "written": sorted(r["written"]), "shapes": r["shapes"]}
        combos = [("func", False, False, None)]
        if r["cls"] == "ok":
            extra = []
            for v in variants:
                kinds = [None]
                if v == "method":
                    kinds = [None, "staticmethod", "classmethod"]
                for g in (False, True):
                    for s in (False, True):
                        for k in kinds:
                            if (v, g, s, k) != combos[0]:
                                extra.append((v, g, s, k))
            rnd.shuffle(extra)
            combos += extra[:(4 if dense else 2)]
        elif rnd.random() < 0.3:
            combos.append((rnd.choice(variants), rnd.random() < 0.5, False, None))
        for v, g, s, k in combos:
            q = dict(base)
            q.update(variant=v, global_=g, similar=s, kind=k)
            if is_global_classmethod(q) and rnd.random() >= 0.04:
                continue      # feature pass: a thin sample only
            reqs.append(q)
    # the same statements in sibling methods of every kind: similar=True must only touch siblings
    # where the call is valid (spec: SiblingSound); one or two ranges per body, every host kind in turn
    ok = [r for r in rec["regions"] if r["cls"] == "ok"]
    rnd.shuffle(ok)
    for r in ok[:(3 if dense else 1)]:
        for hk in rnd.sample(["method", "smethod", "cmethod"], 3 if dense else 2):
            reqs.append({"what": "stmts", "i": r["i"], "j": r["j"], "cls": "ok", "params": sorted(r["params"]),
                         "results": sorted(r["results"]), "written": sorted(r["written"]), "shapes": r["shapes"],
                         "variant": "class:" + hk, "global_": False, "similar": rnd.random() < 0.85, "kind": None})
    # expression requests.  A bare name with similar=True is left out (see notes).
    exprs = [e for e in rec["exprs"] if e["cls"] != "unbound" and not (e["sim"] and e["sub"] == "name")]
    rnd.shuffle(exprs)
    take = exprs if dense else ([e for e in exprs if e["cls"] == "stale"][:3] +
                                [e for e in exprs if e["cls"] == "ok"][:8])
    for e in take:
        v = rnd.choice(variants) if rnd.random() < 0.5 else "func"
        g = False
        if e["via"] == "call":
            g = rnd.random() < 0.3
        elif not e["reads"] and not e["sim"]:
            g = rnd.random() < 0.3       # a global variable can only hold a constant expression
        k = None
        if e["via"] == "call" and v == "method" and rnd.random() < 0.4:
            k = rnd.choice(["staticmethod", "classmethod"])
        q = {"what": "expr", "i": e["i"], "sub": e["sub"], "v": e["v"], "via": e["via"],
             "cls": e["cls"], "variant": v, "global_": g, "similar": e["sim"], "kind": k,
             "reads": sorted(e["reads"])}
        if is_global_classmethod(q) and rnd.random() >= 0.04:
            q["global_"] = False
        reqs.append(q)
    return reqs


# ------------------------------------------------------------------ classification of a failure
def rope_signature(new):
    """parameters and returned names of the function g in rope's answer"""
    import ast
    try:
        tree = ast.parse(new)
    except SyntaxError:
        return None
    for node in ast.walk(tree):
        if isinstance(node, ast.FunctionDef) and node.name == "g":
            params = [a.arg for a in node.args.args if a.arg not in ("self", "cls")]
            res = []
            last = node.body[-1]
            if isinstance(last, ast.Return) and last.value is not None:
                elts = last.value.elts if isinstance(last.value, ast.Tuple) else [last.value]
                if all(isinstance(e, ast.Name) for e in elts):
                    res = [e.id for e in elts]
            return sorted(params), sorted(res)
    return None


def atoms_of(o):
    """Keys of a failing outcome: the clause, how it fails and - from the spec's
    shape facts of the region - one key per variable that rope's answer leaves
    out (its role and shape).  A failure is known only if all its keys are."""
    q = o["q"]
    base = {"clause": q["what"], "cls": q["cls"], "res": o["res"],
            "scope": "module" if q["variant"] == "module" else "function"}
    if is_global_classmethod(q):
        k = dict(base)
        del k["scope"]
        k["feature"] = "global-classmethod"
        return [k]
    sig = rope_signature(o.get("new") or "") if o["res"] == "differs" else None
    if q["what"] == "expr":
        k = dict(base)
        k.update(via=q["via"], similar=q["similar"], sub=q["sub"])
        if q["via"] == "call" and sig is not None:
            k["params"] = ("as-read" if sig[0] == sorted(q["reads"]) else
                           "extra" if set(sig[0]) > set(q["reads"]) else "other")
        return [k]
    if sig is None or q["cls"] != "ok":
        return [base]
    shapes = {s["v"]: s for s in q["shapes"]}
    need_p = [v for v in q["params"] if v in shapes]
    if base["scope"] == "module":
        # a module-level name only has to be handed over when the new function assigns it
        need_p = [v for v in need_p if v in q["written"]]
    miss_p = [shapes[v] for v in need_p if v not in sig[0]]
    miss_r = [shapes[v] for v in q["results"] if v not in sig[1]]
    miss_r_names = set(sh["v"] for sh in miss_r)
    out = []
    for sh in miss_p:
        k = dict(base)
        if base["scope"] == "module":
            k.update(role="param", livein=sh["li"], after=sh["fa"], surely_written=sh["dw"])
        else:
            k.update(role="param", first=sh["fi"], first_at=sh["fin"], firstread_at=sh["frn"], livein=sh["li"],
                     write_after_inner_block=sh["wai"], write_in_try=sh["wtry"],
                     result_also_missing=sh["v"] in miss_r_names)
        out.append(k)
    for sh in miss_r:
        k = dict(base)
        k.update(role="result", after=sh["fa"], loopread=sh["lr"], forward=sh["nb"])
        out.append(k)
    for v in sig[0]:
        # a superset of the parameters is fine unless the extra one is not bound at the call
        if v in shapes and v not in q["params"] and not shapes[v]["da"]:
            k = dict(base)
            k.update(role="extra-param-unbound-at-call", first=shapes[v]["fi"], first_at=shapes[v]["fin"])
            out.append(k)
    for v in sig[1]:
        # a superset of the results is fine unless the extra one may be unbound at the new function's return
        # (at module level the new function's name is a fresh local whatever the module binds)
        if v in shapes and v not in q["results"] and v not in sig[0] and not shapes[v]["dw"] and \
                (base["scope"] == "module" or not shapes[v]["da"]) and \
                v not in [sh["v"] for sh in miss_p]:      # (already named as a left-out parameter)
            k = dict(base)
            k.update(role="extra-result-unbound-at-return", first=shapes[v]["fi"], first_at=shapes[v]["fin"],
                     after=shapes[v]["fa"])
            out.append(k)
    uniq = []
    for k in out:
        if k not in uniq:
            uniq.append(k)
    if not uniq and q["variant"].startswith("class:"):
        base["scope"] = "class"        # nothing left out: the siblings are what differs
        base["host"] = q["variant"].split(":")[1]
        base["similar"] = q["similar"]
    return uniq or [base]


def offsets(rd, q):
    if q["what"] == "stmts":
        return rd["span"][q["i"]][0], rd["span"][q["j"]][1]
    key = q["sub"] if q["sub"] != "name" else "name:" + q["v"]
    return rd["sub"][(q["i"], key)]


# ------------------------------------------------------------------ replay
def replay_program(item):
    """item: {"rec": exported record, "reqs": [...]} -> result dict"""
    common.use_repo()
    from rope.base import project as project_mod
    from rope.base.exceptions import RopeError
    from rope.refactor.extract import ExtractMethod, ExtractVariable

    rec, reqs = item["rec"], item["reqs"]
    exp = expected_runs(rec)
    exp_class = expected_runs(rec, klass=True)
    root = common.scratch("c03_")
    results = []
    rendered = {}
    try:
        project = project_mod.Project(root, ropefolder=None)
        try:
            for q in reqs:
                v = q["variant"]
                if v not in rendered:
                    rd = render(rec["lines"], rec["init"], v)
                    before = run_all(rd["src"], rd["driver"], rd["inputs"])
                    want = exp_class if v.startswith("class:") else exp
                    if before != want:
                        return {"machinery": "spec and CPython disagree on the rendered program (%s)" % v,
                                "item": {"src": rd["src"], "spec": want, "cpython": before, "rec": rec}}
                    rd["before"] = before
                    rd["file"] = "m_%s.py" % v.replace(":", "_")
                    # one file per variant, written before rope first sees it
                    with open(os.path.join(root, rd["file"]), "w") as f:
                        f.write(rd["src"])
                    rendered[v] = rd
                rd = rendered[v]
                path = os.path.join(root, rd["file"])
                res = project.get_file(rd["file"])
                start, end = offsets(rd, q)
                outcome = {"q": q}
                try:
                    cls = ExtractVariable if (q["what"] == "expr" and q["via"] == "var") else ExtractMethod
                    name = "x" if cls is ExtractVariable else "g"
                    changes = cls(project, res, start, end).get_changes(
                        name, similar=q["similar"], global_=q["global_"], kind=q["kind"])
                    new = changes.changes[0].new_contents
                except RopeError as e:
                    outcome["res"] = "refused"
                    outcome["msg"] = "%s: %s" % (type(e).__name__, str(e)[:100])
                    with open(path) as f:
                        if f.read() != rd["src"]:
                            outcome["res"] = "refused-but-changed"
                    results.append(outcome)
                    continue
                except Exception as e:  # not a RopeError
                    outcome["res"] = "crash"
                    outcome["msg"] = "%s: %s" % (type(e).__name__, str(e)[:100])
                    outcome["src"] = rd["src"]
                    results.append(outcome)
                    continue
                after = run_all(new, rd["driver"], rd["inputs"])
                if after is None:
                    outcome["res"] = "unparsable"
                elif after == rd["before"]:
                    outcome["res"] = "same"
                else:
                    outcome["res"] = "differs"
                    outcome["after"] = after
                    outcome["before"] = rd["before"]
                if outcome["res"] != "same":
                    outcome["src"] = rd["src"]
                    outcome["new"] = new
                elif item.get("keep_new"):
                    outcome["new"] = new
                results.append(outcome)
        finally:
            project.close()
    finally:
        common.rmtree(root)
    return {"rec": rec, "results": results}


# ------------------------------------------------------------------ TLC runs
INVARIANTS = ["TypeOK", "WellFormed", "ExtractSound", "CallArgsBound", "ExprSound", "DefiniteAssignmentSound",
              "SiblingSound"]


def base_constants(**over):
    c = {"MaxLines": 3, "MaxDepth": 2, "Kinds": tlc.Sub("MCKindsAll"), "InitSets": tlc.Sub("MCInitTwo"),
         "StmtOn": True, "ExprOn": True, "BackEdges": True, "RequireDA": True, "ExportMin": 1,
         "ClassOn": False, "RewriteAll": False, "CheckStale": True,
         "ReadSets": tlc.Sub("MCReadsAll"), "ForTargets": tlc.Sub("MCForAll")}
    c.update(over)
    return c


def run_tlc(tag, constants, progs, invariants=INVARIANTS, export=True, simulate=None, depth=None, seed=None,
            coverage=False):
    cfg = os.path.join(common.SCRATCH_BASE, "c03_%s_%d.cfg" % (tag, os.getpid()))
    tlc.write_cfg(cfg, constants=constants, invariants=list(invariants) + (["Export"] if export else []))

    def on(t, v):
        progs[json.dumps([sorted(v["init"]), v["lines"]], sort_keys=True)] = v
    try:
        res = tlc.run("MC_PyFlow", cfg, on_tagged=on, collect_tags=False, simulate=simulate, depth=depth,
                      seed=seed, coverage=coverage, timeout=1500, java_opts=("-Xmx4g",))
    finally:
        os.unlink(cfg)
    print("TLC PyFlow[%s]:" % tag, res.summary(), "bodies so far", len(progs))
    return res


def tlc_failed(res, what):
    if res.violated:
        path = common.write_replay(PROP, {"kind": "tlc-counterexample", "run": what, "invariant": res.violated,
                                          "trace": res.trace})
        print("MACHINERY-FAILURE property=%s the oracle itself is unsound on the model: %s violated (%s), see %s"
              % (PROP, res.violated, what, path))
    else:
        print("MACHINERY-FAILURE property=%s TLC (%s): %s\n%s" % (PROP, what, res.error, res.tail[-1500:]))
    return 2


def main(tier):
    timer = common.Timer()
    verdict = common.Verdict(PROP)
    quick = tier == "quick"
    progs_bfs, progs_sim = {}, {}
    states = transitions = 0
    tlc_runs = {}

    # 1. exhaustive: every body of <= 3 lines over the full alphabet
    if quick:
        # model only: the bodies that are replayed in the quick tier come from the simulation below
        runs = [("bfs3-stmts-model-only", base_constants(MaxLines=3, ExprOn=False, InitSets=tlc.Sub("MCInitTwo"))),
                ("bfs2-exprs-model-only", base_constants(MaxLines=2, StmtOn=False, ClassOn=True,
                                                         InitSets=tlc.Sub("MCInitTwo"))),
                # one-line compound statements (if c: x = .. / while ..: x = ..): exported, all replayed
                ("bfs2-inline", base_constants(MaxLines=2, ExprOn=False, Kinds=tlc.Sub("MCKindsInline"),
                                               InitSets=tlc.Sub("MCInitTwo"), ExportMin=2))]
    else:
        # the 4-line run checks the oracle only (no export: too many bodies to replay)
        runs = [("bfs3", base_constants(MaxLines=3, ClassOn=True, InitSets=tlc.Sub("MCInitAll"))),
                ("bfs2-inline", base_constants(MaxLines=2, ExprOn=False, Kinds=tlc.Sub("MCKindsInline"),
                                               InitSets=tlc.Sub("MCInitAll"), ExportMin=2)),
                ("bfs4-core-model-only", base_constants(MaxLines=4, ExprOn=False, Kinds=tlc.Sub("MCKindsCore"),
                                                        InitSets=tlc.Sub("MCInitOne")))]
    if os.environ.get("VERIF_C03_SKIP_BFS4"):      # development knob: the 4-line run does not depend on the seed
        runs = [r for r in runs if not r[0].startswith("bfs4")]
    for tag, c in runs:
        res = run_tlc(tag, c, progs_bfs, export=not tag.endswith("model-only"))
        tlc_runs[tag] = res.summary()
        if not res.ok:
            return tlc_failed(res, tag)
        states += res.distinct
        transitions += res.generated

    # 1b. control flow: every body of 4-5 lines over {for, while, else, break, continue, print} (no data flow):
    #     loop else clauses, break / continue at every nesting
    progs_loop = {}
    res = run_tlc("bfs5-loops", base_constants(MaxLines=5, ExprOn=False, Kinds=tlc.Sub("MCKindsLoop"),
                                               InitSets=tlc.Sub("MCInitBoth"), ReadSets=tlc.Sub("MCReadsNone"),
                                               ForTargets=tlc.Sub("MCForPlain"), ExportMin=4), progs_loop)
    tlc_runs["bfs5-loops"] = res.summary()
    if not res.ok:
        return tlc_failed(res, "bfs5-loops")
    states += res.distinct
    transitions += res.generated

    # 1c. try / except: every body of 4 (thorough: 4-5) lines over {try, except, assign, print} reading only `a`;
    #     the bodies that contain a try are replayed
    progs_try = {}
    res = run_tlc("bfs-try", base_constants(MaxLines=(4 if quick else 5), ExprOn=False, Kinds=tlc.Sub("MCKindsTry"),
                                            InitSets=tlc.Sub("MCInitNoneA"), ReadSets=tlc.Sub("MCReadsA"),
                                            ExportMin=4), progs_try)
    tlc_runs["bfs-try"] = res.summary()
    if not res.ok:
        return tlc_failed(res, "bfs-try")
    states += res.distinct
    transitions += res.generated

    # 2. random simulation of bodies of 4..MaxLines lines (invariants checked on every state)
    scale = float(os.environ.get("VERIF_C03_SCALE", "1"))     # only used to enumerate finding classes
    nlines = 6 if quick else 7
    num = int((110 if quick else 450) * scale)         # traces per TLC worker
    res = run_tlc("sim", base_constants(MaxLines=nlines, ExportMin=(2 if quick else 4), ClassOn=True,
                                        Kinds=tlc.Sub("MCKindsInline")), progs_sim,
                  simulate={"num": num}, depth=nlines + 2, seed=common.SEED + 1)
    tlc_runs["sim"] = res.summary()
    if not res.ok:
        return tlc_failed(res, "sim")
    transitions += res.generated

    # 3. the oracle is not vacuous (and every extraction action is taken): without loop back edges, without
    #    the definitely-assigned condition, when every sibling is rewritten, when a stale single definition
    #    is allowed, TLC must find a counterexample of the corresponding invariant
    sens = {}
    for name, inv, over in (("no-back-edges", "ExtractSound", {"BackEdges": False}),
                            ("no-definite-assignment", "ExtractSound", {"RequireDA": False}),
                            ("rewrite-all-siblings", "SiblingSound",
                             {"RewriteAll": True, "ClassOn": True, "StmtOn": False, "MaxLines": 2}),
                            ("stale-definition-allowed", "ExprSound",
                             {"CheckStale": False, "ExprOn": True, "StmtOn": False, "InitSets": tlc.Sub("MCInitBoth"),
                              "Kinds": tlc.Sub("MCKindsCore")})):
        c = base_constants(**dict(dict(MaxLines=3, ExprOn=False, InitSets=tlc.Sub("MCInitAll")), **over))
        r2 = run_tlc(name, c, {}, invariants=[inv], export=False)
        sens[name] = r2.violated
        if r2.violated != inv:
            verdict.machinery_failure("model insensitive: %s holds with %s" % (inv, name))

    # 4. replay
    rnd = common.rng("c03")
    bfs_keys = sorted(progs_bfs)
    sim_keys = sorted(k for k in progs_sim if k not in progs_bfs)
    rnd.shuffle(bfs_keys)
    rnd.shuffle(sim_keys)
    if quick:
        bfs_keys = bfs_keys[:int(800 * scale)]
        sim_keys = sim_keys[:int(1900 * scale)]
    else:
        bfs_keys = bfs_keys[:int(12000 * scale)]
        sim_keys = sim_keys[:int(8000 * scale)]
    items = []
    for k in bfs_keys:
        items.append({"rec": progs_bfs[k], "reqs": requests_for(progs_bfs[k], rnd, "quick")})
    for k in sim_keys:
        items.append({"rec": progs_sim[k], "reqs": requests_for(progs_sim[k], rnd, tier)})
    for k in sorted(progs_loop):
        items.append({"rec": progs_loop[k], "reqs": requests_for(progs_loop[k], rnd, "loops")})
    try_keys = sorted(k for k in progs_try if any(l["k"] == "try" for l in progs_try[k]["lines"]))
    rnd.shuffle(try_keys)
    for k in try_keys[:int((700 if quick else 6000) * scale)]:
        items.append({"rec": progs_try[k], "reqs": requests_for(progs_try[k], rnd, "tries")})
    items = [it for it in items if it["reqs"]]
    for n, it in enumerate(items):
        it["keep_new"] = n % 97 == 0
    counts = {}
    nontrivial = set()
    samples = []
    replayed = requests = 0
    unbound_skipped = sum(1 for it in items for r in it["rec"]["regions"] if r["cls"] == "unbound")
    for r in replay.pool_map(replay_program, items, chunk=25):
        replayed += 1
        if "machinery" in r:
            verdict.machinery_failure(json.dumps(r)[:1500])
            continue
        rec = r["rec"]
        for o in r["results"]:
            q = o["q"]
            requests += 1
            ck = "%s/%s/%s" % (q["what"], q["cls"], o["res"])
            counts[ck] = counts.get(ck, 0) + 1
            if o["res"] == "same":
                nontrivial.add(common.digest([rec["init"], rec["lines"], q["what"], q["i"], q.get("j"), q.get("sub"),
                                              q.get("v"), q.get("via")]))
                if "new" in o and len(samples) < 5 and len(rec["lines"]) >= 4:
                    samples.append({"lines": rec["lines"], "init": rec["init"], "request": {
                        k: q.get(k) for k in ("what", "i", "j", "sub", "v", "via", "variant", "global_", "similar", "kind")},
                        "spec_params": q.get("params"), "spec_results": q.get("results"),
                        "rope_answer": o["new"], "spec_runs": rec["runs"]})
                continue
            if o["res"] == "refused":
                continue
            if o["res"] == "crash" and q["cls"] != "ok":
                # not a RopeError on a request outside the legal action set: C09's business
                counts["crash-outside-legal-set"] = counts.get("crash-outside-legal-set", 0) + 1
                continue
            atoms = atoms_of(o)
            replay_obj = {"property": PROP, "keys": atoms, "request": {k: v for k, v in q.items() if k != "shapes"},
                          "shapes": q.get("shapes"), "lines": rec["lines"], "init": rec["init"],
                          "source": o.get("src"), "rope_answer": o.get("new"), "message": o.get("msg"),
                          "before": o.get("before"), "after": o.get("after"), "spec_runs": rec["runs"]}
            unknown = [a for a in atoms if verdict.match_known(a) is None]
            if unknown:
                verdict.failure(unknown[0], replay_obj)
            else:
                for a in atoms:
                    verdict.failure(a, replay_obj)
    changed = sum(v for k, v in counts.items() if k.endswith("/same"))
    if requests and changed < requests // 10:
        verdict.machinery_failure("vacuous: only %d of %d requests were answered with an equivalent program"
                                  % (changed, requests))
    if not samples and items:
        samples.append({"lines": items[0]["rec"]["lines"], "init": items[0]["rec"]["init"]})
    code = verdict.finish()
    common.write_evidence(PROP, tier, "model_checking", {
        "states": states, "transitions": transitions,
        "traces_validated_against_impl": requests,
        "bodies_replayed": replayed,
        "bodies_from_tlc": {"exhaustive": len(progs_bfs), "simulated": len(progs_sim),
                            "exhaustive_control_flow": len(progs_loop), "exhaustive_try_except": len(progs_try)},
        "samples": samples,
        "exhaustive": False,
        "distinct_nontrivial": len(nontrivial),
        "rule": "one request = (body, line range or sub-expression, variant, options) put to rope; non-trivial = rope "
                "answered and the new module behaves like the original for all four valuations; "
                "every body was first executed under CPython and compared with the spec's Exec",
        "requests_by_kind_class_result": counts,
        "regions_outside_precondition_not_sent": unbound_skipped,
        "tlc_runs": tlc_runs,
        "model_sensitivity": sens,
        "known_finding_hits": verdict.known_hits,
    }, timer.s(), violations=len(verdict.violations), assumptions=[
        "bodies of <= 7 lines over {assign, augmented assign, print, return, if/else, for, bounded while, break, "
        "continue}, two variables, two boolean inputs, nesting depth <= 2 (small scope hypothesis)",
        "regions whose parameters are not definitely assigned on entry are outside the precondition (the original "
        "already reads an unbound name there)",
        "UnboundLocalError and NameError are one exception class",
        "bare-name expressions with similar=True and classmethod-to-module-level requests are kept apart (notes/C03.md)",
    ])
    return code



if __name__ == "__main__":
    sys.exit(main(sys.argv[1] if len(sys.argv) > 1 else "quick"))
