"""Shared binding code of the PyModules spec (C05, C07).

* render an abstract world (module path -> statement list, as exported by
  spec/MC_PyModules.tla) to a real project directory;
* run every module of a rendered project as the entry of a fresh interpreter
  and read back what it printed (one `python -S -E -B` server per worker process
  that imports the entry, captures what is printed and then forgets every
  module and finder cache entry it gained, so each entry sees an interpreter
  without project code; cross-checked against engine.runpy.run_module, a really
  fresh interpreter per entry, on a sample of the programs);
* decode the spec's predictions (own printed lines per entry, exported
  names) into the same textual form;
* structural helpers (non-import skeleton of a module).

Nothing in here decides what the right answer is: the expected lines and
exports are taken from the TLC export.
"""
import ast
import json
import os
import subprocess
import sys

from engine import common, runpy as erunpy

# ---------------------------------------------------------------- names
# Rendered names: every component has 9 characters, so a dotted path of two
# components has 19 characters and one of three has 29 (> 27, rope's
# `maxlength` for handle_long_imports): LongDepth = 3 in the spec.
NAMES = {
    "a": "module_aa", "b": "module_bb", "c": "module_cc", "d": "module_dd", "e": "module_ee",
    "s": "module_ss", "t": "module_tt",
    # siblings whose spelling merely extends another module's (b/b2, t/t2): textual-prefix names
    "b2": "module_bb2", "t2": "module_tt2",
    "p": "package_p", "q": "package_q", "r": "package_r",
    "f": "fun_f", "g": "obj_g", "h": "own_h", "_h": "_hid_h", "k": "key_k",
    "v": "val_v", "w": "wid_w",
    "x": "al_x", "y": "al_y",
}
UNNAMES = {v: k for k, v in NAMES.items()}


def rn(n):
    return NAMES.get(n, n)


def rpath(path):
    return ".".join(rn(x) for x in path)


def apath(path):
    """abstract dotted name (identity of a module / definition in printed lines)"""
    return ".".join(path)


def file_of(path, is_pkg):
    parts = [rn(x) for x in path]
    if is_pkg:
        return os.path.join(*parts, "__init__.py")
    return os.path.join(*parts[:-1], parts[-1] + ".py") if len(parts) > 1 else parts[0] + ".py"


# ---------------------------------------------------------------- rendering
def ident_expr(s):
    """python expression of the string a definition identifies itself with: its id, then what
    its own references reach, looked up when it is called"""
    ident = "D:" + apath(s["id"])
    refs = s.get("refs") or []
    if not refs:
        return repr(ident)
    return "%r + '(' + %s + ')'" % (ident, " + ',' + ".join(rpath(r) + "()" for r in refs))


def render_def(s):
    name, ident = rn(s["n"]), ident_expr(s)
    if s["kind"] == "fn":
        return "def %s():\n    return %s\n" % (name, ident)
    if s["kind"] == "cls":
        return "class %s:\n    def __new__(cls):\n        return %s\n" % (name, ident)
    if s["kind"] == "var":
        return "%s = lambda: %s\n" % (name, ident)
    raise ValueError(s)


def render_items(items, key):
    out = []
    for it in items:
        n = it[key]
        n = rpath(n) if isinstance(n, list) else ("*" if n == "*" else rn(n))
        out.append(n + (" as " + rn(it["as"]) if it["as"] else ""))
    return ", ".join(out)


def render_stmt(s, mid, idx):
    k = s["k"]
    if k == "def":
        return render_def(s)
    if k == "import":
        return "import %s\n" % render_items(s["items"], "path")
    if k == "from":
        return "from %s%s import %s\n" % ("." * s["level"], rpath(s["path"]), render_items(s["items"], "n"))
    if k == "future":
        return "from __future__ import annotations\n"
    if k == "all":
        return "__all__ = [%s]\n" % ", ".join(repr(rn(n)) for n in s["names"])
    if k == "use":
        line = "print(%r, %s())\n" % ("M:" + mid, rpath(s["e"]))
        if s["fn"]:
            # the reference sits in a function body that is called on the spot; at even statement
            # positions it is, in addition, only the base of an attribute access through a subscript
            # (a name used inside a larger expression, not as the head of a plain dotted name)
            if idx % 2 == 0:
                line = "print(%r, (%s,)[0].__call__())\n" % ("M:" + mid, rpath(s["e"]))
            return "def _u%d():\n    %s_u%d()\n" % (idx, line, idx)
        return line
    raise ValueError(s)


def render_module(mod, mid=None):
    mid = mid or apath(mod["m"])
    return "".join(render_stmt(s, mid, i) for i, s in enumerate(mod["body"], 1))


def render_project(root, mods, mids=None):
    """mods: list of {"m": path, "body": [...], "pkg": bool}. Returns {relative file: text}."""
    files = {}
    for mod in mods:
        mid = (mids or {}).get(apath(mod["m"]))
        files[file_of(mod["m"], mod["pkg"])] = render_module(mod, mid)
    write_files(root, files)
    return files


def write_files(root, files):
    for rel, text in files.items():
        full = os.path.join(root, rel)
        os.makedirs(os.path.dirname(full), exist_ok=True)
        with open(full, "w", newline="") as f:
            f.write(text)


def read_files(root):
    out = {}
    for rel, data in common.snapshot(root).items():
        if data is not None:
            out[rel] = data.decode("utf-8", "backslashreplace")
    return out


# ---------------------------------------------------------------- spec predictions as text
def spec_lines(obs_entry):
    """[{"m","out","err"}] entry of the export -> list of printed lines"""
    out = []
    for l in obs_entry["out"]:
        subs = "(%s)" % ",".join("D:" + apath(x) for x in l[2]) if l[2] else ""
        out.append("M:%s D:%s%s" % (apath(l[0]), apath(l[1]), subs))
    return out


def spec_value(v, modname_of=rpath):
    if v["t"] == "def":
        return "D:" + apath(v["x"])
    if v["t"] == "mod":
        # the spec's value for "the module has no such attribute"
        return "missing" if v["x"] == ["?"] else "mod:" + modname_of(v["x"])
    return "?:" + json.dumps(v, sort_keys=True)


def spec_exports(exp_entry, modname_of=rpath):
    """{"m","names":[[n, value]..]} -> {rendered name: identity string}"""
    return {rn(n): spec_value(v, modname_of) for n, v in exp_entry["names"]}


# ---------------------------------------------------------------- fork server
_SERVER_SRC = r'''
import sys, os, io, json, types, importlib, importlib.util, importlib.machinery
def identity(v):
    if isinstance(v, types.ModuleType):
        return "mod:" + v.__name__
    if callable(v):
        try:
            return str(v())
        except BaseException as e:
            return "raises:" + type(e).__name__
    return "val:" + repr(v)
real_stdout = sys.stdout
def run_one(root, entry, names):
    # a fresh interpreter state as far as project code is concerned: nothing of the
    # project is in sys.modules or in the finder caches before, nor afterwards
    before = set(sys.modules)
    path0 = list(sys.path)
    cwd0 = os.getcwd()
    buf = io.StringIO()
    exc = None
    exp = {}
    os.chdir(root)
    sys.path.insert(0, root)
    importlib.invalidate_caches()
    sys.stdout = buf
    try:
        try:
            mod = importlib.import_module(entry)
        except BaseException as e:
            exc = type(e).__name__
            mod = None
        if mod is not None:
            for n in names:
                try:
                    exp[n] = identity(getattr(mod, n))
                except AttributeError:
                    exp[n] = "missing"
    finally:
        sys.stdout = real_stdout
        for k in list(sys.modules):
            if k not in before:
                del sys.modules[k]
        sys.path[:] = path0
        for k in list(sys.path_importer_cache):
            if k == root or k.startswith(root + os.sep):
                del sys.path_importer_cache[k]
        os.chdir(cwd0)
    return {"out": buf.getvalue(), "exc": exc, "exports": exp}
for line in sys.stdin:
    req = json.loads(line)
    res = {}
    for entry, names in req["entries"]:
        res[entry] = run_one(req["root"], entry, names)
    real_stdout.write(json.dumps(res) + "\n")
    real_stdout.flush()
'''

_server = None
_server_pid = None


def _get_server():
    global _server, _server_pid
    if _server is None or _server_pid != os.getpid() or _server.poll() is not None:
        _server = subprocess.Popen([erunpy.PY, "-S", "-E", "-B", "-c", _SERVER_SRC], stdin=subprocess.PIPE,
                                   stdout=subprocess.PIPE, text=True, cwd="/",
                                   env={"PYTHONHASHSEED": "0", "PATH": "/usr/bin:/bin"})
        _server_pid = os.getpid()
    return _server


def run_entries(root, entries):
    """entries: list of (dotted module name, [names to report]).  Each entry is imported
    in an interpreter state without project code (see module docstring).
    Returns {entry: {"out": str, "exc": class name|None, "exports": {name: identity}}}."""
    srv = _get_server()
    srv.stdin.write(json.dumps({"root": root, "entries": entries}) + "\n")
    srv.stdin.flush()
    line = srv.stdout.readline()
    if not line:
        raise RuntimeError("fork server died")
    return json.loads(line)


def run_entries_fresh(root, entries):
    """Same observable through engine.runpy.run_module (one interpreter per entry; no exports)."""
    out = {}
    for entry, _names in entries:
        o, exc = erunpy.run_module(root, entry)
        out[entry] = {"out": o, "exc": exc}
    return out


def heads(exports):
    """identities as the spec's values have them: without what the definition's references reach"""
    return {n: v.split("(")[0] for n, v in exports.items()}


def own_lines(out, mid):
    pre = "M:%s " % mid
    return [l for l in out.splitlines() if l.startswith(pre)]


def observe(root, mods, export_names=None, mids=None, fresh_check=False):
    """Run every module of the project as entry.
    mods: [{"m": path, "pkg": bool}]; export_names: {abstract dotted: [rendered names]}.
    Returns {abstract dotted path: {"lines": own lines, "exc":, "exports": {...}}}."""
    entries = []
    for mod in mods:
        entries.append((rpath(mod["m"]), sorted((export_names or {}).get(apath(mod["m"]), []))))
    res = run_entries(root, entries)
    if fresh_check:
        # validation of the runner only; on a machine so loaded that a fresh interpreter does not even
        # start within engine.runpy's timeout it is retried once and then skipped for this program
        fr = None
        for _attempt in (1, 2):
            try:
                fr = run_entries_fresh(root, entries)
                break
            except subprocess.TimeoutExpired:
                fr = None
        for e, _ in (entries if fr is not None else []):
            if fr[e]["out"] != res[e]["out"] or fr[e]["exc"] != res[e]["exc"]:
                raise RuntimeError("fork server and fresh interpreter disagree on %s: %r vs %r" % (e, fr[e], res[e]))
    out = {}
    for mod in mods:
        a = apath(mod["m"])
        r = res[rpath(mod["m"])]
        mid = (mids or {}).get(a, a)
        out[a] = {"lines": own_lines(r["out"], mid), "exc": r["exc"], "exports": r["exports"]}
    return out


# ---------------------------------------------------------------- structure
class _BlankRefs(ast.NodeTransformer):
    """print('M:..', <ref>()) -> print('M:..', REF())"""

    def visit_Call(self, node):
        self.generic_visit(node)
        if isinstance(node.func, ast.Name) and node.func.id == "print" and len(node.args) == 2:
            arg = node.args[1]
            if isinstance(arg, ast.Call) and not arg.args and not arg.keywords:
                arg.func = ast.Name(id="REF", ctx=ast.Load())
        return node


def skeleton(text):
    """dump of the non-import top-level statements with references blanked; None if it does not parse"""
    try:
        tree = ast.parse(text)
    except SyntaxError:
        return None
    out = []
    for node in tree.body:
        if isinstance(node, (ast.Import, ast.ImportFrom)):
            continue
        out.append(ast.dump(_BlankRefs().visit(node)))
    return out


def normal_form(text):
    """a module up to layout: the multiset of its import statements, and its statement sequence with
    every import statement replaced by a marker (so imports may be permuted among the import
    positions, nothing else); None if it does not parse"""
    try:
        tree = ast.parse(text)
    except SyntaxError:
        return None
    imports = sorted(ast.dump(n) for n in tree.body if isinstance(n, (ast.Import, ast.ImportFrom)))
    layout = ["<import>" if isinstance(n, (ast.Import, ast.ImportFrom)) else ast.dump(n) for n in tree.body]
    return imports, layout


def compiles(text, name="<m>"):
    try:
        compile(text, name, "exec")
        return True
    except (SyntaxError, ValueError):
        return False


def shutdown():
    global _server
    if _server is not None and _server_pid == os.getpid():
        try:
            _server.stdin.close()
            _server.wait(timeout=5)
        except Exception:
            _server.kill()
    _server = None


# ================================================================ shared driver (C05, C07)
# TLC scopes -> programs -> replay -> minimal failing programs (cores) -> verdict
import hashlib
import itertools
import time


def base_constants(actions):
    from engine import tlc
    return {
        "Worlds": tlc.Sub("MCWorlds"),
        "DefNames": {"f", "g", "_h"},
        "Private": {"_h"},
        "OwnDefs": set(),
        "ImpAlias": "x",
        "FromAlias": "y",
        "Forms": {"import", "from", "star"},
        "Features": set(),
        "MaxImports": 2,
        "MaxUses": 1,
        "MaxStmts": 3,
        "MaxChain": 3,
        "FnFlags": {False},
        "Rank": tlc.Sub("MCRank"),
        "LongDepth": 3,
        "Actions": set(actions),
        "PrefSets": tlc.Sub("DefaultPrefs"),
    }


def scope(actions, worlds, forms, imports, uses, stmts, owndefs=(), features=(), **over):
    from engine import tlc
    c = base_constants(actions)
    c.update({"Worlds": tlc.Sub(worlds), "Forms": set(forms.split(",")), "MaxImports": imports,
              "MaxUses": uses, "MaxStmts": stmts, "OwnDefs": set(owndefs), "Features": set(features)})
    c.update(over)
    return c


def run_scope(name, consts, invariants, workers=2, coverage=False):
    """One exhaustive TLC run of MC_PyModules; returns (name, TLCResult, exported programs)."""
    from engine import tlc
    res = None
    for attempt in (1, 2):
        cfg = os.path.join(common.SCRATCH_BASE, "pym_%s_%d_%d.cfg" % (name, os.getpid(), attempt))
        tlc.write_cfg(cfg, constants=consts, invariants=list(invariants) + ["Export"])
        progs = []
        try:
            res = tlc.run("MC_PyModules", cfg, on_tagged=lambda t, v: progs.append(v), collect_tags=False,
                          coverage=coverage, workers=workers, java_opts=("-Xmx4g",))
        finally:
            os.unlink(cfg)
        # a JVM killed from outside (exit code < 0, e.g. memory pressure on a shared machine) is retried once
        if res.ok or res.violated or not (res.error or "").startswith("TLC exit code -"):
            break
    return name, res, progs


def open_bodies(prog):
    opened = sorted(prog["open"])
    return opened, [[m["body"] for m in prog["mods"] if m["m"] == o][0] for o in opened]


def prog_key(prog):
    """identity of a program inside one scope: world + bodies of the modules TLC wrote"""
    opened, bodies = open_bodies(prog)
    return common.digest([prog["world"], opened, bodies])


def sub_keys(prog):
    """keys of all programs obtained by deleting statements of the written modules"""
    opened, bodies = open_bodies(prog)

    def subs(body):
        n = len(body)
        return [[body[i] for i in range(n) if mask >> i & 1] for mask in range(1 << n)]

    for combo in itertools.product(*[subs(b) for b in bodies]):
        if list(combo) != bodies:
            yield common.digest([prog["world"], opened, list(combo)])


def size_of(prog):
    return sum(len(b) for b in open_bodies(prog)[1])


def shape(prog, focus=None):
    """the written modules of a program with every name replaced by its order of first appearance"""
    names = {}

    def t(n):
        if n == "*":
            return "*"
        if n not in names:
            names[n] = "n%d" % (len(names) + 1)
        return names[n]

    def path(p):
        return ".".join(t(x) for x in p)

    def stmt(s):
        k = s["k"]
        if k == "import":
            return "import " + ", ".join(path(i["path"]) + (" as " + t(i["as"]) if i["as"] else "") for i in s["items"])
        if k == "from":
            return "from %s%s import %s" % ("." * s["level"], path(s["path"]), ", ".join(
                t(i["n"]) + (" as " + t(i["as"]) if i["as"] else "") for i in s["items"]))
        if k == "future":
            return "future"
        if k == "def":
            return "def " + t(s["n"])
        if k == "all":
            return "__all__=[%s]" % ",".join(t(n) for n in s["names"])
        if k == "use":
            return ("usefn " if s["fn"] else "use ") + path(s["e"])
        raise ValueError(s)

    parts = []
    opened, bodies = open_bodies(prog)
    for o, body in zip(opened, bodies):
        tag = "target" if o == focus else "module"
        parts.append("%s{%s}" % (tag, "; ".join(stmt(s) for s in body)))
    return prog["world"] + ":" + " ".join(parts)


TAGGED_CAP = 120


def drive(prop, tier, scopes, invariants, replay_fn, acts_fn, quick_limit, act_key, assumptions, rule,
          env_prefix, tlc_parallel=6, tlc_workers=2, small_all=lambda name: False, neutral_tags=(),
          extra=None):
    """The common course of a PyModules check.

    scopes: [(name, constants)]; replay_fn(item) -> result dict (module-level function, runs in the
    pool); acts_fn(prog, consts, rnd) -> requests for one program; quick_limit(name) -> number of
    programs replayed per scope in the quick tier (None: all).
    A result has: scope, pkey, akeys (requests done), fails [{clause, act, ...}], counts, n_actions,
    machinery, sample.
    """
    from concurrent.futures import ThreadPoolExecutor
    from engine import replay
    timer = common.Timer()
    verdict = common.Verdict(prop)
    only = set(filter(None, os.environ.get(env_prefix + "_SCOPES", "").split(",")))
    todo = [(n, c) for n, c in scopes if not only or n in only]
    index, items, tlc_stats = {}, [], {}
    states = transitions = 0
    exhaustive = True
    force_limit = os.environ.get(env_prefix + "_LIMIT")
    with ThreadPoolExecutor(max_workers=tlc_parallel) as ex:
        futs = [ex.submit(run_scope, n, c, invariants, tlc_workers) for n, c in todo]
        for fut, (n, c) in zip(futs, todo):
            name, res, progs = fut.result()
            tlc_stats[name] = dict(res.summary(), programs=len(progs))
            states += res.distinct
            transitions += res.generated
            if not res.ok:
                if res.violated:
                    verdict.machinery_failure("TLC: clause %s fails for the reference refactoring of the model "
                                              "(scope %s)\n%s" % (res.violated, name, res.trace[-2500:]))
                else:
                    verdict.machinery_failure("TLC[%s]: %s\n%s" % (name, res.error, res.tail[-1500:]))
                continue
            if not progs:
                verdict.machinery_failure("scope %s: TLC exported no program (vacuous)" % name)
            progs.sort(key=lambda p: json.dumps(p, sort_keys=True))
            for p in progs:
                index[(name, prog_key(p))] = p
            limit = int(force_limit) if force_limit else (quick_limit(name) if tier == "quick" else None)
            chosen = progs
            if limit is not None and len(progs) > limit:
                exhaustive = False
                rnd = common.rng("%s/%s" % (prop, name))
                # every program of at most two statements (they are the usual cores, and keep the
                # check's sensitivity independent of the seed), a seeded sample of the larger ones
                small = [p for p in progs if size_of(p) <= 2]
                rest = [p for p in progs if size_of(p) > 2]
                rnd.shuffle(rest)
                feats = set(c.get("Features") or ())
                if small_all(name) and feats - set(neutral_tags):
                    # a scope that admits a feature: what matters are the programs that have it.  All
                    # of them in order of size up to TAGGED_CAP (always every one of the smallest size at
                    # which the feature occurs, however many statements that takes), then the sample.
                    tagged = sorted((p for p in progs if (feats - set(neutral_tags)) & set(p["tags"])),
                                    key=lambda p: (size_of(p), json.dumps(p, sort_keys=True)))
                    min_size = size_of(tagged[0]) if tagged else 0
                    core = [p for p in tagged if size_of(p) == min_size]
                    more = [p for p in tagged if size_of(p) > min_size][:max(0, TAGGED_CAP - len(core))]
                    seen = {prog_key(p) for p in core + more}
                    others = [p for p in rest + small if prog_key(p) not in seen]
                    chosen = core + more + others[:limit]
                elif small_all(name):
                    chosen = small + rest[:limit]
                else:
                    rnd.shuffle(small)
                    small = small[:limit // 3]
                    chosen = small + rest[:max(0, limit - len(small))]
            for i, p in enumerate(chosen):
                rnd = common.rng("%s/%s/%s" % (prop, name, prog_key(p)))
                items.append({"prog": p, "acts": acts_fn(p, c, rnd, tier), "scope": name, "fresh": i % 97 == 0})
    print("TLC PyModules: %d scopes, %d states, %d programs exported, %.1fs" % (
        len(tlc_stats), states, len(index), timer.s()))
    for n, st in tlc_stats.items():
        print("   scope %-13s states %7d programs %6d ok=%s wall %.1fs" % (
            n, st["distinct"], st["programs"], st["ok"], st["wall_s"]))

    failing = {}      # (scope, pkey, akey) -> {clause: failure record}
    done = set()
    counts = {}
    by_action = {}
    nacts = nprogs = 0
    changed_progs = set()
    samples = []
    rounds = 0
    planned = len(items)
    while items and rounds < 8:
        rounds += 1
        for r in replay.pool_map(replay_fn, items, chunk=16):
            if r.get("machinery"):
                verdict.machinery_failure(str(r["machinery"])[:1500])
                continue
            nprogs += 1
            nacts += r["n_actions"]
            for k, v in r["counts"].items():
                counts[k] = counts.get(k, 0) + v
            for a, d in (r.get("by_action") or {}).items():
                for k, v in d.items():
                    by_action.setdefault(a, {})[k] = by_action.setdefault(a, {}).get(k, 0) + v
            if r["counts"].get("changed"):
                changed_progs.add((r["scope"], r["pkey"]))
            for ak in r["akeys"]:
                done.add((r["scope"], r["pkey"], ak))
            for f in r["fails"]:
                failing.setdefault((r["scope"], r["pkey"], act_key(f["act"])), {})[f["clause"]] = f
            if r.get("sample") and len(samples) < 5:
                samples.append(r["sample"])
        need = {}
        for (scope_name, pkey, akey), fl in failing.items():
            prog = index[(scope_name, pkey)]
            act = list(fl.values())[0]["act"]
            for sk in sub_keys(prog):
                if (scope_name, sk) in index and (scope_name, sk, akey) not in done:
                    need.setdefault((scope_name, sk), {})[akey] = act
        items = [{"prog": index[k], "acts": list(acts.values()), "scope": k[0], "fresh": False}
                 for k, acts in sorted(need.items())]
        if items:
            print("round %d: %d smaller programs to replay for the failing requests" % (rounds, len(items)))

    # minimal failing programs; each distinct one is one reported case
    cores = {}
    for (scope_name, pkey, akey), fl in failing.items():
        prog = index[(scope_name, pkey)]
        subs = [sk for sk in sub_keys(prog) if (scope_name, sk) in index]
        for clause, f in fl.items():
            if any(clause in failing.get((scope_name, sk, akey), {}) for sk in subs):
                continue
            key = {"clause": clause, "action": f["act"]["name"],
                   "tags": ",".join(sorted(set(prog["tags"]) - set(neutral_tags))),
                   "variant": f["act"].get("variant", ""),
                   "core": shape(prog, f["act"].get("m")), "request": akey}
            cores.setdefault(json.dumps(key, sort_keys=True), (key, f, prog, scope_name))
    shown = {}
    for ks, (key, f, prog, scope_name) in sorted(cores.items()):
        how = verdict.failure(key, {"property": prop, "key": key, "scope": scope_name, "program": prog,
                                    "request": f["act"], "failure": {k: v for k, v in f.items() if k != "act"}})
        shown.setdefault((how, key["tags"], key["clause"], key["action"]), []).append((key, f))
    if os.environ.get(env_prefix + "_DUMP"):
        with open(os.environ[env_prefix + "_DUMP"], "w") as fh:
            json.dump([{"key": key, "f": f, "prog": prog, "scope": sc} for key, f, prog, sc in cores.values()], fh)
    if os.environ.get(env_prefix + "_SHOW"):
        for (how, tags, clause, action), lst in sorted(shown.items()):
            print("%-9s tags=%-10s %-18s %-15s %d cores, e.g. %s" % (how, tags, clause, action, len(lst), lst[0][0]["core"]))
    print("replayed %d programs (%d planned), %d requests %s; %d failing requests -> %d minimal cores; wall %.1fs" % (
        nprogs, planned, nacts, counts, len(failing), len(cores), timer.s()))
    if nacts and counts.get("changed", 0) < nacts * 0.05:
        verdict.machinery_failure("vacuous: rope changed something in only %d of %d requests" % (
            counts.get("changed", 0), nacts))
    for a in sorted(set().union(*[c["Actions"] for _, c in todo])) if todo else []:
        if not by_action.get(a, {}).get("changed"):
            verdict.machinery_failure("vacuous: no request of action %s changed anything" % a)
    if nprogs < planned * 0.98:
        verdict.machinery_failure("only %d of %d planned programs were replayed" % (nprogs, planned))
    extra_cov = {}
    if extra is not None and not only:
        # further families of the same property decided with another spec (e.g. MoveMethod via PyClass)
        extra_cov = extra(tier, verdict)
    for msg in verdict.machinery[:5]:
        print("MACHINERY:", msg[:1500])
    code = verdict.finish()
    if verdict.machinery and code != 2:
        print("MACHINERY-FAILURE property=%s (%d problems, first shown above)" % (prop, len(verdict.machinery)))
        code = 2
    common.write_evidence(prop, tier, "model_checking", {
        "states": states, "transitions": transitions,
        "traces_validated_against_impl": nacts,
        "programs_replayed": nprogs,
        "samples": samples or [{"note": "no sampled request changed a module"}],
        "exhaustive": bool(exhaustive and not only),
        "distinct_nontrivial": len(changed_progs),
        "rule": rule,
        "requests_by_outcome": counts,
        "requests_by_action": by_action,
        "failing_requests": len(failing), "minimal_cores": len(cores),
        "tlc": tlc_stats,
        "other_families": extra_cov,
        "known_finding_hits": verdict.known_hits,
    }, timer.s(), violations=len(verdict.violations), assumptions=assumptions)
    shutdown()
    return code
