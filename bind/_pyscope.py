"""Shared by C15 / C02 / C01: everything around spec/PyScope.tla that is not rope.

* feature-group configurations (TLC constants) and the TLC runner with export
* render(): abstract program (as exported by the spec) -> Python source, with the
  (line, col, offset) of every name token and the brackets of every scope
* cpython_check(): the spec's tables against CPython itself -- `symtable` (on the
  generator-expression twin of the text, because 3.12 inlines list comprehensions
  into the enclosing table, PEP 709), `ast` (scope tree and extents), `tokenize`
  (token positions) and execution with value provenance (every printed value must
  come from a binder of the binding the spec predicts).  A disagreement is a
  machinery failure (exit 2), never a verdict about rope.

Nothing in here decides what a name resolves to: Local / Resolve / BScope come
out of the spec, carried in the exported record.
"""
import ast
import io
import json
import os
import symtable
import tokenize

from engine import common, tlc
from engine import runpy as vrunpy

# --------------------------------------------------------------------------
# feature groups.  "main" groups are expected silent on rope; "feature" groups
# switch on constructs rope does not model at all, so that their failures stay
# isolated and are attributed to narrow known findings.
CORE = {"bind", "use", "global", "nonlocal", "param"}
TARGETS = {"for", "with", "with2", "except", "import", "importfrom", "walrus"}

GROUPS = {
    # name: constants, per tier (Names, MaxScopes, MaxEv)
    "core": dict(Kinds={"function", "class"}, Ops=CORE, ScopeNames=set(),
                 quick=({"a"}, 4, 3), quick_rename=({"a"}, 3, 4), thorough=({"a"}, 4, 4)),
    # deep nesting with few events (class > def > def chains, every order of kinds); small
    # enough to be replayed completely in the quick tier
    "nest": dict(Kinds={"function", "class"}, Ops={"bind", "use"}, ScopeNames=set(), replay_all=True,
                 quick=({"a"}, 4, 2), thorough=({"a"}, 4, 3)),
    # layout variants that do not change the scoping: def / class written on one logical line
    # with the body statement continued over several physical lines, multi-item with
    "layout": dict(Kinds={"function", "class"}, Ops={"bind", "use", "param", "with", "with2"}, ScopeNames=set(),
                   one_liners=True, quick=({"a"}, 3, 3), thorough=({"a"}, 4, 3)),
    # binders and nested definitions written inside compound statements (with without `as`,
    # for, try/finally, if, while): blocks that are not scopes
    "blocks": dict(Kinds={"function", "class"}, Ops={"bind", "use", "param", "import", "global"}, ScopeNames={"a"},
                   Blocks={"none", "with0", "for", "try", "if", "while"},
                   quick=({"a"}, 2, 3), thorough=({"a"}, 2, 4)),
    # classes with __init__ and / or __call__: keyword arguments at the construction site
    # and at the call of the instance
    "methods": dict(Kinds={"function", "class"}, Ops={"bind", "use", "param", "kwcall"}, ScopeNames=set(),
                    Roles={"init", "call"}, replay_all=True, quick=({"a"}, 4, 3), thorough=({"a"}, 4, 4)),
    # decorated defs (bare @property outside a class, an identity decorator) still bind their name
    "decos": dict(Kinds={"function", "class"}, Ops={"bind", "use", "param"}, ScopeNames={"a"},
                  Decos={"none", "property", "other"}, quick=({"a"}, 3, 2), thorough=({"a"}, 3, 3)),
    # class attributes referred to through instances: `C().a`, and `h(C()).a` with a pass-through helper
    # used with instances of several classes (per-call-site inference)
    "attrs": dict(Kinds={"class"}, Ops={"bind", "instattr", "helperattr"}, ScopeNames=set(), replay_all=True,
                  quick=({"a"}, 3, 4), thorough=({"a"}, 4, 4)),
    # the same references for classes that define __new__ (instances obtained by calling the class)
    "newattrs": dict(Kinds={"class", "function"}, Ops={"bind", "use", "instattr", "helperattr"}, ScopeNames=set(),
                     Roles={"new"}, replay_all=True, quick=({"a"}, 3, 3), thorough=({"a"}, 4, 3)),
    # a def called twice with keywords, with an attribute of the parameter's spelling read from the
    # first call's result in between
    "recall": dict(Kinds={"function"}, Ops={"param", "use", "kwcall", "kwrecall", "resattr"}, ScopeNames=set(),
                   replay_all=True, quick=({"a"}, 2, 4), thorough=({"a", "b"}, 2, 5)),
    # two modules star-imported into the first one; both may define the same name (the later wins)
    "stars": dict(Kinds={"function"}, Ops={"bind", "use", "libdef", "libuse", "sibdef", "sibuse"}, ScopeNames=set(),
                  Libs={"stars"}, replay_all=True, quick=({"a"}, 2, 4), thorough=({"a", "b"}, 2, 4)),
    # lib reached only as a module object re-exported by `from st import *` (st imports lib)
    "starmod": dict(Kinds={"function"}, Ops={"bind", "use", "libdef", "libuse", "modattr"}, ScopeNames=set(),
                    Libs={"starmod"}, replay_all=True, quick=({"a"}, 2, 3), thorough=({"a", "b"}, 2, 4)),
    "core2": dict(Kinds={"function", "class"}, Ops=CORE, ScopeNames=set(),
                  quick=({"a", "b"}, 2, 4), thorough=({"a", "b"}, 3, 4)),
    "defnames": dict(Kinds={"function", "class"}, Ops={"bind", "use", "global", "nonlocal", "param"},
                     ScopeNames={"a"}, quick=({"a"}, 3, 3), thorough=({"a"}, 3, 4)),
    "targets": dict(Kinds={"function", "class"}, Ops={"use", "global", "nonlocal"} | TARGETS,
                    ScopeNames=set(), quick=({"a"}, 3, 3), quick_rename=({"a"}, 2, 4), thorough=({"a"}, 3, 4)),
    "comp": dict(Kinds={"function", "class", "comp"}, Ops={"bind", "use", "for", "iteruse", "global", "param"},
                 ScopeNames=set(), quick=({"a"}, 3, 3), thorough=({"a"}, 4, 3)),
    "calls": dict(Kinds={"function", "class"}, Ops={"bind", "use", "param", "kwcall", "defuse"},
                  ScopeNames={"a"}, quick=({"a", "b"}, 3, 2), thorough=({"a", "b"}, 3, 3)),
    "decoys": dict(Kinds={"function"}, Ops={"bind", "use", "param", "fuse", "cmtdecoy", "strdecoy", "cmtdedent"},
                   ScopeNames=set(), quick=({"a"}, 2, 4), thorough=({"a"}, 3, 4)),
    # multi-module part: a second module, the import forms, rename of its names / of the module
    "modules": dict(Kinds={"function"}, Ops={"bind", "use", "libdef", "libuse", "fromlib", "fromlibas", "modattr", "asattr",
                         "sibdef", "sibuse", "fromsibas"},
                    ScopeNames=set(), Libs={"module", "package", "relative", "external", "shadowed"},
                    lib_named_like_identifier=True,
                    quick=({"a"}, 2, 4), thorough=({"a"}, 3, 4)),
    # constructs with known gaps in rope
    "params": dict(Kinds={"function", "class"}, Ops={"use", "bind", "posonly", "kwonly", "vararg", "kwarg", "param"},
                   ScopeNames=set(), quick=({"a"}, 3, 3), thorough=({"a", "b"}, 3, 3)),
    "stmts": dict(Kinds={"function", "class"}, Ops={"use", "bind", "aug", "del", "matchcap", "annbind"},
                  ScopeNames=set(), quick=({"a"}, 3, 3), thorough=({"a"}, 3, 4)),
    "walrus": dict(Kinds={"function", "class", "comp"}, Ops={"use", "bind", "walrus", "for", "param"},
                   ScopeNames=set(), quick=({"a"}, 3, 3), thorough=({"a"}, 3, 4)),
    "lambda": dict(Kinds={"function", "class", "lambda", "comp"}, Ops={"use", "bind", "param", "walrus", "defuse", "for"},
                   ScopeNames=set(), quick=({"a"}, 3, 3), thorough=({"a"}, 3, 4)),
}

MODEL_INVARIANTS = ["TypeOK", "ResolveTotal", "ClassSkip", "LocalWins", "NonlocalBinds",
                    "QueryInvariant", "OccPartition"]
MODEL_PROPERTIES = ["ResolveStable", "AlphaEq"]


def constants(group, tier, rename=False, fresh_only=True):
    g = GROUPS[group]
    names, max_scopes, max_ev = g[tier]
    if rename and tier == "quick" and "quick_rename" in g:
        names, max_scopes, max_ev = g["quick_rename"]     # Rename multiplies the states
    return {
        "Names": set(names), "Fresh": {"zz"}, "Kinds": set(g["Kinds"]), "Ops": set(g["Ops"]),
        "ScopeNames": set(g["ScopeNames"]) & set(names), "MaxScopes": max_scopes, "MaxEv": max_ev,
        "Libs": set(g.get("Libs", {"none"})), "ModFresh": {"zm"},
        "OneLiners": {False, True} if g.get("one_liners") else {False},
        "Blocks": set(g.get("Blocks", {"none"})), "Roles": set(g.get("Roles", {"plain"})),
        "Decos": set(g.get("Decos", {"none"})),
        "LibNames": {"lb"} | (set(names) if g.get("lib_named_like_identifier") else set()),
        "DoRename": rename, "FreshOnly": fresh_only,
    }


def run_groups(groups, tier, parallel=4, workers=4, **kw):
    """run_group() for several groups concurrently (each TLC with `workers` threads);
    returns {group: (TLCResult, items)} in the order of `groups`"""
    from concurrent.futures import ThreadPoolExecutor
    with ThreadPoolExecutor(max_workers=parallel) as ex:
        futs = {g: ex.submit(run_group, g, tier, workers=workers, **kw) for g in groups}
        return {g: futs[g].result() for g in groups}


def run_group(group, tier, export="Export", rename=False, check_model=True, on_item=None,
              fresh_only=True, coverage=False, timeout=3000, consts=None, workers=16,
              invariants=None, properties=None):
    """One TLC run of MC_PyScope for a feature group.  Returns (TLCResult, items)."""
    cfg = os.path.join(common.SCRATCH_BASE, "pyscope_%s_%s_%d.cfg" % (group, export, os.getpid()))
    c = consts or constants(group, tier, rename=rename, fresh_only=fresh_only)
    invs = list(invariants) if invariants is not None else (MODEL_INVARIANTS if check_model else ["TypeOK"])
    invs += [export] if export else []
    props = list(properties) if properties is not None else (MODEL_PROPERTIES if check_model else [])
    tlc.write_cfg(cfg, constants=c, invariants=invs, properties=props)
    items = []
    tag = "REN" if export == "ExportRename" else "BEH"

    def on(t, v):
        if t != tag:
            return
        if on_item is not None:
            on_item(v)
        else:
            items.append(v)
    try:
        for attempt in range(3):
            del items[:]
            res = tlc.run("MC_PyScope", cfg, on_tagged=on, collect_tags=False, coverage=coverage, timeout=timeout,
                          workers=workers)
            # TLC's scratch directory on /dev/shm can disappear under it when other jobs clean
            # up there ("when writing the disk ... No such file"): an environment fault, run again
            if res.error and ("writing the disk" in (res.error + res.tail) or "No such file" in (res.error + res.tail)) \
                    and on_item is None:
                continue
            break
    finally:
        if os.path.exists(cfg):
            os.unlink(cfg)
    return res, items


# --------------------------------------------------------------------------
# abstract program helpers (data reshaping only)
def ev_key(e):
    return (e["s"], e["op"], e["n"], e["k"])


class Program:
    """The exported record, indexed."""

    def __init__(self, rec, order_as=None):
        """order_as: {name: name} - render the events of a renamed program in the order
        of the program it came from (statement order is not part of the abstract program)"""
        self.rec = rec
        self.scopes = [None] + rec["scopes"]          # 1-based
        self.n = len(rec["scopes"])
        order_as = order_as or {}
        self.events = sorted(rec["ev"], key=lambda e: (e["s"], e["op"], order_as.get(e["n"], e["n"]), e["k"]))
        self.by_scope = {}
        for e in self.events:
            self.by_scope.setdefault(e["s"], []).append(e)
        self.local = {(s, n) for s, n in rec["names"]}
        self.resolve = {(s, n): r for s, n, r in rec["resolve"]}
        self.gdecl = {(s, n) for s, n in rec["gdecl"]}
        self.ndecl = {(s, n) for s, n in rec["ndecl"]}
        self.names = sorted({e["n"] for e in self.events})
        self.lib = rec.get("lib", "none")
        self.libname = rec.get("libname", "lb")
        # the sibling / second starred module keeps its name when lib is renamed (set by the caller)
        self.sibname = self.libname + "2" if self.lib == "stars" else self.libname
        self.children = {s: [] for s in range(1, self.n + 1)}
        for i in range(2, self.n + 1):
            self.children[self.scopes[i]["parent"]].append(i)

    def kind(self, s):
        return self.scopes[s]["kind"]

    def parent(self, s):
        return self.scopes[s]["parent"]

    def has(self, s, op, n=None):
        return [e for e in self.by_scope.get(s, ()) if e["op"] == op and (n is None or e["n"] == n)]

    def ops_of(self, s, n):
        return sorted({e["op"] for e in self.by_scope.get(s, ()) if e["n"] == n})

    def classes(self):
        """binding partition as exported: {(b, n): [events]} for determined tokens"""
        out = {}
        for e in self.events:
            if e["det"]:
                out.setdefault(("sib" if e.get("sc") else "lib" if e.get("lc") else e["b"], e["n"]), []).append(e)
        return out

    def scope_label(self, s):
        sc = self.scopes[s]
        if sc["kind"] == "module":
            return "<module>"
        if sc["name"] != "-":
            return sc["name"]
        return {"function": "f%d", "class": "C%d", "comp": "<comp%d>", "lambda": "<lambda%d>"}[sc["kind"]] % s


DECOYS = ("cmtdecoy", "strdecoy", "cmtdedent")
PARAM_OPS = ("posonly", "param", "vararg", "kwonly", "kwarg")
# binders that store a line-number value into the name at run time
VALUE_BINDERS = ("bind", "for", "with", "with2", "walrus", "matchcap", "param", "posonly", "kwonly", "kwcall", "except")


# --------------------------------------------------------------------------
# rendering
class Rendered:
    def __init__(self):
        self.lines = []
        self.tok = {}        # event key -> (line, col)
        self.head = {}       # scope -> header line (def/class) or first line (comp/lambda)
        self.last = {}       # scope -> last line
        self.brackets = {}   # comp scope -> ((line, col) of '[', (line, col) of ']')
        self.call_line = {}  # function / lambda scope -> line of its call
        self.deco_lines = set()      # lines holding a decorator
        self.main = "mod.py"         # project-relative path of the first module
        self.lib_path = None         # path of the second module
        self.lib_lines = []
        self.lib_tok = {}            # lib event key -> (line, col) in the second module
        self.mod_tokens = []         # (path, line, col) of every token naming the second module
        self.extra_files = {}        # __init__.py files
        self.external = False        # the second module lies outside the project
        self.sib_path = None         # layout "shadowed": the same-named sibling of the first module
        self.sib_lines = []
        self.sib_tok = {}            # sibling event key -> (line, col)
        self.sib_mod_tokens = []     # (path, line, col) of tokens naming the sibling module
        self.use_line = {}   # line printed by _u -> event key

    @property
    def src(self):
        return "\n".join(self.lines) + "\n"

    def offset(self, pos):
        line, col = pos
        return sum(len(l) + 1 for l in self.lines[:line - 1]) + col

    def offsets(self):
        starts = [0]
        for l in self.lines:
            starts.append(starts[-1] + len(l) + 1)
        return {k: starts[line - 1] + col for k, (line, col) in self.tok.items()}

    @property
    def multi(self):
        """more than one file"""
        return self.lib_path is not None or bool(self.extra_files)

    # -- multi-module view: every token as (path, offset)
    @property
    def files(self):
        """files of the project"""
        out = {self.main: self.src}
        if self.lib_path and not self.external:
            out[self.lib_path] = self.lib_src
        if self.sib_path:
            out[self.sib_path] = "\n".join(self.sib_lines) + "\n"
        out.update(self.extra_files)
        return out

    @property
    def lib_src(self):
        return "\n".join(self.lib_lines) + "\n"

    @property
    def outside(self):
        """files on the path but outside the project"""
        return {self.lib_path: self.lib_src} if self.external else {}

    @staticmethod
    def _off(lines, line, col):
        return sum(len(l) + 1 for l in lines[:line - 1]) + col

    def places(self):
        """event key -> (path, offset) for both modules"""
        out = {k: (self.main, o) for k, o in self.offsets().items()}
        for k, (line, col) in self.lib_tok.items():
            out[k] = ("<outside>/" + self.lib_path if self.external else self.lib_path,
                      self._off(self.lib_lines, line, col))
        for k, (line, col) in self.sib_tok.items():
            out[k] = (self.sib_path, self._off(self.sib_lines, line, col))
        return out

    def sibling_module_places(self):
        return sorted((p, self._off(self.lines, line, col)) for p, line, col in self.sib_mod_tokens)

    def module_places(self):
        files = self.files
        return sorted((p, self._off(files[p].split("\n"), line, col)) for p, line, col in self.mod_tokens)


class _Renderer:
    def __init__(self, prog):
        self.p = prog
        self.r = Rendered()
        self.role_args = {}

    # -- line assembly: parts are str | ("id", key, name) | ("line",)
    def emit(self, indent, parts):
        lineno = len(self.r.lines) + 1
        text = " " * indent
        for part in parts:
            if isinstance(part, str):
                text += part
            elif part[0] == "id":
                self.r.tok[part[1]] = (lineno, len(text))
                text += part[2]
            elif part[0] == "line":
                text += str(lineno)
            elif part[0] == "mark":     # remember a bracket position
                part[1](lineno, len(text))
        self.r.lines.append(text)
        return lineno

    def ident(self, e):
        return ("id", ev_key(e), e["n"])

    def sname(self, s):
        sc = self.p.scopes[s]
        if sc["name"] != "-":
            return sc["name"]
        return ("f%d" if sc["kind"] == "function" else "C%d") % s

    def evs(self, s, op):
        return self.p.has(s, op)

    # -- statement bodies (module, function, class)
    def wrapped(self, indent, parts):
        """a statement that may raise NameError at run time"""
        self.emit(indent, ["try:"])
        self.emit(indent + 4, parts)
        self.emit(indent, ["except NameError:"])
        self.emit(indent + 4, ["_u(", ("line",), ", 'NameError')"])

    def body(self, s, indent):
        p = self.p
        n0 = len(self.r.lines)
        for e in self.evs(s, "cmtdecoy"):
            self.emit(indent, ["# see ", ("id", ev_key(e), e["n"]), " below"])
        for e in self.evs(s, "strdecoy"):
            self.emit(indent, ["_s = 'see ", ("id", ev_key(e), e["n"]), " below'"])
        for kw in ("global", "nonlocal"):
            decl = self.evs(s, kw)
            if decl:       # one statement for all names: `global a, b`
                parts = [kw + " "]
                for i, e in enumerate(decl):
                    parts += ([", "] if i else []) + [self.ident(e)]
                self.emit(indent, parts)
        # binders and nested definitions, optionally inside a compound statement (not a scope)
        blk = p.scopes[s].get("blk", "none")
        bi = indent
        if blk != "none":
            self.emit(indent, [{"with0": "with _cm(0):", "if": "if 1:", "for": "for _j%d in [0]:" % s,
                                "try": "try:", "while": "while True:"}[blk]])
            bi = indent + 4
            n_blk = len(self.r.lines)
        for e in self.evs(s, "bind"):
            self.emit(bi, [self.ident(e), " = ", ("line",)])
        for e in self.evs(s, "annbind"):
            self.emit(bi, [self.ident(e), ": int"])
        for e in self.evs(s, "import"):
            self.emit(bi, ["import os as ", self.ident(e)])
        for e in self.evs(s, "importfrom"):
            self.emit(bi, ["from os import sep as ", self.ident(e)])
        self.lib_imports(s, bi)
        for e in self.evs(s, "for"):
            self.emit(bi, ["for ", self.ident(e), " in [", ("line",), "]:"])
            self.emit(bi + 4, ["pass"])
        for e in self.evs(s, "with"):
            self.emit(bi, ["with _cm(", ("line",), ") as ", self.ident(e), ":"])
            self.emit(bi + 4, ["pass"])
        for e in self.evs(s, "with2"):
            self.emit(bi, ["with _cm(0), _cm(", ("line",), ") as ", self.ident(e), ":"])
            self.emit(bi + 4, ["pass"])
        for e in self.evs(s, "walrus"):
            self.emit(bi, ["(", self.ident(e), " := ", ("line",), ")"])
        for e in self.evs(s, "matchcap"):
            self.emit(bi, ["match ", ("line",), ":"])
            self.emit(bi + 4, ["case ", self.ident(e), ":"])
            self.emit(bi + 8, ["pass"])
        for e in self.evs(s, "aug"):
            self.wrapped(bi, [self.ident(e), " += 0"])
        for c in p.children[s]:
            k = p.kind(c)
            if k == "function":
                self.function(c, bi)
            elif k == "class":
                self.klass(c, bi)
            else:
                self.emit(bi, ["try:"])
                self.expr_scope(c, bi + 4, "")
                self.emit(bi, ["except NameError:"])
                self.emit(bi + 4, ["_u(", ("line",), ", 'NameError')"])
        if blk != "none":
            if len(self.r.lines) == n_blk:
                self.r.lines.pop()            # nothing to put inside: no block
            elif blk == "try":
                self.emit(indent, ["finally:"])
                self.emit(indent + 4, ["pass"])
            elif blk == "while":
                self.emit(bi, ["break"])
        for e in self.evs(s, "use"):
            self.use(indent, e, [self.ident(e)])
        for e in self.evs(s, "fuse"):
            self.use(indent, e, ["f'{", self.ident(e), "}'"])
        for e in self.evs(s, "modattr"):
            self.use(indent, e, self.dotted() + [".", self.ident(e)])
        for e in self.evs(s, "asattr"):
            self.use(indent, e, ["_m%d." % s, self.ident(e)])
        for e in self.evs(s, "except"):
            self.emit(indent, ["try:"])
            self.emit(indent + 4, ["raise _E(", ("line",), ")"])
            self.emit(indent, ["except _E as ", self.ident(e), ":"])
            self.emit(indent + 4, ["pass"])
        for e in self.evs(s, "del"):
            self.wrapped(indent, ["del ", self.ident(e)])
        if len(self.r.lines) == n0 or all(l.lstrip().startswith("#") for l in self.r.lines[n0:]):
            self.emit(indent, ["pass"])
        for e in self.evs(s, "cmtdedent"):
            # the block ends with a compound statement that holds a comment-only line indented
            # less than the block itself (but more than 0)
            self.emit(indent, ["if 1:"])
            self.emit(indent + 4, ["pass"])
            self.emit(max(indent - 2, 1), ["# see ", ("id", ev_key(e), e["n"]), " below"])
            self.emit(indent + 4, ["pass"])

    # -- multi-module part
    def modtok(self):
        return ("mark", lambda l, c: self.r.mod_tokens.append((self.r.main, l, c)))

    def dotted(self):
        """the second module as written in an expression of the first"""
        if self.p.lib == "package":
            return ["pk.", self.modtok(), self.p.libname]
        return [self.modtok(), self.p.libname]

    def lib_imports(self, s, indent):
        p = self.p
        lib = p.libname
        if p.lib == "stars":
            return
        if p.lib == "starmod":
            return      # lib is reached through `from st import *` at the top of the module
        frm = {"module": ["from ", self.modtok(), lib], "package": ["from pk.", self.modtok(), lib],
               "relative": ["from .", self.modtok(), lib], "external": ["from ", self.modtok(), lib],
               "shadowed": ["from ", self.modtok(), lib]}.get(p.lib)
        for e in self.evs(s, "fromlib"):
            self.emit(indent, frm + [" import ", self.ident(e)])
        for e in self.evs(s, "fromlibas"):
            self.emit(indent, frm + [" import ", self.ident(e), " as _q%d" % s])
        for e in self.evs(s, "fromsibas"):
            # explicit relative import: the sibling module beside the importer
            self.emit(indent, ["from .", ("mark", lambda l, c: self.r.sib_mod_tokens.append(("pk/mod.py", l, c))),
                               p.sibname, " import ", self.ident(e), " as _r%d" % s])
        if self.evs(s, "modattr"):
            if p.lib == "relative":
                self.emit(indent, ["from . import ", self.modtok(), lib])
            else:
                self.emit(indent, ["import "] + self.dotted())
        if self.evs(s, "asattr"):
            if p.lib == "relative":
                self.emit(indent, ["from . import ", self.modtok(), lib, " as _m%d" % s])
            else:
                self.emit(indent, ["import "] + self.dotted() + [" as _m%d" % s])

    def lib_module(self):
        """top level of the second module"""
        p, r = self.p, self.r
        if p.lib == "none":
            return
        r.lib_path = {"module": "%s.py", "package": "pk/%s.py", "relative": "pk/%s.py",
                      "external": "%s.py", "shadowed": "%s.py", "stars": "%s.py", "starmod": "%s.py"}[p.lib] % p.libname
        r.external = p.lib == "external"
        if p.lib in ("package", "relative", "shadowed"):
            r.extra_files["pk/__init__.py"] = ""
        if p.lib in ("shadowed", "stars"):
            # shadowed: the importer's own folder holds another module called lb;
            # stars: the second module whose names are star-imported
            r.sib_path = ("pk/%s.py" if p.lib == "shadowed" else "%s.py") % p.sibname
            for e in self.evs(0, "sibdef"):
                ln = len(r.sib_lines) + 1
                r.sib_tok[ev_key(e)] = (ln, 0)
                r.sib_lines.append("%s = %d" % (e["n"], 2000 + ln))
            for e in self.evs(0, "sibuse"):
                ln = len(r.sib_lines) + 1
                text = "_u(%d, " % (2000 + ln)
                r.sib_tok[ev_key(e)] = (ln, len(text))
                r.sib_lines.append(text + e["n"] + ")")
                r.use_line[2000 + ln] = ev_key(e)
            if not r.sib_lines:
                r.sib_lines.append("pass")
        if p.lib in ("relative", "shadowed"):
            r.main = "pk/mod.py"
            r.mod_tokens = [("pk/mod.py", l, c) for (_, l, c) in r.mod_tokens]
        lines = r.lib_lines
        for e in self.evs(0, "libdef"):
            ln = len(lines) + 1
            r.lib_tok[ev_key(e)] = (ln, 0)
            lines.append("%s = %d" % (e["n"], 1000 + ln))
        for e in self.evs(0, "libuse"):
            ln = len(lines) + 1
            text = "_u(%d, " % (1000 + ln)
            r.lib_tok[ev_key(e)] = (ln, len(text))
            lines.append(text + e["n"] + ")")
            r.use_line[1000 + ln] = ev_key(e)
        if not lines:
            lines.append("pass")

    def use(self, indent, e, expr, exc="NameError"):
        self.emit(indent, ["try:"])
        ln = self.emit(indent + 4, ["_u(", ("line",), ", "] + expr + [")"])
        self.r.use_line[ln] = ev_key(e)
        self.emit(indent, ["except %s:" % exc])
        self.emit(indent + 4, ["_u(", str(ln), ", 'NameError')"])

    def params(self, s):
        """header parameter list and the matching call arguments (as parts)"""
        p = self.p
        kw = {e["n"]: e for e in self.evs(s, "kwcall")}
        head, args, kwargs = [], [], []
        pos = self.evs(s, "posonly")
        for e in pos:
            head.append([self.ident(e)])
            args.append([("line",)])
        if pos:
            head.append(["/"])
        normal = self.evs(s, "param")
        for e in [x for x in normal if x["n"] not in kw] + [x for x in normal if x["n"] in kw]:
            head.append([self.ident(e)])
            if e["n"] in kw:
                kwargs.append([("id", ev_key(kw[e["n"]]), e["n"]), "=", ("line",)])
            else:
                args.append([("line",)])
        for i, e in enumerate(self.evs(s, "defuse")):
            head.append(["_d%d=" % i, self.ident(e)])
        va = self.evs(s, "vararg")
        ko = self.evs(s, "kwonly")
        if va:
            head.append(["*", self.ident(va[0])])
        elif ko:
            head.append(["*"])
        for e in ko:
            head.append([self.ident(e), "=", ("line",)])
            if e["n"] in kw:
                kwargs.append([("id", ev_key(kw[e["n"]]), e["n"]), "=", ("line",)])
        for e in self.evs(s, "kwarg"):
            head.append(["**", self.ident(e)])

        def join(items):
            out = []
            for i, it in enumerate(items):
                if i:
                    out.append(", ")
                out.extend(it)
            return out
        return join(head), join(args + kwargs)

    def one_line_body(self, s, indent, header):
        """`def f(a): b = [L,` / `    0,` / `][0]`: simple statements on the header's logical
        line, each continued over three physical lines inside brackets"""
        binds = self.evs(s, "bind")
        first = True
        parts = list(header) + [" "]
        if not binds:
            self.r.head[s] = self.emit(indent, parts + ["[0,"])
            self.emit(indent + 4, ["0,"])
            self.r.last[s] = self.emit(indent, ["]"])
            return
        for i, e in enumerate(binds):
            parts += [self.ident(e), " = [", ("line",), ","]
            ln = self.emit(indent, parts)
            if first:
                self.r.head[s] = ln
                first = False
            self.emit(indent + 4, ["0,"])
            parts = ["][0]" + ("; " if i + 1 < len(binds) else "")]
        self.r.last[s] = self.emit(indent, parts)

    def function(self, s, indent):
        p = self.p
        sc = p.scopes[s]
        head, args = self.params(s)
        name = self.sname(s)
        nm = ("id", (sc["parent"], "defname", sc["name"], s), name) if sc["name"] != "-" else name
        role = sc.get("role", "plain")
        if role != "plain":
            # __init__ / __call__: called through the class (see klass)
            if role == "new":
                # the singleton / factory idiom: rope cannot infer what __new__ returns
                self.r.head[s] = self.emit(indent, ["def __new__(cls, *_a, **_k):"])
                self.body(s, indent + 4)
                self.r.last[s] = self.emit(indent + 4, ["return object.__new__(cls)"])
                return
            mname = {"init": "__init__", "call": "__call__"}[role]
            self.r.head[s] = self.emit(indent, ["def ", mname, "(self"] + ([", "] + head if head else []) + ["):"])
            self.body(s, indent + 4)
            self.r.last[s] = len(self.r.lines)
            self.role_args[s] = args
            return
        if sc.get("one"):
            self.one_line_body(s, indent, ["def ", nm, "("] + head + ["):"])
        else:
            deco = sc.get("deco", "none")
            if deco != "none":
                self.r.deco_lines.add(self.emit(indent, ["@property" if deco == "property" else "@_deco"]))
            self.r.head[s] = self.emit(indent, ["def ", nm, "("] + head + ["):"])
            self.body(s, indent + 4)
            self.r.last[s] = len(self.r.lines)
            if deco == "property":
                # the name now holds a property object: it is referred to, not called
                if sc["name"] != "-":
                    key = (sc["parent"], "call", sc["name"], s)
                    self.use(indent, {"s": key[0], "op": "call", "n": key[2], "k": s}, [("id", key, name)])
                self.r.call_line[s] = len(self.r.lines)
                return
        cn = ("id", (sc["parent"], "call", sc["name"], s), name) if sc["name"] != "-" else name
        recall = {e["n"]: e for e in self.evs(s, "kwrecall")}
        resattr = self.evs(s, "resattr")
        if not (recall or resattr):
            self.r.call_line[s] = self.emit(indent, [cn, "("] + args + [")"])
            return
        # r = f(n=..); r.n; f(n=..): an attribute with the parameter's spelling on the call's
        # result between two keyword calls
        first = self.r.call_line[s] = self.emit(indent, ["_r%d = " % s, cn, "("] + args + [")"])
        for e in resattr:
            self.use(indent, e, ["_r%d." % s, self.ident(e)], exc="(NameError, AttributeError)")
        if recall:
            kw = {e["n"] for e in self.evs(s, "kwcall")}
            normal = self.evs(s, "param")
            parts = [str(first)] * len(self.evs(s, "posonly"))
            parts += [str(first) for e in normal if e["n"] not in kw]
            items = [[x] for x in parts]
            for e in [x for x in normal if x["n"] in kw] + [x for x in self.evs(s, "kwonly") if x["n"] in kw]:
                items.append([("id", ev_key(recall[e["n"]]), e["n"]), "=", str(first)])
            out = []
            for i, it in enumerate(items):
                out += ([", "] if i else []) + it
            self.emit(indent, [cn, "("] + out + [")"])

    def klass(self, s, indent):
        sc = self.p.scopes[s]
        name = self.sname(s)
        nm = ("id", (sc["parent"], "defname", sc["name"], s), name) if sc["name"] != "-" else name
        if sc.get("one"):
            self.one_line_body(s, indent, ["class ", nm, ":"])
            return
        self.r.head[s] = self.emit(indent, ["class ", nm, ":"])
        self.body(s, indent + 4)
        self.r.last[s] = len(self.r.lines)
        # attribute references through an instance, directly and through the helper
        for e in self.evs(s, "instattr"):
            self.use(indent, e, [name, "().", self.ident(e)], exc="(NameError, AttributeError)")
        for e in self.evs(s, "helperattr"):
            self.use(indent, e, ["_h(", name, "()).", self.ident(e)], exc="(NameError, AttributeError)")
        roles = {self.p.scopes[c].get("role", "plain"): c for c in self.p.children[s]}
        if "init" in roles or "call" in roles:
            # instantiate the class (keyword arguments are tokens of __init__'s parameters),
            # then call the instance (tokens of __call__'s parameters)
            init = roles.get("init")
            ln = self.emit(indent, ["_o%d = " % s, name, "("] + (self.role_args[init] if init else []) + [")"])
            if init:
                self.r.call_line[init] = ln
            if "call" in roles:
                self.r.call_line[roles["call"]] = self.emit(
                    indent, ["_o%d(" % s] + self.role_args[roles["call"]] + [")"])

    # -- expression scopes (comprehension, lambda); `tail` is appended after the
    #    closing bracket ("," when nested as an element)
    def elements(self, s, indent):
        p = self.p
        n0 = len(self.r.lines)
        for e in self.evs(s, "use"):
            ln = self.emit(indent, ["_u(", ("line",), ", ", self.ident(e), "),"])
            self.r.use_line[ln] = ev_key(e)
        for e in self.evs(s, "walrus"):
            self.emit(indent, ["(", self.ident(e), " := ", ("line",), "),"])
        for c in p.children[s]:
            self.expr_scope(c, indent, ",")
        if len(self.r.lines) == n0:
            self.emit(indent, ["0,"])

    def expr_scope(self, s, indent, tail):
        p = self.p
        if p.kind(s) == "comp":
            br = {}
            self.r.head[s] = self.emit(indent, [("mark", lambda l, c: br.__setitem__("o", (l, c))), "[("])
            self.elements(s, indent + 4)
            targets = self.evs(s, "for")
            parts = [") for "]
            if not targets:
                parts += ["_i%d" % s, " in [0]"]
            elif len(targets) == 1:
                parts += [self.ident(targets[0]), " in [", ("line",), "]"]
            else:
                for i, e in enumerate(targets):
                    parts += ([", "] if i else []) + [self.ident(e)]
                parts += [" in [(", ("line",)] + [", %d" % (len(self.r.lines) + 1)] * (len(targets) - 1) + [")]"]
            for e in self.evs(s, "iteruse"):
                parts += [" + _z(", self.ident(e), ")"]
            parts += [("mark", lambda l, c: br.__setitem__("c", (l, c))), "]", tail]
            self.r.last[s] = self.emit(indent, parts)
            self.r.brackets[s] = (br["o"], br["c"])
        else:
            head, args = self.params(s)
            self.r.head[s] = self.emit(indent, ["(lambda "] + head + [": ("] if head else ["(lambda: ("])
            self.elements(s, indent + 4)
            self.r.last[s] = self.emit(indent, ["))("] + args + [")", tail])
            self.r.call_line[s] = self.r.last[s]

    def run(self):
        self.r.head[1] = 1
        if self.p.lib == "starmod":
            # st.py imports lib; its star import re-exports the module object
            self.emit(0, ["from st import *"])
            self.r.extra_files["st.py"] = "import %s\n" % self.p.libname
            self.r.mod_tokens.append(("st.py", 1, 7))
        if self.p.lib == "stars":
            # the later star import wins for a name both modules define
            self.emit(0, ["from ", self.modtok(), self.p.libname, " import *"])
            self.emit(0, ["from ", ("mark", lambda l, c: self.r.sib_mod_tokens.append(("mod.py", l, c))),
                          self.p.sibname, " import *"])
        if any(e["op"] == "helperattr" for e in self.p.events):
            # the pass-through helper lives in a module of its own (no extra scope here)
            self.emit(0, ["from hlp import _h"])
            self.r.extra_files["hlp.py"] = "def _h(obj):\n    item = obj\n    return item\n"
        self.body(1, 0)
        self.r.last[1] = len(self.r.lines)
        self.lib_module()
        return self.r


def render(prog):
    return _Renderer(prog).run()


def deinline(text, pairs):
    """`[X for ..]` -> `[*(X for ..)]` at the given ((line, col) of '[', (line, col) of ']') pairs:
    the same list, built from a generator expression.  CPython 3.12 compiles list
    comprehensions inline (PEP 709) and 3.12.0/3.12.1 get some programs wrong that way
    (`[0 for a in x]` followed by `[a for _ in y]` in one function raises UnboundLocalError
    for the global a); generator expressions are never inlined and have the same scoping."""
    lines = [list(l) for l in text.split("\n")]
    edits = []
    for (o, c) in pairs:
        edits.append((o[0], o[1], "[", "[*("))
        edits.append((c[0], c[1], "]", ")]"))
    for ln, col, ch, rep in sorted(edits, reverse=True):
        assert lines[ln - 1][col] == ch
        lines[ln - 1][col:col + 1] = list(rep)
    return "\n".join("".join(l) for l in lines)


def genexp_twin(r):
    """same text with every list comprehension turned into a generator expression
    (same offsets): symtable keeps those as separate tables in 3.12"""
    lines = [list(l) for l in r.lines]
    for (l1, c1), (l2, c2) in r.brackets.values():
        assert lines[l1 - 1][c1] == "[" and lines[l2 - 1][c2] == "]"
        lines[l1 - 1][c1] = "("
        lines[l2 - 1][c2] = ")"
    return "\n".join("".join(l) for l in lines) + "\n"


# --------------------------------------------------------------------------
# run-time helpers injected into rendered programs (never part of the text)
def _make_helpers(out):
    class _E(Exception):
        pass

    class _CM:
        def __init__(self, v):
            self.v = v

        def __enter__(self):
            return self.v

        def __exit__(self, *a):
            return False

    def _v(x):
        if isinstance(x, bool) or x is None:
            return repr(x)
        if isinstance(x, int):
            return str(x)
        if isinstance(x, str):
            return x if (x.isdigit() or x == "NameError") else "str"
        if isinstance(x, _E):
            return "exc:%s" % (x.args[0] if x.args else "")
        if isinstance(x, (tuple, list)):
            return "seq%d" % len(x)
        if isinstance(x, dict):
            return "map%d" % len(x)
        if isinstance(x, type):
            return "class"
        if callable(x):
            return "callable"
        return type(x).__name__

    def _u(line, value):
        out.append("%s %s" % (line, _v(value)))
        return value

    def _z(*a):
        return []

    return {"_E": _E, "_cm": _CM, "_u": _u, "_z": _z, "_deco": (lambda f: f)}


def execute(src):
    """Run a rendered single-module program.  Returns (list of 'line value', exception name)."""
    out = []
    res = vrunpy.exec_source(src, inputs=_make_helpers(out))
    if res["syntax"]:
        return None, "SyntaxError: " + res.get("msg", "")
    return out, res["exc"]


def execute_project(files, main, outside=None):
    """Run a rendered multi-module program in this process: the files are written to a
    scratch directory that is first on sys.path, helpers live in builtins for the run,
    every module imported from there is forgotten afterwards.
    Returns (printed lines, exception name)."""
    import builtins
    import importlib
    import sys
    import contextlib
    root = common.scratch("pyscope_run_")
    out = []
    helpers = _make_helpers(out)
    before = set(sys.modules)
    exc = None
    try:
        for base, fs in ((root, files), (os.path.join(root, "_outside"), outside or {})):
            for rel, text in fs.items():
                full = os.path.join(base, rel)
                os.makedirs(os.path.dirname(full), exist_ok=True)
                with open(full, "w") as f:
                    f.write(text)
        for k, v in helpers.items():
            setattr(builtins, k, v)
        if outside:
            sys.path.insert(0, os.path.join(root, "_outside"))
        sys.path.insert(0, root)
        importlib.invalidate_caches()
        modname = main[:-3].replace("/", ".")
        try:
            with contextlib.redirect_stdout(io.StringIO()):
                importlib.import_module(modname)
        except SyntaxError as e:
            return None, "SyntaxError: %s" % e
        except BaseException as e:  # the program's own exception is an observable
            exc = type(e).__name__
    finally:
        for pth in (root, os.path.join(root, "_outside")):
            if pth in sys.path:
                sys.path.remove(pth)
        sys.path_importer_cache.pop(root, None)
        for k in list(sys.path_importer_cache):
            if k.startswith(root):
                sys.path_importer_cache.pop(k, None)
        for k in set(sys.modules) - before:
            del sys.modules[k]
        for k in helpers:
            if hasattr(builtins, k):
                delattr(builtins, k)
        common.rmtree(root)
    return out, exc


def run_rendered(r):
    if not r.multi:
        return execute(r.src)
    return execute_project(r.files, r.main, r.outside)


# --------------------------------------------------------------------------
# CPython cross-check
class SpecMismatch(Exception):
    pass


def _tables_preorder(top):
    out = []

    def walk(t, parent):
        out.append((t, parent))
        me = len(out)
        for c in t.get_children():
            walk(c, me)
    walk(top, 0)
    return out


def _ast_scopes(tree):
    """scope nodes in pre-order: (kind, parent index, node)"""
    out = [("module", 0, tree)]

    def walk(node, me):
        for ch in ast.iter_child_nodes(node):
            k = None
            if isinstance(ch, (ast.FunctionDef, ast.AsyncFunctionDef)):
                k = "function"
            elif isinstance(ch, ast.ClassDef):
                k = "class"
            elif isinstance(ch, (ast.ListComp, ast.SetComp, ast.DictComp, ast.GeneratorExp)):
                k = "comp"
            elif isinstance(ch, ast.Lambda):
                k = "lambda"
            if k:
                out.append((k, me, ch))
                walk(ch, len(out))
            else:
                walk(ch, me)
    walk(tree, 1)
    return out


def cpython_check(prog, r, run=True):
    """Raise SpecMismatch if the spec's tables disagree with CPython on this program.
    Returns a dict with what CPython says that the rope comparison needs (scope spans)."""
    src = r.src
    try:
        tree = ast.parse(src)
    except SyntaxError as e:
        raise SpecMismatch("rendered program does not compile: %s" % e)
    # tokens
    names_at = {}
    for t in tokenize.generate_tokens(io.StringIO(src).readline):
        if t.type == tokenize.NAME:
            names_at[t.start] = t.string
    for key, pos in r.tok.items():
        if key[1] in DECOYS:
            if pos in names_at:
                raise SpecMismatch("decoy %s is a NAME token" % (key,))
        elif key[1] == "fuse":
            pass    # inside an f-string: checked through the ast below
        elif names_at.get(pos) != key[2]:
            raise SpecMismatch("token of %s not at %s" % (key, pos))
    # scope tree and extents from ast
    nodes = _ast_scopes(tree)
    if [(k, par) for k, par, _ in nodes] != [(prog.kind(s), prog.parent(s)) for s in range(1, prog.n + 1)]:
        raise SpecMismatch("ast scope tree %s differs from the spec's %s" % (
            [(k, par) for k, par, _ in nodes], [(prog.kind(s), prog.parent(s)) for s in range(1, prog.n + 1)]))
    spans = {1: ((1, 0), (len(r.lines) + 1, 0))}
    for s in range(2, prog.n + 1):
        node = nodes[s - 1][2]
        spans[s] = ((node.lineno, node.col_offset), (node.end_lineno, node.end_col_offset))
        if node.lineno != r.head[s] or node.end_lineno != r.last[s]:
            raise SpecMismatch("extent of scope %d: ast %s-%s, renderer %s-%s" % (
                s, node.lineno, node.end_lineno, r.head[s], r.last[s]))
    # symbol tables (generator-expression twin)
    twin = genexp_twin(r)
    try:
        top = symtable.symtable(twin, "<twin>", "exec")
    except SyntaxError as e:
        raise SpecMismatch("twin does not compile: %s" % e)
    tabs = _tables_preorder(top)
    if len(tabs) != prog.n:
        raise SpecMismatch("symtable has %d tables, spec %d scopes" % (len(tabs), prog.n))
    for s in range(1, prog.n + 1):
        tab, par = tabs[s - 1]
        want_type = {"module": "module", "class": "class"}.get(prog.kind(s), "function")
        if tab.get_type() != want_type or par != prog.parent(s):
            raise SpecMismatch("symtable table %d is %s/%d" % (s, tab.get_type(), par))
        present = {sym.get_name(): sym for sym in tab.get_symbols()}
        for n in prog.names:
            sym = present.get(n)
            local = (s, n) in prog.local
            res = prog.resolve[(s, n)]
            if sym is None:
                if local and not (s == 1 and prog.lib == "stars"):
                    raise SpecMismatch("spec: %s local in scope %d, symtable has no symbol" % (n, s))
                continue
            # The module table carries DEF_GLOBAL for every `global n` anywhere and for
            # a walrus hoisted out of a module-level comprehension (st_global is the
            # module's symbol dict); with that flag alone symtable cannot tell whether
            # the module block binds n, so the flag is not compared there (execution
            # provenance below still is).
            # (a star import binds names the symbol table cannot know: the module table of the
            # "stars" layout is validated by execution only)
            if not (s == 1 and sym.is_declared_global() and not sym.is_local()) and \
                    not (s == 1 and prog.lib == "stars"):
                if sym.is_local() != local:
                    raise SpecMismatch("Local(%d,%s): spec %s, symtable is_local %s" % (
                        s, n, local, sym.is_local()))
            is_param = any(prog.has(s, op, n) for op in PARAM_OPS)
            if sym.is_parameter() != is_param:
                raise SpecMismatch("parameter flag of %s in scope %d" % (n, s))
            if prog.kind(s) in ("function", "class"):
                if sym.is_declared_global() != ((s, n) in prog.gdecl):
                    raise SpecMismatch("declared-global flag of %s in scope %d" % (n, s))
                if sym.is_nonlocal() != ((s, n) in prog.ndecl):
                    raise SpecMismatch("nonlocal flag of %s in scope %d" % (n, s))
            if sym.is_global():
                if res not in (0, 1):
                    raise SpecMismatch("Resolve(%d,%s)=%d, symtable says global" % (s, n, res))
            elif sym.is_free():
                # nearest enclosing function table (classes skipped) in which n is local
                t = prog.parent(s)
                binder = 0
                while t >= 2:
                    tt = tabs[t - 1][0]
                    if tt.get_type() == "function":
                        try:
                            if tt.lookup(n).is_local():
                                binder = t
                                break
                        except KeyError:
                            pass
                    t = prog.parent(t)
                if res != binder or binder == 0:
                    raise SpecMismatch("Resolve(%d,%s)=%d, symtable: free, bound in %d" % (s, n, res, binder))
            elif sym.is_local():
                if s >= 2 and res != s:
                    raise SpecMismatch("Resolve(%d,%s)=%d, symtable says local" % (s, n, res))
        # every token whose resolution starts in s must have a symbol there
    info = {"spans": spans}
    if r.lib_path is not None:
        lib_src = r.lib_src
        try:
            ast.parse(lib_src)
        except SyntaxError as e:
            raise SpecMismatch("second module does not compile: %s" % e)
        lib_names = {t.start: t.string for t in tokenize.generate_tokens(io.StringIO(lib_src).readline)
                     if t.type == tokenize.NAME}
        for key, pos in r.lib_tok.items():
            if lib_names.get(pos) != key[2]:
                raise SpecMismatch("token of %s not at %s in the second module" % (key, pos))
        for (path, line, col) in r.mod_tokens:
            if path == r.main and names_at.get((line, col)) != prog.libname:
                raise SpecMismatch("module token not at %s" % ((path, line, col),))
        if r.sib_path is not None:
            sib_src = r.files[r.sib_path]
            sib_names = {t.start: t.string for t in tokenize.generate_tokens(io.StringIO(sib_src).readline)
                         if t.type == tokenize.NAME}
            for key, pos in r.sib_tok.items():
                if sib_names.get(pos) != key[2]:
                    raise SpecMismatch("token of %s not at %s in the sibling module" % (key, pos))
            for (path, line, col) in r.sib_mod_tokens:
                if names_at.get((line, col)) != prog.sibname:
                    raise SpecMismatch("sibling module token not at %s" % ((path, line, col),))
    if run:
        out, exc = run_rendered(r)
        if out is None:
            raise SpecMismatch(exc)
        info["out"] = out
        info["exc"] = exc
        _provenance(prog, r, out)
    return info


def _provenance(prog, r, out):
    """every value printed at a use must have been stored by a binder of the binding
    the spec assigns to that use; an undetermined use must raise NameError"""
    by_key = {ev_key(e): e for e in prog.events}
    value_lines = {}
    for e in prog.events:
        if e["op"] == "libdef":
            value_lines.setdefault(("lib", e["n"]), set()).add(1000 + r.lib_tok[ev_key(e)][0])
        if e["op"] == "sibdef":
            value_lines.setdefault(("sib", e["n"]), set()).add(2000 + r.sib_tok[ev_key(e)][0])
        if e["op"] in VALUE_BINDERS and e["b"] != 0:
            ln = r.tok[ev_key(e)][0]
            if e["op"] == "matchcap":
                ln -= 1                      # the subject is on the `match` line
            elif e["op"] in ("param", "posonly"):
                ln = r.call_line[e["s"]]     # the argument is written at the call
            value_lines.setdefault((e["b"], e["n"]), set()).add(ln)
    for line in out:
        ln, _, val = line.partition(" ")
        key = r.use_line.get(int(ln))
        if key is None:
            continue
        e = by_key[key]
        if e.get("sc"):
            if val.isdigit() and int(val) not in value_lines.get(("sib", e["n"]), ()):
                raise SpecMismatch("use %s of the sibling module's %s printed %s" % (key, e["n"], val))
            continue
        if e.get("lc"):
            if val.isdigit() and int(val) not in value_lines.get(("lib", e["n"]), ()):
                raise SpecMismatch("use %s of the second module's %s printed %s" % (key, e["n"], val))
            continue
        if e["b"] == 0:
            if val != "NameError":
                raise SpecMismatch("use %s is unbound for the spec but evaluates to %s" % (key, val))
            continue
        if not val.isdigit():
            continue
        allowed = set(value_lines.get((e["b"], e["n"]), ()))
        if prog.kind(e["s"]) == "class" and e["b"] == e["s"]:
            # class bodies look names up dynamically: a class-local name that is not
            # (yet) bound at run time falls back to the global
            allowed |= value_lines.get((1, e["n"]), set())
        if int(val) not in allowed:
            raise SpecMismatch("use %s printed a value stored at line %s; binders of its binding %s are at %s" % (
                key, val, (e["b"], e["n"]), sorted(allowed)))


def describe(prog):
    """compact human-readable form of an abstract program for samples / replays"""
    out = []
    for s in range(1, prog.n + 1):
        evs = ["%s %s" % (e["op"], e["n"]) for e in prog.by_scope.get(s, ()) if e["k"] == 0]
        out.append("%d:%s%s[%s]" % (s, prog.kind(s), "" if s == 1 else "<%d" % prog.parent(s), ", ".join(evs)))
    return "; ".join(out)
