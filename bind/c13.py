"""C13 - a long-lived project answers like a freshly opened one.

TLC explores spec/RopeCache.tla: changes through rope (with the observer
fan-out and the invalidation rules of the module cache / file list cache /
watch list), changes behind rope's back, validate, and queries that warm the
caches, in every order up to a bounded length; it checks that the protocol
keeps the caches coherent with the tree (FilesCoherent, SourceCoherent,
InferNoStalePositive, CachedIsWatched).  Every behaviour is replayed on a real
project; in every quiet state (no unvalidated external change) the same battery
of queries is run on the warm project and on a brand-new Project opened on the
same directory, and the answers must be equal.
"""
import json
import os
import sys

from engine import common, tlc, replay

PROP = "C13"

BODIES = {
    0: "",
    1: "v = 1\n",
    2: "import a\nw = a.v\n",
    3: "from pkg import b\nu = b.v\n",
    4: "class K:\n    def f(self):\n        return 1\nv = K()\n",
    5: "from q import b\nz = b.v\n",
    6: "from a import *\nx = K\ny = v\n",
    7: "def broken(:\n    pass\n",
    8: "from b import *\ny = v\n",
    9: "import pkg.q.b\nw = pkg.q.b.K()\n",
    10: "\n\nclass K:\n    def g(self):\n        return 2\n\n    def h(self):\n        return 3\nv = K()\n",
}

INVARIANTS = ["FilesCoherent", "SourceCoherent", "InferNoStalePositive", "ImportsCoherent", "CachedIsWatched"]


def constants(max_ops, external=True, two_packages=False, world=None):
    w = {None: ("MCInitTreesC", "MCUniverse"), "two": ("MCInitTreesC2", "MCUniverse2"),
         "topackage": ("MCInitTreesC3", "MCUniverse3"), "pair": ("MCInitTreesC4", "MCUniverse4"),
         "nested": ("MCInitTreesC5", "MCUniverse5")}[
             "two" if two_packages else world]
    if world == "nested":
        return {
            "DirNames": {"pkg", "q"}, "FileNames": {"a", "b", "i"}, "MaxDepth": 3,
            "MaxOps": max_ops, "Contents": {4, 10},
            "ImportsOf": tlc.Sub("MCImports"),
            "InitTreesC": tlc.Sub(w[0]),
            "Universe": tlc.Sub(w[1]), "AllowExternal": external,
            "ForgetOnStructure": True, "Exclusive": tlc.Sub("MCNoExclusive"),
        }
    return {
        "DirNames": {"pkg", "q", "A"}, "FileNames": {"a", "b", "i", "t"}, "MaxDepth": 2,
        "MaxOps": max_ops, "Contents": {1, 2},
        "ImportsOf": tlc.Sub("MCImports"),
        "InitTreesC": tlc.Sub(w[0]),
        "Universe": tlc.Sub(w[1]), "AllowExternal": external,
        "ForgetOnStructure": True, "Exclusive": tlc.Sub("MCExclusive"),
    }


def rpath(p):
    names = list(p)
    names = ["a" if n == "A" else n for n in names]     # the folder a/ (package) next to a.py
    last = p[-1]
    if last in ("pkg", "q", "A"):
        return "/".join(names)
    if last == "t":
        names[-1] = "t.txt"
    elif last == "i":
        names[-1] = "__init__.py" if len(names) > 1 else "i.py"
    else:
        names[-1] = last + ".py"
    return "/".join(names)


def is_dir(p):
    return p[-1] in ("pkg", "q", "A")


def render(root, pairs):
    for p, v in sorted(pairs, key=lambda pv: len(pv[0])):
        full = os.path.join(root, rpath(p))
        if v == -2:
            os.mkdir(full)
        else:
            with open(full, "w") as f:
                f.write(BODIES[v])


def autoimport_index(ai):
    out = {}
    for name in ("v", "w", "u", "K", "a", "b"):
        out[name] = sorted(set(ai.get_modules(name)))
    return out


def battery(project, autoimport=None):
    """Everything C13 lists, as plain data."""
    from rope.contrib import findit
    out = {}
    if autoimport is not None:
        out["autoimport"] = autoimport_index(autoimport)
    out["files"] = sorted(r.path for r in project.get_files())
    out["python_files"] = sorted(r.path for r in project.get_python_files())
    fm = {}
    for name in ("a", "b", "pkg", "pkg.b", "pkg.a", "i", "q", "q.b", "pkg.q", "pkg.q.b"):
        m = project.find_module(name)
        fm[name] = m.path if m is not None else None
    out["find_module"] = fm
    src, attrs, defloc, inferred = {}, {}, {}, {}
    for res in sorted(project.get_python_files(), key=lambda r: r.path):
        pm = project.get_pymodule(res)
        src[res.path] = pm.source_code
        a = pm.get_attributes()
        attrs[res.path] = sorted(a)
        for name in sorted(a):
            pyname = a[name]
            mod, line = pyname.get_definition_location()
            r2 = mod.get_resource() if mod is not None else None
            defloc["%s:%s" % (res.path, name)] = [r2.path if r2 is not None else None, line]
            obj = pyname.get_object()
            try:
                oa = sorted(k for k in obj.get_attributes() if not k.startswith("__"))
            except Exception as e:  # objects without attributes
                oa = "exc:" + type(e).__name__
            inferred["%s:%s" % (res.path, name)] = [type(obj).__name__, type(obj.get_type()).__name__, oa]
    # every identifier token resolved through its scope (what go-to-definition / rename use)
    import io
    import tokenize
    from rope.base import evaluate
    uses = {}
    for res in sorted(project.get_python_files(), key=lambda r: r.path):
        pm = project.get_pymodule(res)
        text = pm.source_code
        starts = [0]
        for ln in text.splitlines(True):
            starts.append(starts[-1] + len(ln))
        try:
            toks = list(tokenize.generate_tokens(io.StringIO(text).readline))
        except (tokenize.TokenError, SyntaxError, IndentationError):
            continue
        for tok in toks:
            if tok.type == tokenize.NAME and tok.string not in ("import", "from", "class", "def", "return", "as"):
                off = starts[tok.start[0] - 1] + tok.start[1]
                pyname = evaluate.eval_location(pm, off)
                if pyname is None:
                    uses["%s@%d" % (res.path, off)] = None
                else:
                    mod, line = pyname.get_definition_location()
                    r2 = mod.get_resource() if mod is not None else None
                    uses["%s@%d" % (res.path, off)] = [r2.path if r2 is not None else None, line]
    out["uses"] = uses
    out["source"] = src
    out["attrs"] = attrs
    out["defloc"] = defloc
    out["inferred"] = inferred
    occ = {}
    for res in sorted(project.get_python_files(), key=lambda r: r.path):
        text = res.read()
        if text.startswith("v = 1"):
            locs = findit.find_occurrences(project, res, 0)
            occ[res.path] = sorted([l.resource.path, l.offset] for l in locs)
    out["occurrences"] = occ
    return out


def run_behaviour(beh):
    common.use_repo()
    from rope.base import project as project_mod, change as change_mod

    root = common.scratch("c13_")
    try:
        trail = beh["trail"]
        render(root, trail[0]["tree"])
        prefs = {"ignored_resources": beh["ignored"]} if beh.get("ignored") else {}
        project = project_mod.Project(root, ropefolder=None, **prefs)
        from rope.contrib.autoimport.sqlite import AutoImport
        warm_ai = AutoImport(project, observe=True, memory=True)
        for r0 in project.get_python_files():     # generate_cache() forks a process pool; same effect
            warm_ai.update_resource(r0)
        clock = [os.path.getmtime(root) + 1000.0]

        older = [int(common.digest(beh["trail"]), 16) % 2 == 1]

        def tick(path, prev=None):
            # an external edit changes (mtime, size); half of the behaviours make the new mtime OLDER than
            # the replaced file's (a restored backup, cp -p, tar x), the other half newer
            if prev is not None and older[0]:
                t = prev - 5.0
            else:
                clock[0] += 2.0
                t = clock[0]
            os.utime(path, (t, t))

        for st in trail[1:]:
            act, l = st["act"], st["leaf"]
            if act == "rope":
                p = rpath(l["p"])
                cs = change_mod.ChangeSet("step")
                if l["k"] == "W":
                    cs.add_change(change_mod.ChangeContents(project.get_file(p), BODIES[l["c"]]))
                elif l["k"] == "CF":
                    cs.add_change(change_mod.CreateResource(project.get_file(p)))
                elif l["k"] == "CD":
                    cs.add_change(change_mod.CreateResource(project.get_folder(p)))
                elif l["k"] == "RM":
                    res = project.get_folder(p) if is_dir(l["p"]) else project.get_file(p)
                    cs.add_change(change_mod.RemoveResource(res))
                elif l["k"] == "MV":
                    res = project.get_folder(p) if is_dir(l["p"]) else project.get_file(p)
                    cs.add_change(change_mod.MoveResource(res, rpath(l["q"]), exact=True))
                project.do(cs)
            elif act == "ext":
                full = os.path.join(root, rpath(l["p"]))
                parent = os.path.dirname(full)
                if l["k"] == "W":
                    prev = os.path.getmtime(full)
                    with open(full, "w") as f:
                        f.write(BODIES[l["c"]])
                    tick(full, prev)
                elif l["k"] == "CF":
                    open(full, "w").close()
                    tick(full)
                    tick(parent)
                elif l["k"] == "CD":
                    os.mkdir(full)
                    tick(full)
                    tick(parent)
                elif l["k"] == "RM":
                    if os.path.isdir(full):
                        import shutil
                        shutil.rmtree(full)
                    else:
                        os.remove(full)
                    tick(parent)
            elif act == "validate":
                project.validate(project.root)
            elif act == "files":
                project.get_files()
            elif act == "module":
                res = project.get_resource(rpath(l["p"]))
                try:
                    pm = project.get_pymodule(res)
                    for name, pyname in pm.get_attributes().items():
                        obj = pyname.get_object()
                        try:
                            obj.get_attributes()
                        except Exception:
                            pass
                except Exception:
                    pass    # e.g. a module with a syntax error: a query may fail, later answers must still be right
        # the spec's tree must be the disk (binds the model of the fs)
        snap = common.snapshot(root)
        disk = sorted([rel.replace(os.sep, "/"), None if data is None else data.decode()] for rel, data in snap.items())
        exp = sorted([rpath(p), None if v == -2 else BODIES[v]] for p, v in beh["tree"])
        if disk != exp:
            return {"machinery": "disk differs from the spec tree: %r vs %r" % (disk, exp), "item": beh}
        if not beh["quiet"]:
            return {"fails": [], "checked": False, "beh": beh}
        conf = []
        real_cached = sorted(r.path for r in project.pycore.module_cache.module_map)
        warm_exc = fresh_exc = None
        try:
            warm = battery(project, warm_ai)
        except Exception as e:
            warm, warm_exc = None, "%s: %s" % (type(e).__name__, str(e)[:200])
        fresh_project = project_mod.Project(root, ropefolder=None, **prefs)
        try:
            fresh_ai = AutoImport(fresh_project, observe=False, memory=True)
            for r0 in fresh_project.get_python_files():
                fresh_ai.update_resource(r0)
            fresh = battery(fresh_project, fresh_ai)
        except Exception as e:
            fresh, fresh_exc = None, "%s: %s" % (type(e).__name__, str(e)[:200])
        if fresh is None:
            # a fresh project cannot answer either: nothing to compare (not a C13 matter)
            return {"fails": [], "checked": False, "beh": beh, "fresh_exc": fresh_exc}
        if warm is None:
            return {"fails": ["WarmRaises"], "key": {"clauses": ["WarmRaises"], "exc": warm_exc.split(":")[0]},
                    "beh": beh, "obs": {"warm_exc": warm_exc}}
        diff = [k for k in fresh if warm[k] != fresh[k]]
        if not diff:
            return {"fails": [], "checked": True, "beh": beh, "cached": real_cached}
        stale_mods = sorted(rpath(p) for p in beh["stale"])
        steps = beh["trail"][1:]
        folder_op = any(s["act"] == "rope" and s["leaf"]["k"] in ("RM", "MV") and is_dir(s["leaf"]["p"]) for s in steps)
        ext_op = any(s["act"] == "ext" for s in steps)
        failures = []
        # (1) the auto-import index is its own mechanism
        if "autoimport" in diff:
            failures.append({"clauses": ["autoimport"], "autoimport_only": True, "stale_negative_inference": False,
                             "after_folder_remove_or_move": folder_op, "after_external_change": ext_op})
        # (2) resolution / inference answers, per module
        infer_secs = [k for k in diff if k in ("inferred", "defloc", "attrs", "uses")]
        if infer_secs:
            mods = set()
            for k in infer_secs:
                for item in set(warm[k]) | set(fresh[k]):
                    if warm[k].get(item) != fresh[k].get(item):
                        mods.add(item.split(":")[0].split("@")[0])
            failures.append({"clauses": sorted(infer_secs),
                             "stale_negative_inference": bool(mods and mods <= set(stale_mods)),
                             "source_roots_changed": bool(beh.get("rootsChanged")) and not (mods and mods <= set(stale_mods)),
                             "modules": None})
        # (3) everything else (files, find_module, source, occurrences)
        rest = [k for k in diff if k not in ("autoimport", "inferred", "defloc", "attrs", "uses")]
        if rest:
            failures.append({"clauses": sorted(rest), "stale_negative_inference": False})
        for f in failures:
            f.pop("modules", None)
        return {"fails": sorted(diff), "keys": failures, "beh": beh,
                "obs": {"warm": {k: warm[k] for k in diff}, "fresh": {k: fresh[k] for k in diff},
                        "spec_stale": stale_mods, "roots_changed": beh.get("rootsChanged"), "cached": real_cached}}
    finally:
        common.rmtree(root)


def main(tier):
    timer = common.Timer()
    verdict = common.Verdict(PROP)
    runs = []
    states = trans = 0
    behs = []
    seen = set()
    plan = [("exhaustive-3ops", constants(4), "export", None),
            ("two-packages-3ops", constants(4, external=False, two_packages=True), "export", None),
            ("two-packages-q-ignored-3ops", constants(4, external=False, two_packages=True), "export-ignored", None),
            ("module-to-package-4ops", constants(5, external=False, world="topackage"), "export", None),
            ("two-modules-requery-4ops", constants(5, external=True, world="pair"), "export", None),
            ("nested-packages-4ops", constants(5, external=True, world="nested"), "export", None),
            ("deep-view-4ops", constants(5), "deep", None),
            ("simulation-8ops", constants(9), "sim", 2000 if tier == "quick" else 30000)]
    if tier == "thorough":
        # everything quick runs (the small worlds completely), then one more operation / longer walks
        plan = [p for p in plan if p[2] != "sim" and p[0] not in ("exhaustive-3ops", "two-packages-3ops",
                                                                   "deep-view-4ops")] + \
               [("exhaustive-4ops", constants(5), "export", None),
                ("two-packages-4ops", constants(5, external=False, two_packages=True), "export", None),
                ("nested-packages-5ops", constants(6, external=True, world="nested"), "export", None),
                ("deep-view-5ops", constants(6), "deep", None),
                ("deep-view-two-packages-5ops", constants(6, two_packages=True), "deep", None),
                ("simulation-8ops", constants(9), "sim", 30000),
                ("simulation-two-packages-8ops", constants(9, two_packages=True), "sim", 15000)]
    for name, consts, mode, num in plan:
        cfg = os.path.join(common.SCRATCH_BASE, "c13_%d.cfg" % os.getpid())
        got = []
        ignored = None
        if mode == "export-ignored":
            mode, ignored = "export", ["q"]
        if mode == "export":
            tlc.write_cfg(cfg, constants=consts, invariants=INVARIANTS + ["Export"])
            res = tlc.run("MC_RopeCache", cfg, on_tagged=lambda t, v, got=got: got.append(v), collect_tags=False)
        elif mode == "deep":
            tlc.write_cfg(cfg, constants=consts, invariants=INVARIANTS, view="View")
            res = tlc.run("MC_RopeCache", cfg)
        else:
            tlc.write_cfg(cfg, constants=consts, invariants=INVARIANTS + ["Export"])
            res = tlc.run("MC_RopeCache", cfg, simulate={"num": max(1, num // 16)}, depth=12, seed=common.SEED + 13,
                          on_tagged=lambda t, v, got=got: got.append(v), collect_tags=False)
        os.unlink(cfg)
        print("TLC RopeCache[%s]:" % name, res.summary(), "behaviours:", len(got))
        runs.append({"config": name, "mode": mode, **res.summary(), "behaviours": len(got)})
        if not res.ok:
            if res.violated:
                path = common.write_replay(PROP, {"kind": "tlc-counterexample", "config": name,
                                                  "invariant": res.violated, "trace": res.trace})
                print("VIOLATION property=%s replay=%s" % (PROP, path))
                print("TLC: %s violated on the model of the cache protocol" % res.violated)
                return 1
            print("MACHINERY-FAILURE property=%s TLC[%s]: %s\n%s" % (PROP, name, res.error, res.tail))
            return 2
        if mode != "sim":
            states += res.distinct
            trans += res.generated
        for b in got:
            if mode == "sim" and len(b["trail"]) < 6:
                continue
            if ignored:
                b["ignored"] = ignored
            d = common.digest([b["trail"], ignored])
            if d not in seen:
                seen.add(d)
                behs.append(b)
    sens = None
    if tier == "thorough":
        c = constants(5)
        c["ForgetOnStructure"] = False
        cfg = os.path.join(common.SCRATCH_BASE, "c13s_%d.cfg" % os.getpid())
        tlc.write_cfg(cfg, constants=c, invariants=["ImportsCoherent"], view="View")
        r2 = tlc.run("MC_RopeCache", cfg)
        os.unlink(cfg)
        sens = r2.violated
        print("TLC RopeCache[sensitivity, pinned rope's rule]: violated =", sens)
        if sens is None:
            verdict.machinery_failure("model insensitive: without ForgetOnStructure ImportsCoherent still holds")
    behs.sort(key=lambda b: json.dumps(b["trail"], sort_keys=True))
    generated_behaviours = len(behs)
    CAP = 500000
    if tier == "quick":
        # end states with an unvalidated external change are not compared with a fresh project (they only
        # bind the model of the file system): a seeded sample of them is enough on every change
        rnd = common.rng("c13")
        other = [b for b in behs if not b["quiet"]]
        rnd.shuffle(other)
        behs = [b for b in behs if b["quiet"]] + other[:8000]
        behs.sort(key=lambda b: json.dumps(b["trail"], sort_keys=True))
    elif len(behs) > CAP:
        # only quiet end states are compared with a fresh project: they go first; of the rest (which only
        # bind the model of the file system) and of the overflow a seeded sample
        rnd = common.rng("c13")
        quiet = [b for b in behs if b["quiet"]]
        other = [b for b in behs if not b["quiet"]]
        rnd.shuffle(quiet)
        rnd.shuffle(other)
        behs = quiet[:CAP - 20000] + other[:20000]
        behs.sort(key=lambda b: json.dumps(b["trail"], sort_keys=True))
    replayed = checked = 0
    nontrivial = set()
    samples = []
    for r in replay.pool_map(run_behaviour, behs, chunk=100):
        replayed += 1
        if "machinery" in r:
            verdict.machinery_failure(r["machinery"][:800])
            continue
        beh = r["beh"]
        if r.get("checked"):
            checked += 1
            acts = [s["act"] for s in beh["trail"]]
            if ("module" in acts or "files" in acts) and ("rope" in acts or "ext" in acts):
                nontrivial.add(common.digest(beh["trail"]))
                if len(samples) < 3 and replayed % 17 == 0:
                    samples.append([[s["act"], s["leaf"]["k"], "/".join(s["leaf"]["p"]), "/".join(s["leaf"]["q"]),
                                     s["leaf"]["c"]] for s in beh["trail"][1:]])
        if r["fails"]:
            for key in r.get("keys") or [r["key"]]:
                verdict.failure(key, {"property": PROP, "key": key,
                                      "trail": [[s["act"], s["leaf"]] for s in beh["trail"]],
                                      "init": beh["trail"][0]["tree"], "observed": r["obs"]})
    if not samples and behs:
        b = behs[len(behs) // 2]
        samples.append([[s["act"], s["leaf"]["k"], "/".join(s["leaf"]["p"])] for s in b["trail"][1:]])
    code = verdict.finish()
    common.write_evidence(PROP, tier, "model_checking", {
        "states": states, "transitions": trans,
        "traces_validated_against_impl": replayed,
        "behaviours_generated_by_tlc": generated_behaviours,
        "quiet_states_compared_warm_vs_fresh": checked,
        "distinct_nontrivial": len(nontrivial),
        "samples": samples,
        "exhaustive": False,
        "rule": "one behaviour per state of the TLC graph of RopeCache (every action sequence up to the bound) plus "
                "random walks; each is replayed on a real project and, when no unvalidated external change is pending, "
                "the query battery is compared with a brand-new Project on the same directory; non-trivial = a cache "
                "was warmed and the tree changed afterwards or before",
        "tlc_runs": runs,
        "model_sensitivity_without_structure_forgetting": sens,
        "known_finding_hits": verdict.known_hits,
    }, timer.s(), violations=len(verdict.violations), assumptions=[
        "external changes alter (mtime, size): mtimes are set explicitly and strictly increasing",
        "rope is not asked to change a file while an external change to the tree is unvalidated",
        "queries: files, python files, find_module, source, attribute names, definition locations, first-level "
        "inferred objects, occurrences of a global; auto-import index not included",
    ])
    return code


def replay_case(obj):
    if "trail" not in obj:
        return True, obj
    # rebuild the behaviour record from the stored trail (spec-side flags are not needed to re-run it)
    trail = [{"act": "init", "leaf": {"k": "-", "p": [], "q": [], "c": 0}, "tree": obj["init"]}] + \
            [{"act": a, "leaf": l, "tree": []} for a, l in obj["trail"][1:]]
    beh = {"trail": trail, "quiet": True, "stale": [], "tree": None}
    common.use_repo()
    r = run_behaviour_for_replay(beh)
    return bool(r.get("fails")), {k: r.get(k) for k in ("fails", "keys", "obs")}


def run_behaviour_for_replay(beh):
    # the disk-vs-spec-tree comparison is skipped (no spec state in a replay file)
    import unittest.mock as mock
    with mock.patch.object(common, "snapshot", lambda root, skip=(): {}):
        beh["tree"] = []
        return run_behaviour(beh)


if __name__ == "__main__":
    sys.exit(main(sys.argv[1] if len(sys.argv) > 1 else "quick"))
