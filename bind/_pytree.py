"""Shared by bind/c19.py and bind/c08.py: spec trees <-> Python source / CPython ast.

The spec (spec/PyTree.tla) writes programs as token sequences; nothing here
decides where parentheses go or what a node's extent is - that comes from the
spec and is cross-checked against CPython by parsing the rendered text back.
"""
import ast
import re

KEYWORDS = {"if", "else", "elif", "not", "and", "or", "in", "is", "lambda", "return", "while", "for",
            "def", "class", "with", "as", "try", "except", "finally", "import", "from", "global",
            "assert", "del", "pass", "match", "case", "raise", "yield", "await", "async"}
BINOPS = {ast.Add: "+", ast.Sub: "-", ast.Mult: "*", ast.Div: "/", ast.FloorDiv: "//", ast.Mod: "%",
          ast.Pow: "**", ast.MatMult: "@", ast.LShift: "<<", ast.RShift: ">>", ast.BitOr: "|",
          ast.BitAnd: "&", ast.BitXor: "^"}
UNOPS = {ast.USub: "-", ast.UAdd: "+", ast.Invert: "~", ast.Not: "not"}
BOOLOPS = {ast.And: "and", ast.Or: "or"}
CMPOPS = {ast.Eq: "==", ast.NotEq: "!=", ast.Lt: "<", ast.LtE: "<=", ast.Gt: ">", ast.GtE: ">=",
          ast.Is: "is", ast.IsNot: "is not", ast.In: "in", ast.NotIn: "not in"}

WILD_PREFIX = "w__"
WILDQ_PREFIX = "wq__"


# ---------------------------------------------------------------- rendering
def render(tokens, indent="    ", cont="        "):
    """Token sequence of the spec ([text, d] pairs) -> (source text, [(start, end) per token]).

    d >= 0 starts a logical line indented d levels, d == -2 is a line break
    inside brackets, d == -1 an ordinary token.  Spacing is a fixed house style;
    the spec decides everything else.
    """
    out = []
    pos = 0
    spans = []
    prev = None
    first_line = True
    for s, d in tokens:
        if d >= 0:
            sep = ("" if first_line else "\n") + indent * d
            first_line = False
            out.append(sep)
            pos += len(sep)
            spans.append((pos, pos))
            prev = None
            continue
        if d == -2:
            out.append("\n" + cont)
            pos += 1 + len(cont)
            spans.append((pos, pos))
            prev = None
            continue
        sep = _sep(prev, s)
        out.append(sep)
        pos += len(sep)
        out.append(s)
        spans.append((pos, pos + len(s)))
        pos += len(s)
        prev = s
    return "".join(out), spans


def _wordy(s):
    return s[0].isalnum() or s[0] in "_'\"$" or s[-1].isalnum() or s[-1] in "_'\"}"


def _sep(prev, s):
    if prev is None:
        return ""
    if s in (")", "]", "}", ",", ":", ".") or prev in ("(", "[", "{", ".", "~"):
        return ""
    if s in ("(", "[") and prev not in KEYWORDS and (prev[-1].isalnum() or prev[-1] in "_)]}'\""):
        return ""  # call / subscript
    if prev == "-u" or prev == "+u":
        return ""
    return " "


def unwild(text):
    """Pattern / goal text -> parseable text with placeholder names."""
    text = re.sub(r"\$\{\?(\w+)\}", lambda m: WILDQ_PREFIX + m.group(1), text)
    return re.sub(r"\$\{(\w+)\}", lambda m: WILD_PREFIX + m.group(1), text)


# ---------------------------------------------------------------- CPython ast -> spec tree
def N(k, v, c, n=None):
    return {"k": k, "v": v, "c": c, "n": n}


def strip(t):
    """Drop the ast back-references (for comparison with the spec's trees)."""
    return {"k": t["k"], "v": t["v"], "c": [strip(x) for x in t["c"]]}


def to_tree(node):
    """CPython ast node (or list of statements) -> spec tree with 'n' = the ast node.

    Kinds outside the modelled fragment become generic nodes (kind = class
    name, label = repr of the non-node fields) so that comparison simply fails.
    """
    if isinstance(node, list):
        return N("Block", "", [to_tree(s) for s in node], node)
    if isinstance(node, ast.Module):
        return N("Block", "", [to_tree(s) for s in node.body], node.body)
    T = to_tree
    if isinstance(node, ast.Name):
        if node.id.startswith(WILDQ_PREFIX):
            return N("Wild", "?" + node.id[len(WILDQ_PREFIX):], [], node)
        if node.id.startswith(WILD_PREFIX):
            return N("Wild", node.id[len(WILD_PREFIX):], [], node)
        return N("Name", node.id, [], node)
    if isinstance(node, ast.Constant):
        v = node.value
        if isinstance(v, bool) or v is None or v is Ellipsis:
            return N("Const", repr(v), [], node)
        if isinstance(v, (int, float, complex)):
            return N("Num", repr(v), [], node)
        return N("Str", repr(v), [], node)
    if isinstance(node, ast.BinOp):
        return N("BinOp", BINOPS[type(node.op)], [T(node.left), T(node.right)], node)
    if isinstance(node, ast.UnaryOp):
        return N("UnaryOp", UNOPS[type(node.op)], [T(node.operand)], node)
    if isinstance(node, ast.BoolOp):
        return N("BoolOp", BOOLOPS[type(node.op)], [T(x) for x in node.values], node)
    if isinstance(node, ast.Compare) and len(node.ops) == 1:
        return N("Compare", CMPOPS[type(node.ops[0])], [T(node.left), T(node.comparators[0])], node)
    if isinstance(node, ast.Call) and all(k.arg is not None for k in node.keywords) and \
            not any(isinstance(a, ast.Starred) for a in node.args):
        return N("Call", "", [T(node.func)] + [T(a) for a in node.args] +
                 [N("Kw", k.arg, [T(k.value)], k) for k in node.keywords], node)
    if isinstance(node, ast.Attribute):
        return N("Attribute", node.attr, [T(node.value)], node)
    if isinstance(node, ast.Subscript):
        return N("Subscript", "", [T(node.value), T(node.slice)], node)
    if isinstance(node, ast.Slice):
        parts = [(c, x) for c, x in (("l", node.lower), ("u", node.upper), ("s", node.step)) if x is not None]
        return N("Slice", "".join(c for c, x in parts), [T(x) for c, x in parts], node)
    if isinstance(node, ast.Tuple):
        return N("Tuple", "", [T(x) for x in node.elts], node)
    if isinstance(node, ast.List):
        return N("List", "", [T(x) for x in node.elts], node)
    if isinstance(node, ast.IfExp):
        return N("IfExp", "", [T(node.body), T(node.test), T(node.orelse)], node)
    if isinstance(node, ast.Lambda) and _simple_args(node.args, 1):
        a = node.args.args
        return N("Lambda", a[0].arg if a else "", [T(node.body)], node)
    if isinstance(node, ast.Lambda) and not (node.args.posonlyargs or node.args.args or node.args.kwonlyargs
                                             or node.args.defaults) and \
            (node.args.vararg is None) != (node.args.kwarg is None):
        star = node.args.vararg or node.args.kwarg
        kind = "vararg" if node.args.vararg is not None else "kwarg"
        return N("Lambda", "", [N("arguments", "", [N(kind, star.arg, [], star)], node.args), T(node.body)], node)
    if isinstance(node, ast.Expr):
        return N("Expr", "", [T(node.value)], node)
    if isinstance(node, ast.Assign) and len(node.targets) == 1 and node.type_comment is None:
        return N("Assign", "", [T(node.targets[0]), T(node.value)], node)
    if isinstance(node, ast.AugAssign):
        return N("AugAssign", BINOPS[type(node.op)], [T(node.target), T(node.value)], node)
    if isinstance(node, ast.Return):
        return N("Return", "", [T(node.value)] if node.value is not None else [], node)
    if isinstance(node, ast.Pass):
        return N("Pass", "", [], node)
    if isinstance(node, ast.If):
        return N("If", "", [T(node.test), T(node.body), T(node.orelse)], node)
    if isinstance(node, ast.While) and not node.orelse:
        return N("While", "", [T(node.test), T(node.body)], node)
    if isinstance(node, ast.FunctionDef) and _simple_args(node.args, 0) and not node.decorator_list \
            and node.returns is None and not getattr(node, "type_params", None):
        return N("Def", node.name, [T(node.body)], node)
    # generic fallback
    label = []
    children = []
    for f, v in ast.iter_fields(node):
        if isinstance(v, ast.AST):
            if not isinstance(v, (ast.expr_context, ast.operator, ast.unaryop, ast.boolop, ast.cmpop)):
                children.append(T(v))
            else:
                label.append("%s=%s" % (f, type(v).__name__))
        elif isinstance(v, list):
            if v and all(isinstance(x, ast.stmt) for x in v):
                children.append(T(v))
            else:
                for x in v:
                    if isinstance(x, ast.AST):
                        if isinstance(x, (ast.cmpop,)):
                            label.append("%s=%s" % (f, type(x).__name__))
                        else:
                            children.append(T(x))
                    else:
                        label.append("%s=%r" % (f, x))
        elif f not in ("lineno", "col_offset", "end_lineno", "end_col_offset", "kind", "type_comment"):
            label.append("%s=%r" % (f, v))
    return N("?" + type(node).__name__, ";".join(label), children, node)


def _simple_args(a, maxargs):
    return (not a.posonlyargs and not a.kwonlyargs and a.vararg is None and a.kwarg is None
            and not a.defaults and len(a.args) <= maxargs and all(x.annotation is None for x in a.args))


def at(tree, path):
    for i in path:
        tree = tree["c"][i - 1]
    return tree


def parse_tree(text):
    return to_tree(ast.parse(text))


def parse_pattern_tree(text, as_block=False):
    """Pattern / goal text -> spec tree the way the restructuring API reads it:
    a single expression statement is an expression pattern (as_block: the goal
    of a statement pattern is always a statement list)."""
    mod = ast.parse(unwild(text))
    if not as_block and len(mod.body) == 1 and isinstance(mod.body[0], ast.Expr):
        return to_tree(mod.body[0].value)
    return to_tree(mod.body)


# ---------------------------------------------------------------- positions
class Offsets:
    """(lineno, utf-8 column) -> character offset in the text."""

    def __init__(self, text):
        self.text = text
        self.starts = [0]
        lines = text.split("\n")          # the tokenizer's lines (form feeds etc. do not end a line)
        for line in lines:
            self.starts.append(self.starts[-1] + len(line) + 1)
        self.ascii = text.isascii()
        self.lines = None if self.ascii else lines

    def off(self, lineno, col):
        if self.ascii:
            return self.starts[lineno - 1] + col
        line = self.lines[lineno - 1] if lineno - 1 < len(self.lines) else ""
        return self.starts[lineno - 1] + len(line.encode("utf-8")[:col].decode("utf-8", "replace"))

    def span(self, node):
        """CPython's extent of an ast node as character offsets, or None."""
        if getattr(node, "lineno", None) is None or getattr(node, "end_lineno", None) is None:
            return None
        return (self.off(node.lineno, node.col_offset), self.off(node.end_lineno, node.end_col_offset))


def tree_span(offsets, t):
    """Extent of a spec tree node: a Block spans its first to its last statement."""
    n = t["n"]
    if isinstance(n, list):
        if not n:
            return None
        return (offsets.span(n[0])[0], offsets.span(n[-1])[1])
    return offsets.span(n)


# ---------------------------------------------------------------- generic tree (C08)
# Spec kinds that stand for the same interpreter class
KIND_ALIAS = {"Str2": "Str", "vararg": "arg", "kwarg": "arg", "aliasas": "alias", "Global2": "Global",
              "Def": "FunctionDef", "Kw": "keyword"}
VIRTUAL = {"Block", "decorator", "returns"}          # no node in the interpreter's tree
_SKIP = (ast.expr_context, ast.operator, ast.unaryop, ast.boolop, ast.cmpop)


def _pos(n):
    """Sort key: source position of a node (of its first positioned descendant)."""
    if isinstance(n, dict):
        n = n["n"]
    if isinstance(n, list):
        return _pos(n[0]) if n else (1 << 30, 0)
    if getattr(n, "lineno", None) is not None:
        return (n.lineno, n.col_offset)
    for c in ast.iter_child_nodes(n):
        if not isinstance(c, _SKIP):
            p = _pos(c)
            if p[0] < (1 << 30):
                return p
    return (1 << 30, 0)


def to_gtree(node):
    """CPython ast -> {k, v, c, n} with children in source order, statement lists
    as Block nodes, decorators / return annotations wrapped in virtual nodes, the
    way spec/PyLayout.tla shapes its trees."""
    G = to_gtree
    if isinstance(node, list):
        return N("Block", "", [G(s) for s in node], node)
    if isinstance(node, ast.Module):
        return N("Block", "", [G(s) for s in node.body], node.body)
    k = type(node).__name__
    v = ""
    if isinstance(node, ast.Constant):
        val = node.value
        if isinstance(val, bool) or val is None or val is Ellipsis:
            k = "Const"
        elif isinstance(val, (int, float, complex)):
            k = "Num"
        else:
            k = "Str"
        return N(k, repr(val), [], node)
    if isinstance(node, ast.Name):
        return N(k, node.id, [], node)
    if isinstance(node, ast.arg):
        return N(k, node.arg, [G(node.annotation)] if node.annotation is not None else [], node)
    if isinstance(node, ast.Attribute):
        return N(k, node.attr, [G(node.value)], node)
    if isinstance(node, ast.keyword):
        return N(k, node.arg or "", [G(node.value)], node)
    if isinstance(node, ast.alias):
        return N(k, node.name, [], node)
    if isinstance(node, (ast.FunctionDef, ast.AsyncFunctionDef, ast.ClassDef)):
        c = [N("decorator", "", [G(d)], d) for d in node.decorator_list]
        if isinstance(node, ast.ClassDef):
            c += sorted([G(x) for x in list(node.bases) + list(node.keywords)], key=_pos)
        else:
            a = G(node.args)
            if a["c"]:
                c.append(a)
            if node.returns is not None:
                c.append(N("returns", "", [G(node.returns)], node.returns))
        c.append(G(node.body))
        if getattr(node, "type_params", None):
            k = "?" + k
        return N(k, node.name, c, node)
    if isinstance(node, ast.Lambda):
        a = G(node.args)
        return N(k, "", ([a] if a["c"] else []) + [G(node.body)], node)
    if isinstance(node, ast.arguments):
        items = list(node.posonlyargs) + list(node.args) + list(node.kwonlyargs) + list(node.defaults) + \
            [d for d in node.kw_defaults if d is not None]
        if node.vararg is not None:
            items.append(node.vararg)
        if node.kwarg is not None:
            items.append(node.kwarg)
        return N(k, "", sorted([G(x) for x in items], key=_pos), node)
    if isinstance(node, ast.Call):
        return N(k, "", [G(node.func)] + sorted([G(x) for x in list(node.args) + list(node.keywords)], key=_pos), node)
    if isinstance(node, ast.Dict):
        c = []
        for key, val in zip(node.keys, node.values):
            if key is not None:
                c.append(G(key))
            c.append(G(val))
        return N(k, "" if all(x is not None for x in node.keys) else "**", c, node)
    if isinstance(node, ast.If):
        return N(k, "", [G(node.test), G(node.body), G(node.orelse)], node)
    if isinstance(node, ast.IfExp):
        return N(k, "", [G(node.body), G(node.test), G(node.orelse)], node)
    if isinstance(node, (ast.While,)):
        return N(k, "", [G(node.test), G(node.body)] + ([G(node.orelse)] if node.orelse else []), node)
    if isinstance(node, (ast.For, ast.AsyncFor)):
        return N(k, "", [G(node.target), G(node.iter), G(node.body)] + ([G(node.orelse)] if node.orelse else []), node)
    if isinstance(node, (ast.With, ast.AsyncWith)):
        return N(k, "", [G(i) for i in node.items] + [G(node.body)], node)
    if isinstance(node, ast.Try) or type(node).__name__ == "TryStar":
        c = [G(node.body)] + [G(h) for h in node.handlers]
        if node.orelse:
            c.append(G(node.orelse))
        if node.finalbody:
            c.append(G(node.finalbody))
        v = "+".join(n for n, on in (("else", node.orelse), ("finally", node.finalbody)) if on)
        return N(k, v, c, node)
    if isinstance(node, ast.ExceptHandler):
        return N(k, node.name or "", ([G(node.type)] if node.type is not None else []) + [G(node.body)], node)
    if isinstance(node, ast.JoinedStr):
        return N(k, "", [G(x) for x in node.values if isinstance(x, ast.FormattedValue)], node)
    if isinstance(node, ast.FormattedValue):
        c = [G(node.value)]
        if node.format_spec is not None:
            c.append(G(node.format_spec))
        return N(k, "", c, node)
    if isinstance(node, ast.Compare):
        v = ",".join(CMPOPS[type(o)] for o in node.ops)
    elif isinstance(node, ast.BinOp) or isinstance(node, ast.AugAssign):
        v = BINOPS[type(node.op)]
    elif isinstance(node, ast.UnaryOp):
        v = UNOPS[type(node.op)]
    elif isinstance(node, ast.BoolOp):
        v = BOOLOPS[type(node.op)]
    elif isinstance(node, ast.Slice):
        v = ("l" if node.lower is not None else "") + ("u" if node.upper is not None else "") + \
            ("s" if node.step is not None else "")
    elif isinstance(node, ast.MatchAs) and node.pattern is None:
        v = node.name or ""
    c = []
    for f in node._fields:
        val = getattr(node, f, None)
        if isinstance(val, ast.AST):
            if not isinstance(val, _SKIP):
                c.append(G(val))
        elif isinstance(val, list) and val:
            if all(isinstance(x, ast.stmt) for x in val):
                c.append(G(val))
            else:
                c.extend(G(x) for x in val if isinstance(x, ast.AST) and not isinstance(x, _SKIP))
    return N(k, v, c, node)


LABELLED = {"Name", "Attribute", "arg", "FunctionDef", "ClassDef", "keyword", "BinOp", "UnaryOp", "BoolOp",
            "Compare", "AugAssign", "Slice", "ExceptHandler", "Try"}


def shape_diff(spec, g, path=()):
    """First difference between a spec tree and a generic CPython tree, or None."""
    sk = KIND_ALIAS.get(spec["k"], spec["k"])
    if sk != g["k"]:
        return "%s: spec %s, CPython %s" % (list(path), spec["k"], g["k"])
    if sk in LABELLED and spec["v"] != g["v"]:
        return "%s: %s label spec %r, CPython %r" % (list(path), sk, spec["v"], g["v"])
    if sk in ("Num", "Str", "Const"):
        try:
            sv = spec["v"] if spec["k"] != "Str2" else spec["v"] + " \"b\""
            if repr(ast.literal_eval(sv)) != g["v"]:
                return "%s: literal spec %r, CPython %r" % (list(path), spec["v"], g["v"])
        except (ValueError, SyntaxError):
            return "%s: literal %r does not evaluate" % (list(path), spec["v"])
    if len(spec["c"]) != len(g["c"]):
        return "%s: %s has %d children in spec, %d in CPython" % (list(path), sk, len(spec["c"]), len(g["c"]))
    for i, (a, b) in enumerate(zip(spec["c"], g["c"]), 1):
        d = shape_diff(a, b, path + (i,))
        if d:
            return d
    return None


def walk(t, path=()):
    yield path, t
    for i, c in enumerate(t["c"], 1):
        yield from walk(c, path + (i,))


# ---------------------------------------------------------------- layout rendering (C08)
def _tight_needs_space(prev, s):
    a, b = prev[-1], s[0]
    if (a.isalnum() or a in "_'\"") and (b.isalnum() or b in "_'\""):
        return True
    if a == "." and prev[0].isdigit() and (b.isalnum() or b == "_"):
        return True          # 1.if would lex as a malformed number
    if a == "." and b == "." and not (prev == "..." or s == "..."):
        return False
    return False


ODD_CHARS = {"<ff>": "\x0c", "<vt>": "\x0b", "<fs>": "\x1c", "<nel>": "\x85", "<ls>": "\u2028"}


def _odd_chars(text):
    for name, ch in ODD_CHARS.items():
        text = text.replace(name, "x" + ch + "y")
    return text


def render_layout(tokens, gaps, style, indent="    ", cont="      "):
    """Tokens + layout decisions of spec/PyLayout.tla -> (text, [(start, end) per token]).

    gaps: list of {"at": g, "kind": ..., "txt": ...}; gap g is the separator before
    token g (1-based), g = len(tokens) + 1 is the end of the text.
    """
    deco = {g["at"]: dict(g, txt=_odd_chars(g.get("txt", ""))) for g in gaps}
    out = []
    pos = 0
    spans = []
    prev = None
    first_line = True

    def emit(s):
        nonlocal pos
        out.append(s)
        pos += len(s)

    def line_end_deco(g):
        d = deco.get(g)
        if d is None:
            return
        if d["kind"] == "cmt":
            emit("  # " + d["txt"])
        elif d["kind"] == "cmtline":
            emit("\n" + "  # " + d["txt"])
        elif d["kind"] == "blank":
            emit("\n")
        elif d["kind"] == "ffline":
            emit("\n\x0c")

    for i, (s, d) in enumerate(tokens, 1):
        if d >= 0:
            if not first_line:
                line_end_deco(i)
                emit("\n")
            first_line = False
            emit(indent * d)
            spans.append((pos, pos))
            prev = None
            continue
        if d == -2:
            emit("\n" + cont)
            spans.append((pos, pos))
            prev = None
            continue
        g = deco.get(i)
        if prev is None or d == -3:
            sep = ""
        elif style == "tight":
            sep = " " if _tight_needs_space(prev, s) else ""
        elif style == "wide":
            sep = "  "
        else:
            sep = _sep(prev, s)
        if g is not None and prev is not None and d != -3:
            if g["kind"] == "cmt":
                sep = "  # " + g["txt"] + "\n" + cont
            elif g["kind"] == "nl":
                sep = "\n" + cont
            elif g["kind"] == "cont":
                sep = " \\\n" + cont
        emit(sep)
        spans.append((pos, pos + len(s)))
        emit(s)
        prev = s
    line_end_deco(len(tokens) + 1)
    emit("\n")
    return "".join(out), spans


# ---------------------------------------------------------------- watchdog
import signal as _signal


class Hang(Exception):
    """The code under test did not return in time."""


def _on_alarm(signum, frame):
    raise Hang()


def with_timeout(seconds, fn, *args, **kw):
    """fn(*args) in the calling (main) thread, raising Hang after `seconds` of CPU time of this
    process (not wall time: on a loaded machine a stalled worker is not a hanging library)."""
    old = _signal.signal(_signal.SIGPROF, _on_alarm)
    _signal.setitimer(_signal.ITIMER_PROF, seconds)
    try:
        return fn(*args, **kw)
    finally:
        _signal.setitimer(_signal.ITIMER_PROF, 0)
        _signal.signal(_signal.SIGPROF, old)


# ---------------------------------------------------------------- streaming replay
def stream_map(fn, producer, chunk=100, nproc=None, maxq=4000):
    """Like engine.replay.pool_map, for behaviours that arrive while TLC is still
    running: `producer(put)` is run in a thread and calls put(item) for every
    item (blocking when the workers lag behind, so memory stays bounded);
    results are yielded as they come."""
    import multiprocessing as mp
    import queue
    import threading
    from engine import replay

    q = queue.Queue(maxsize=maxq)
    done = object()
    err = []

    def run():
        try:
            producer(q.put)
        except BaseException as e:  # noqa - reported by the consumer
            err.append(e)
        finally:
            q.put(done)

    th = threading.Thread(target=run, daemon=True)

    def chunks():
        buf = []
        while True:
            item = q.get()
            if item is done:
                break
            buf.append(item)
            if len(buf) >= chunk:
                yield (fn, buf)
                buf = []
        if buf:
            yield (fn, buf)

    ctx = mp.get_context("fork")
    with ctx.Pool(nproc or replay.NPROC) as pool:    # fork before the reader thread exists
        th.start()
        for res in pool.imap_unordered(replay._run_chunk, chunks()):
            for r in res:
                yield r
    th.join()
    if err:
        raise err[0]
