"""C06 - signature changes keep every call bound to the same parameter values.

TLC explores spec/PyCalls.tla with Task = "sig": every signature (<= 3 named parameters with
trailing defaults, *args / **kw flags) x every legal sequence of <= MaxChangers changer requests
(normalize, reorder(+autodef), add(default/value), remove, remove *args/**kw, inline_default,
introduce-parameter), applied to EVERY call shape the signature accepts (<= 3 supplied
arguments).  TLC checks BindPreserved / StillAccepted / ExplicitPassed / SurvivorsKeep on the model
and prints one behaviour per state.  Each behaviour is replayed on a real rope project: the
signature is rendered as a function / method / constructor / classmethod / staticmethod whose body
prints its locals(), every call shape is a call site (defining module + an importing module),
ChangeSignature(...).get_changes(changers) (or IntroduceParameter) is performed with the offset
on the definition or on a call site, and the program is run before and after.  Expected
bindings and the expected new signature come from the TLC export; CPython cross-checks the
spec's Binding / Accepts on every behaviour (exit 2 on disagreement).
"""
import json
import os
import re
import sys

from engine import common, tlc, replay, runpy
from bind import _pycalls as pc

PROP = "C06"
INVARIANTS = ["SigWellFormed", "StillAccepted", "BindPreserved", "ExplicitPassed", "SurvivorsKeep",
              "DiscardedLeavesNoTrace", "AddedGetSupplied"]


def constants(kinds, max_changers, max_params=3, ko="NoKo", previews=0):
    return {"Mods": tlc.Sub("TwoMods"), "Imps": tlc.Sub("NoImp"), "Ctxs": tlc.Sub("AllCtxs"),
            "Furniture": tlc.Sub("AllFurniture"),
            "MaxRecv": 3, "MaxPreviews": previews, "PreviewKinds": tlc.Sub("AllPreviews" if previews else "NoPreview"),"MaxParams": max_params, "MaxArgs": 3, "Kinds": tlc.Sub(kinds), "Stars": True, "KoSet": tlc.Sub(ko),
            "MaxChangers": max_changers, "Task": "sig", "MaxSites": 1,
            "Uses": tlc.Sub("PlainOnly"), "Cxs": tlc.Sub("NoCx"), "Hosts": tlc.Sub("NoHost"), "Dups": tlc.Sub("NoDup")}


def canon(beh):
    """deterministic site order (TLC prints sets in its own order)"""
    beh["sites"].sort(key=lambda s: (len(s["c0"]["pos"]) + len(s["c0"]["kws"]),
                                     json.dumps(s["c0"], sort_keys=True)))
    return beh


# ------------------------------------------------------------------ act
def make_changers(cs_mod, beh, sig0, off):
    """spec changer requests -> rope changer objects (indices shifted by the implicit
    first parameter).  The signature is tracked only to place *args / **kw indices."""
    out = []
    n = len(sig0["ps"])
    va = sig0["va"]
    for c in beh["chg"]:
        op = c["op"]
        if op == "normalize":
            out.append(cs_mod.ArgumentNormalizer())
        elif op == "reorder":
            order = list(range(off)) + [p - 1 + off for p in c["perm"]]
            out.append(cs_mod.ArgumentReorderer(order, autodef=str(30) if c["auto"] else None))
        elif op == "add":
            out.append(cs_mod.ArgumentAdder(c["i"] + off, c.get("nm") or "n", str(c["d"]) if c["d"] else None,
                                            str(c["v"]) if c["v"] else None))
            n += 1
        elif op == "remove":
            out.append(cs_mod.ArgumentRemover(c["i"] - 1 + off))
            n -= 1
        elif op == "remove_va":
            out.append(cs_mod.ArgumentRemover(n + off))
            va = False
        elif op == "remove_kw":
            out.append(cs_mod.ArgumentRemover(n + off + (1 if va else 0)))
        elif op == "inline_default":
            out.append(cs_mod.ArgumentDefaultInliner(c["i"] - 1 + off))
        else:
            raise ValueError(op)
    return out


def offset_for(files, info, kind, at):
    """(path, offset) of the request: the definition's name or the callee name of a site"""
    if at == "def":
        src = files["m.py"]
        return "m.py", src.index("def " + pc.fname(kind) + "(") + 4
    path, marker = info[at]
    src = files[path]
    line_end = src.index(marker)
    line_start = src.rfind("\n", 0, line_end) + 1
    paren = src.index("(", line_start)
    return path, paren - 1          # last character of the callee name (f / C)


def run_behaviour(item):
    beh, kind, at = item[:3]
    furniture = item[3] if len(item) > 3 else "none"
    common.use_repo()
    from rope.base import project as project_mod, exceptions
    from rope.refactor import change_signature as cs_mod, introduce_parameter as ip_mod

    sig0, sig1 = beh["sig0"], beh["sig1"]
    sites = beh["sites"]
    calls0 = [s["c0"] for s in sites]
    res = {"beh": beh, "kind": kind, "at": at, "furniture": furniture, "fails": [], "outcome": None}
    # ---- spec vs CPython on the binding rule (before and after, spec's own calls)
    bad = pc.flat_check(sig0, calls0, [s["b0"] for s in sites])
    if bad is None:
        bad = pc.flat_check(sig1, [s["c1"] for s in sites], [s["exp"] for s in sites])
    if bad:
        return {"machinery": "spec vs CPython: " + bad, "item": [beh["chg"], sig0]}
    files, info = pc.render_sig_program(kind, sig0, calls0, furniture)
    root = common.scratch("c06_")
    try:
        for p, s in files.items():
            with open(os.path.join(root, p), "w") as f:
                f.write(s)
        out0, exc0 = pc.run_entry(root, "n.py")
        want0 = [(pc.binding_obj(s["b0"], sig0, k, kind), pc.INTRO_VALUE) for k, s in enumerate(sites)]
        if exc0 or pc.parse_output_lines(out0) != want0:
            return {"machinery": "rendered program does not print the spec's bindings: exc=%s\n%s\n%s" % (
                exc0, out0[:600], files["m.py"] + files["n.py"]), "item": [beh["chg"], sig0, kind]}
        project = project_mod.Project(root, ropefolder=None)
        try:
            off = 1 if pc.IMPLICIT[kind] else 0
            via_param = isinstance(at, (list, tuple)) and at[0] == "param"
            if not via_param:
                path, offset = offset_for(files, info, kind, at)
            exc = None

            def intro_changes():
                m = files["m.py"]
                goff = m.index("_show(locals(), G)") + len("_show(locals(), ")
                return ip_mod.IntroduceParameter(project, project.get_file("m.py"), goff).get_changes("p")

            def compute():
                if via_param:
                    # C04: InlineParameter through create_inline on the parameter in the header
                    from rope.refactor import inline as inline_mod
                    m = files["m.py"]
                    h0 = m.index("def " + pc.fname(kind) + "(")
                    poff = m.index(at[1] + "=", h0)
                    return inline_mod.create_inline(project, project.get_file("m.py"), poff).get_changes()
                if beh["chg"][0]["op"] == "intro":
                    return intro_changes()
                changers = make_changers(cs_mod, beh, sig0, off)
                return cs_mod.ChangeSignature(project, project.get_file(path), offset).get_changes(changers)

            try:
                # requests that are computed and thrown away first (spec action Discard): they must
                # leave no trace, and the same request computed twice must give the same changes
                first_same = None
                for kind_p in beh.get("pre", []):
                    try:
                        discarded = intro_changes() if kind_p == "intro" else compute()
                    except exceptions.RopeError:
                        discarded = None
                    if kind_p == "same" and discarded is not None:
                        first_same = discarded.get_description()
                    del discarded
                if beh.get("pre") and {p: open(os.path.join(root, p)).read() for p in files} != files:
                    res["fails"].append("DiscardedLeavesNoTrace")
                changes = compute()
                if first_same is not None and changes.get_description() != first_same:
                    res["fails"].append("PreviewRepeatable")
                project.do(changes)
            except exceptions.RopeError as e:
                res["outcome"] = "refused"
                res["refusal"] = "%s: %s" % (type(e).__name__, str(e)[:120])
                after = {p: open(os.path.join(root, p)).read() for p in files}
                if after != files:
                    res["fails"].append("RefusalLeftChanges")
                return res
            except Exception as e:  # noqa - an internal error on a legal request
                exc = e
            after = {p: open(os.path.join(root, p)).read() for p in files}
            res["after"] = after
            if exc is not None:
                res["outcome"] = "error"
                res["fails"].append("InternalError")
                res["exc"] = "%s: %s" % (type(exc).__name__, str(exc)[:160])
                return res
            res["outcome"] = "changed" if after != files else "noop"
            judge(res, beh, kind, sig1, sites, info, after, root)
            return res
        finally:
            project.close()
    finally:
        common.rmtree(root)


def judge(res, beh, kind, sig1, sites, info, after, root):
    fails = res["fails"]
    detail = res.setdefault("detail", {})
    # (1) every module still compiles
    for p, s in after.items():
        try:
            compile(s, p, "exec")
        except SyntaxError as e:
            fails.append("Parses")
            detail["syntax"] = "%s: %s" % (p, e)
            detail["bad_sites"] = []
            fd = None
            return
    # (2) the new signature is the requested one
    fdef = pc.find_def(after["m.py"], kind)
    got_sig = pc.abstract_sig(fdef, kind) if fdef is not None else None
    is_intro = beh["chg"][0]["op"] == "intro"
    want_sig = {"ps": [dict(p) for p in sig1["ps"]], "va": sig1["va"], "kw": sig1["kw"], "ko": sig1["ko"],
                "odd": []}
    if is_intro and got_sig is not None:
        # only: p is a parameter whose default is the expression; the others are untouched
        gp = [p for p in got_sig["ps"] if p["n"] == "p"]
        ok = len(gp) == 1 and gp[0]["d"] == "G"
        rest_got = dict(got_sig, ps=[p for p in got_sig["ps"] if p["n"] != "p"], odd=[])
        rest_want = dict(want_sig, ps=[p for p in want_sig["ps"] if p["n"] != "p"])
        if not ok or rest_got != rest_want:
            fails.append("SigStructure")
    elif got_sig != want_sig:
        fails.append("SigStructure")
    detail["sig_got"] = got_sig
    # (3) running prints, at every site, the bindings the spec expects
    out1, exc1 = pc.run_entry(root, "n.py")
    want1 = [(pc.binding_obj(s["exp"], sig1, k, kind), pc.INTRO_VALUE) for k, s in enumerate(sites)]
    got1 = pc.parse_output_lines(out1)
    if exc1 or got1 != want1:
        fails.append("BindPreserved")
        detail["exc_after"] = exc1
        # sites that printed something else, plus - if the run died - the site that raised (the
        # ones after it never ran and say nothing)
        bad = [k for k in range(min(len(sites), len(got1))) if got1[k] != want1[k]]
        if len(got1) < len(sites):
            bad.append(len(got1))
        detail["bad_sites"] = bad[:200]
        detail["first_bad"] = None if not bad else {
            "site": bad[0], "c0": sites[bad[0]]["c0"], "want": repr(want1[bad[0]]),
            "got": repr(got1[bad[0]]) if bad[0] < len(got1) else None}
    # (4) parameters that must be passed by the site itself are
    if fdef is not None and "BindPreserved" not in fails:
        names = [p["n"] for p in (got_sig or {"ps": []})["ps"]]
        lacking = []
        for k, s in enumerate(sites):
            path, marker = info[k]
            node = pc.site_call(after[path], marker)
            if node is None:
                lacking.append(k)
                continue
            unbound = kind == "method" and getattr(node.func, "value", None) is not None and \
                getattr(node.func.value, "id", "") == "C"
            have = pc.explicit_names(node, names, kind, unbound)
            if not set(s["expl"]) <= have:
                lacking.append(k)
        if lacking:
            fails.append("ExplicitPassed")
            detail["lacking_sites"] = lacking[:50]


# ------------------------------------------------------------------ failure keys
def beh_kind_implicit(r):
    return pc.IMPLICIT[r["kind"]]


def shifted_defaults(header, sig1, implicit):
    """the (unparsable) header names the expected parameters in the expected order but with
    other defaults"""
    m = re.search(r"\((.*)\)\s*:", header)
    if not m:
        return False
    items = [x.strip() for x in m.group(1).split(",") if x.strip()]
    if implicit and items and items[0] == implicit:
        items = items[1:]
    items = [x for x in items if not x.startswith("*")]
    got = [(x.split("=")[0].strip(), x.split("=")[1].strip() if "=" in x else "0") for x in items]
    want = [(p["n"], str(p["d"])) for p in sig1["ps"]]
    return [g[0] for g in got] == [w[0] for w in want] and got != want


def features(beh, r):
    """shrunk description of the failing input: which clause fails, for which shape of signature /
    changer / class of call sites, and - where the symptom is recognisable - its cause."""
    sig0, sig1 = beh["sig0"], beh["sig1"]
    ops = [c["op"] for c in beh["chg"]]
    d = r.get("detail", {})
    bad = d.get("bad_sites") or []
    sites = beh["sites"]
    n0 = len(sig0["ps"])
    has_default = any(p["d"] for p in sig0["ps"])
    clauses = sorted(r["fails"])
    all_bad_have_extras = bool(bad) and all(len(sites[k]["c0"]["pos"]) > n0 for k in bad)
    adds_default_only = any(c["op"] in ("add", "intro") and c["v"] == 0 for c in beh["chg"])
    cause = None
    header = ""
    after = r.get("after") or {}
    for line in after.get("m.py", "").splitlines():
        if line.lstrip().startswith("def %s(" % pc.fname(r["kind"])):
            header = line
            break
    got = d.get("sig_got")
    if sig0.get("ko") and "Parses" in clauses and re.search(r"\*\s*\)", header):
        cause = "keyword-only-parameter-dropped"
    elif sig0.get("ko") == 1 and has_default and clauses == ["InternalError"] and \
            (r.get("exc") or "").startswith("AttributeError: 'NoneType' object has no attribute 'lineno'"):
        cause = "keyword-only-required-parameter-crash"
    elif sig0["va"] and has_default and "Parses" in clauses and re.search(r"\*args\s*=", header):
        cause = "default-attached-to-star-args"
    elif sig0["va"] and has_default and clauses == ["Parses"] and "remove_va" in ops and \
            shifted_defaults(header, sig1, beh_kind_implicit(r)):
        cause = "defaults-shifted-with-star-args"
    elif sig0["va"] and has_default and got and "SigStructure" in clauses and \
            [p["n"] for p in got["ps"]] == [p["n"] for p in sig1["ps"]] and \
            any(g["d"] != w["d"] for g, w in zip(got["ps"], sig1["ps"])):
        cause = "defaults-shifted-with-star-args"
    elif sig0["va"] and adds_default_only and clauses == ["BindPreserved"] and all_bad_have_extras:
        cause = "extra-positionals-shift-into-new-defaulted-parameter"
    key = {"clauses": clauses, "cause": cause}
    if any(c["op"] == "add" and c.get("nm") not in ("", "n", None) for c in beh["chg"]):
        key["readds_removed_name"] = True
    if beh.get("pre"):
        key["discarded_before"] = list(beh["pre"])
    if cause is None:
        def cls(s):
            c = s["c0"]
            t = []
            if len(c["pos"]) > n0:
                t.append("extra-positional")
            if any(k["k"] in ("x", "y") for k in c["kws"]):
                t.append("extra-keyword")
            if len(c["pos"]) < n0 and c["kws"]:
                t.append("keyword")
            return t
        key.update({
            "ops": ops, "star_args": sig0["va"], "star_kw": sig0["kw"], "has_default": has_default,
            "kwonly": sig0.get("ko", 0),
            "kind": r["kind"], "furniture": r.get("furniture"),
            "bad_site_classes": sorted({x for k in bad for x in cls(sites[k])}) if bad else [],
            "exc": (r.get("exc") or "").split(":")[0] or None,
        })
    return key


def key_of(beh, r):
    return features(beh, r)


# ------------------------------------------------------------------ main
def parallel(thunks):
    """run independent TLC jobs (separate JVMs) side by side"""
    from concurrent.futures import ThreadPoolExecutor
    with ThreadPoolExecutor(len(thunks)) as ex:
        return [f.result() for f in [ex.submit(t) for t in thunks]]


def tlc_export(verdict, kinds, max_changers, max_params, coverage=False, label="", ko="NoKo", previews=0):
    cfg = os.path.join(common.SCRATCH_BASE, "c06_%d_%s.cfg" % (os.getpid(), common.digest([kinds, max_changers, max_params, ko, previews])))
    tlc.write_cfg(cfg, constants=constants(kinds, max_changers, max_params, ko, previews),
                  invariants=INVARIANTS + ["ExportSig"])
    behs = []
    res = tlc.run("MC_PyCalls", cfg, on_tagged=lambda t, v: behs.append(v), collect_tags=False,
                  coverage=coverage)
    os.unlink(cfg)
    print("TLC PyCalls[sig %s kinds=%s changers<=%d params<=%d]:" % (label, kinds, max_changers, max_params),
          res.summary(), "behaviours", len(behs))
    if not res.ok:
        if res.violated:
            verdict.machinery_failure("TLC: invariant %s violated on the model (oracle inconsistent)\n%s" % (
                res.violated, res.trace[-1500:]))
        else:
            verdict.machinery_failure("TLC: %s\n%s" % (res.error, res.tail[-800:]))
    return res, behs


def main(tier):
    timer = common.Timer()
    verdict = common.Verdict(PROP)
    rnd = common.rng("c06")
    if tier == "quick":
        (r1, b1), (r2, b2), (r3, b3) = parallel([
            lambda: tlc_export(verdict, "AllKinds", 1, 3, coverage=True, label="A +discarded previews", previews=1),
            lambda: tlc_export(verdict, "AllKinds", 2, 2, label="B"),
            lambda: tlc_export(verdict, "AllKinds", 1, 1, label="K keyword-only tail", ko="KoOnly")])
        runs = [r1, r2, r3]
        b2 = [b for b in b2 if len(b["chg"]) == 2]
    else:
        (r1, b1), (r3, b3), (r4, b4) = parallel([
            lambda: tlc_export(verdict, "AllKinds", 2, 3, coverage=True, label="A"),
            lambda: tlc_export(verdict, "AllKinds", 1, 3, label="K keyword-only tail", ko="KoOnly"),
            lambda: tlc_export(verdict, "AllKinds", 1, 3, label="P discarded previews", previews=1)])
        runs = [r1, r3, r4]
        b1 += [b for b in b4 if b["pre"]]
        b2 = []
    if verdict.machinery:
        return verdict.finish()
    # vacuity guard: every changer of the model was taken (seen in the exported states)
    seen_ops = {}
    for b in b1 + b2:
        for c in b["chg"]:
            seen_ops[c["op"]] = seen_ops.get(c["op"], 0) + 1
    for op in ("normalize", "reorder", "add", "remove", "remove_va", "remove_kw", "inline_default", "intro"):
        if not seen_ops.get(op):
            verdict.machinery_failure("changer %s never taken by TLC" % op)
    for b in b1 + b2 + b3:
        canon(b)
    if not any(b["pre"] == ["intro"] for b in b1) or not any(b["pre"] == ["same"] for b in b1):
        verdict.machinery_failure("action Discard never taken by TLC")
    keyf = lambda b: json.dumps([b["sig0"], b["chg"], b["pre"]], sort_keys=True)  # noqa
    b1.sort(key=keyf)
    b2.sort(key=keyf)
    # kind is a rendering dimension carried by the behaviour (spec constant Kinds)
    expanded = []
    if tier == "quick":
        # every single-changer behaviour once with a seeded kind, a seeded sample of the pairs
        # pairs in which the second changer re-uses the name the first one removed are all replayed
        readd = [b for b in b2 if any(c["op"] == "add" and c["nm"] not in ("", "n") for c in b["chg"])]
        b2 = [b for b in b2 if b not in readd]
        rnd.shuffle(b2)
        for b in b1[:] + b2[:420]:
            expanded.append((b, rnd.choice(sorted(b["kinds"]))))
        rnd.shuffle(expanded)
        expanded = expanded[:820]
        for b in readd:
            expanded.append((b, rnd.choice(sorted(b["kinds"]))))
        if not readd:
            verdict.machinery_failure("no changer sequence that re-adds a removed parameter name")
        # feature pass: signatures with a keyword-only tail (every request on them fails on pinned rope)
        b3.sort(key=keyf)
        rnd.shuffle(b3)
        for b in b3[:100]:
            expanded.append((b, rnd.choice(sorted(b["kinds"]))))
    else:
        b3.sort(key=keyf)
        for b in b3:
            expanded.append((b, rnd.choice(sorted(b["kinds"]))))
        for b in b1:
            single = len(b["chg"]) == 1
            kinds = sorted(b["kinds"]) if single else [rnd.choice(sorted(b["kinds"]))]
            for k in kinds:
                expanded.append((b, k))
    items = []
    for b, kind in expanded:
        n = len(b["sites"])
        at = "def"
        if n and rnd.random() < 0.5 and b["chg"][0]["op"] != "intro":
            at = rnd.randrange(n)
        # what else the modules contain around the sites (spec constant Furniture)
        items.append((b, kind, at, rnd.choice(sorted(b["furniture"]))))
    total_from_tlc = len(b1) + len(b2) + len(b3)
    counts = {"changed": 0, "noop": 0, "refused": 0, "error": 0}
    by_op = {}
    nontrivial = set()
    samples = []
    replayed = 0
    sites_checked = 0
    for r in replay.pool_map(run_behaviour, items, chunk=20):
        replayed += 1
        if "machinery" in r:
            verdict.machinery_failure(r["machinery"][:1500])
            continue
        beh = r["beh"]
        counts[r["outcome"]] += 1
        sites_checked += len(beh["sites"])
        ops = "+".join(c["op"] for c in beh["chg"])
        by_op.setdefault(ops, {"n": 0, "failed": 0})["n"] += 1
        if r["outcome"] == "changed":
            nontrivial.add(common.digest([r["kind"], beh["sig0"], beh["chg"], beh["pre"]]))
        if len(samples) < 5 and r["outcome"] == "changed" and not r["fails"] and replayed % 11 == 0:
            samples.append({"kind": r["kind"], "signature": pc.sig_text(beh["sig0"], r["kind"]),
                            "changers": beh["chg"], "expected_signature": pc.sig_text(beh["sig1"], r["kind"]),
                            "rope_signature": r["detail"].get("sig_got"), "sites": len(beh["sites"]),
                            "offset_at": r["at"]})
        if r["fails"]:
            by_op[ops]["failed"] += 1
            key = key_of(beh, r)
            verdict.failure(key, {"property": PROP, "key": key, "kind": r["kind"],
                                  "signature": pc.sig_text(beh["sig0"], r["kind"]),
                                  "changers": beh["chg"], "expected_signature": pc.sig_text(beh["sig1"], r["kind"]),
                                  "discarded_before": beh.get("pre"), "at": r["at"], "outcome": r["outcome"], "exc": r.get("exc"),
                                  "detail": r.get("detail"), "after": r.get("after"),
                                  "before": pc.render_sig_program(r["kind"], beh["sig0"],
                                                                  [s["c0"] for s in beh["sites"]],
                                                                  r.get("furniture", "none"))[0]})
    if replayed and counts["changed"] < replayed * 0.3:
        verdict.machinery_failure("vacuous: only %d of %d replays changed anything (%s)" % (
            counts["changed"], replayed, counts))
    if not samples and b1:
        b = b1[0]
        samples.append({"signature": pc.sig_text(b["sig0"], "function"), "changers": b["chg"]})
    code = verdict.finish()
    common.write_evidence(PROP, tier, "model_checking", {
        "states": sum(r.distinct for r in runs), "transitions": sum(r.generated for r in runs),
        "traces_validated_against_impl": replayed,
        "samples": samples,
        "exhaustive": False,
        "behaviours_from_tlc": total_from_tlc,
        "changers_taken_by_tlc": seen_ops,
        "call_sites_checked": sites_checked,
        "outcomes": counts,
        "by_changer_sequence": by_op,
        "distinct_nontrivial": len(nontrivial),
        "rule": "one behaviour per TLC state reached by >= 1 changer (kind x signature x changer sequence), every "
                "accepted call shape of the signature is a call site of the rendered program; non-trivial = "
                "rope changed at least one file",
        "tlc": [r.summary() for r in runs],
        "known_finding_hits": verdict.known_hits,
    }, timer.s(), violations=len(verdict.violations), assumptions=[
        "argument values and defaults are integer literals (no side effects, no name capture)",
        "<= 3 named parameters, <= 3 supplied arguments per call, no keyword-only / positional-only "
        "parameters, no *seq / **map spreading at call sites",
        "the removed parameter is unused in the body (the body prints locals())",
    ])
    return code


if __name__ == "__main__":
    sys.exit(main(sys.argv[1] if len(sys.argv) > 1 else "quick"))
