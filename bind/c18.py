"""C18 - an interrupted save never leaves a project that cannot be opened.

1. TLC checks spec/RopePersist.tla: writer steps of _DataFiles.write_data for each
   data file in hook order, Crash after any step, Reopen; OpenNeverRaises /
   CompleteVersion / OldNeverLost hold for the writer the code uses ("atomic")
   and are refuted for the in-place writer (sensitivity).
2. Trace validation: the fs events (open-for-write, write, close, replace) of real
   Project.close() calls are recorded and checked by TLC against
   spec/TracePersist.tla: after every event no live data file may hold a content
   on which the real reader raises (reader tolerance is measured, not assumed).
3. Fault enumeration on the real code, driven by that same event list: for every
   event boundary and every byte prefix of every write, the save is cut there
   (a BaseException; afterwards every further fs operation of the dying process is
   suppressed), then a new Project is opened on the directory: opening, asking
   for the history, analysing a module, undoing, closing again must not raise and
   the lists must be the complete old, the complete new, or empty.
"""
import builtins
import json
import os
import shutil
import sys

from engine import common, tlc, replay

PROP = "C18"

MOD_SRC = '''def f(a, b):
    return a

class C:
    def m(self, x):
        return [x]

v = f(1, "s")
w = C().m((1, 2))
'''


class Crash(BaseException):
    pass


class Interposer:
    """Intercepts the fs operations of rope.base.project while a save runs."""

    def __init__(self, project_mod, ropedir):
        self.pm = project_mod
        self.ropedir = ropedir
        self.events = []          # recorded: dict(op, name, dst, n)
        self.crash_at = None      # (event index, byte offset) or None
        self.unwind = False       # True: the interruption propagates as an exception and clean-up code runs
        self.dead = False
        self.count = 0

    def _name(self, path):
        path = os.fspath(path)
        if os.path.dirname(os.path.abspath(path)) == os.path.abspath(self.ropedir):
            return os.path.basename(path)
        return path

    def _event(self, op, name, dst="", n=0):
        """returns byte offset to cut at (for writes) or raises Crash"""
        if self.dead and not self.unwind:
            raise Crash()
        idx = self.count
        self.count += 1
        self.events.append({"op": op, "name": name, "dst": dst, "n": n})
        if self.crash_at is not None and self.crash_at[0] == idx:
            self.dead = True
            if op == "write":
                return self.crash_at[1]
            raise Crash()
        return None

    def install(self):
        ip = self
        real_open = builtins.open

        class F:
            def __init__(self, f, name):
                self._f = f
                self._name = name

            def write(self, data):
                cut = ip._event("write", self._name, n=len(data))
                if cut is not None:
                    self._f.write(data[:cut])
                    self._f.flush()
                    raise Crash()
                r = self._f.write(data)
                self._f.flush()
                return r

            def flush(self):
                if not ip.dead or ip.unwind:
                    self._f.flush()

            def close(self):
                if self._f.closed:
                    return
                try:
                    if not ip.dead or ip.unwind:
                        ip._event("close", self._name)
                finally:
                    self._f.close()

            def __enter__(self):
                return self

            def __exit__(self, *a):
                self.close()
                return False

            def __getattr__(self, k):
                return getattr(self._f, k)

        def my_open(path, mode="r", *a, **kw):
            if any(c in mode for c in "wax+"):
                name = ip._name(path)
                ip._event("open", name)
                return F(real_open(path, mode, *a, **kw), name)
            return real_open(path, mode, *a, **kw)

        self._saved = {}
        self.pm.open = my_open
        # code outside rope.base.project (shutil.copyfile, pathlib, tempfile ...) that writes into the rope
        # folder goes through builtins.open; zero-copy shortcuts are switched off so that bytes pass write()
        import shutil as _sh

        def builtin_open(path, mode="r", *a, **kw):
            try:
                inside = isinstance(path, (str, bytes, os.PathLike)) and \
                    os.path.dirname(os.path.abspath(os.fspath(path))) == os.path.abspath(ip.ropedir)
            except Exception:
                inside = False
            if inside and any(c in mode for c in "wax+"):
                name = ip._name(path)
                ip._event("open", name)
                return F(real_open(path, mode, *a, **kw), name)
            return real_open(path, mode, *a, **kw)
        self._real_builtin_open = real_open
        builtins.open = builtin_open
        self._sh_flags = {k: getattr(_sh, k) for k in ("_USE_CP_SENDFILE", "_HAS_FCOPYFILE") if hasattr(_sh, k)}
        for k in self._sh_flags:
            setattr(_sh, k, False)
        for fn in ("replace", "rename"):
            real = getattr(os, fn)
            self._saved[fn] = real

            def wrapped(src, dst, *a, _real=real, **kw):
                ip._event("replace", ip._name(src), dst=ip._name(dst))
                return _real(src, dst, *a, **kw)
            setattr(os, fn, wrapped)
        for fn in ("remove", "unlink"):
            real = getattr(os, fn)
            self._saved[fn] = real

            def wrapped2(path, *a, _real=real, **kw):
                name = ip._name(path)
                if os.path.dirname(os.path.abspath(os.fspath(path))) == os.path.abspath(ip.ropedir):
                    ip._event("remove", name)
                return _real(path, *a, **kw)
            setattr(os, fn, wrapped2)

    def uninstall(self):
        import shutil as _sh
        builtins.open = self._real_builtin_open
        for k, v in self._sh_flags.items():
            setattr(_sh, k, v)
        if hasattr(self.pm, "open"):
            try:
                del self.pm.open
            except AttributeError:
                pass
        for fn, real in self._saved.items():
            setattr(os, fn, real)


def hist_data(project, change_mod):
    to_data = change_mod.ChangeToData()
    h = project.history
    return [[to_data(c) for c in h.undo_list], [to_data(c) for c in h.redo_list]]


def oi_data(project):
    db = project.pycore.object_info.objectdb.db
    return {path: {key: (dict(scope.call_info), dict(scope.per_name))
                   for key, scope in db._files[path].items()} for path in db._files}


def build_scenario(root, n, rnd_steps):
    """old saved state, then more work in memory. Returns the open project."""
    common.use_repo()
    from rope.base import project as project_mod, change as change_mod

    def opened():
        return project_mod.Project(root, save_history=True, save_objectdb=True)

    with open(os.path.join(root, "mod.py"), "w") as f:
        f.write(MOD_SRC)
    p = opened()
    if n % 4 != 3:     # scenario without an old version every 4th
        for k in range(1 + n % 3):
            cs = change_mod.ChangeSet("old %d" % k)
            cs.add_change(change_mod.ChangeContents(p.get_file("mod.py"), MOD_SRC + "# old %d\n" % k))
            p.do(cs)
        if n % 2:
            p.history.undo()
        if n % 3 == 0:
            p.pycore.run_module(p.get_resource("mod.py")).wait_process()
        p.close()
        p = opened()
    old = (hist_data(p, change_mod), oi_data(p))
    for k in range(1 + rnd_steps):
        cs = change_mod.ChangeSet("new %d é" % k)
        if k % 2 == 0:
            cs.add_change(change_mod.ChangeContents(p.get_file("mod.py"), MOD_SRC + "# new %d €\nx%d = f(%d, 2)\n" % (k, k, k)))
        else:
            cs.add_change(change_mod.CreateResource(p.get_file("extra%d.py" % k)))
        p.do(cs)
    if n % 2 == 0:
        p.history.undo()
    p.pycore.run_module(p.get_resource("mod.py")).wait_process()
    new = (hist_data(p, change_mod), oi_data(p))
    return p, old, new


def examine(root, old, new):
    """open a fresh project on root and use it; returns list of failed clauses + detail"""
    from rope.base import project as project_mod, change as change_mod
    fails = []
    detail = {}
    try:
        p = project_mod.Project(root, save_history=True, save_objectdb=True)
    except BaseException as e:  # noqa
        return ["OpenRaises"], {"exc": repr(e)[:300]}
    try:
        h = hist_data(p, change_mod)
    except BaseException as e:  # noqa
        return ["HistoryRaises"], {"exc": repr(e)[:300]}
    if h not in (old[0], new[0], [[], []]):
        fails.append("HistoryNotOldNewEmpty")
        detail["history"] = repr(h)[:400]
    try:
        o = oi_data(p)
        if o not in (old[1], new[1], {}):
            fails.append("ObjectInfoNotOldNewEmpty")
            detail["oi"] = repr(o)[:400]
        mod = p.get_pymodule(p.get_resource("mod.py"))
        mod.get_attributes()
        p.pycore.analyze_module(p.get_resource("mod.py"))
    except BaseException as e:  # noqa
        fails.append("AnalyseRaises")
        detail["exc"] = repr(e)[:300]
    try:
        if p.history.undo_list:
            p.history.undo()
        p.close()
        p2 = project_mod.Project(root, save_history=True, save_objectdb=True)
        hist_data(p2, change_mod)
    except BaseException as e:  # noqa
        fails.append("UseAfterReopenRaises")
        detail["exc2"] = repr(e)[:300]
    return fails, detail


def scenario(arg):
    """record the save trace of one scenario, then cut it at every point"""
    n, max_points, seed = arg
    common.use_repo()
    from rope.base import project as project_mod
    import random

    rnd = random.Random(seed * 1000 + n)
    root = common.scratch("c18_")
    work = common.scratch("c18w_")
    try:
        p, old, new = build_scenario(root, n, rnd.randint(0, 3))
        ropedir = os.path.join(root, ".ropeproject")
        backup = os.path.join(work, "rope_before")
        shutil.copytree(ropedir, backup)
        tree_backup = os.path.join(work, "tree_before")
        shutil.copytree(root, tree_backup, ignore=shutil.ignore_patterns(".ropeproject"))

        def restore():
            shutil.rmtree(ropedir)
            shutil.copytree(backup, ropedir)

        # 1. the uninterrupted save: record the event trace
        ip = Interposer(project_mod, ropedir)
        ip.install()
        try:
            p.close()
        finally:
            ip.uninstall()
        events = ip.events
        live = sorted({"history", "objectdb"} & set(os.listdir(ropedir)))
        # complete save must read back as new
        probe = os.path.join(work, "probe")
        shutil.copytree(root, probe)
        f0, d0 = examine(probe, new, new)
        shutil.rmtree(probe)
        results = []
        if f0:
            results.append({"point": "complete", "fails": ["CompleteSaveNotNew"] + f0, "detail": d0})
        # 2. every cut point
        points = []
        for idx, ev in enumerate(events):
            if ev["op"] == "write":
                nb = ev["n"]
                offs = list(range(0, nb))  # 0..n-1 bytes written, then death
                points.extend((idx, j) for j in offs)
            else:
                points.append((idx, 0))
        total_points = len(points)
        if max_points and len(points) > max_points:
            keep = set(rnd.sample(range(len(points)), max_points))
            # always keep all non-write boundaries and first/last byte of every write
            pts = [pt for k, pt in enumerate(points) if k in keep or events[pt[0]]["op"] != "write"
                   or pt[1] in (0, events[pt[0]]["n"] - 1)]
            points = pts
        outcomes = {"old": 0, "new": 0, "empty": 0, "other": 0}
        tolerant_probe = None
        runs = [(pt, False) for pt in points]
        # the same cut delivered as an exception that unwinds the stack (Ctrl-C, SystemExit from a signal
        # handler, ENOSPC): finally-blocks and context managers of the saving code run afterwards
        upts = points if not max_points else [pt for k, pt in enumerate(points) if k % 4 == 0 or
                                             events[pt[0]]["op"] != "write"]
        runs += [(pt, True) for pt in upts]
        for pt, unwind in runs:
            restore()
            ip = Interposer(project_mod, ropedir)
            ip.crash_at = pt
            ip.unwind = unwind
            ip.install()
            try:
                try:
                    p.close()
                    crashed = False
                except Crash:
                    crashed = True
            finally:
                ip.uninstall()
            if not crashed:
                results.append({"point": pt, "fails": [], "machinery": "crash point not reached"})
                continue
            probe = os.path.join(work, "probe")
            shutil.copytree(root, probe)
            fails, detail = examine(probe, old, new)
            shutil.rmtree(probe)
            if fails:
                results.append({"point": list(pt), "event": events[pt[0]], "fails": fails, "detail": detail,
                                "mode": "unwind" if unwind else "kill"})
        # 3. reader tolerance, measured: truncate the live pickle files of the complete save
        restore()
        p.close()
        tolerant = True
        for name in live:
            path = os.path.join(ropedir, name)
            data = open(path, "rb").read()
            for cut in sorted({1, len(data) // 2, len(data) - 1} - {0, len(data)}):
                with open(path, "wb") as f:
                    f.write(data[:cut])
                probe = os.path.join(work, "probe")
                shutil.copytree(root, probe)
                fails, _ = examine(probe, new, new)
                shutil.rmtree(probe)
                if any(x in fails for x in ("OpenRaises", "HistoryRaises", "AnalyseRaises")):
                    tolerant = False
                with open(path, "wb") as f:
                    f.write(data)
        return {"n": n, "events": events, "live": live, "points": len(runs), "total_points": total_points,
                "failures": results, "tolerant": tolerant,
                "had_old": old[0] != [[], []]}
    finally:
        common.rmtree(root)
        common.rmtree(work)


def main(tier):
    timer = common.Timer()
    verdict = common.Verdict(PROP)
    runs = []
    # ---- 1. the model
    states = trans = 0
    for name, writer, olds, expect_ok in (("atomic", "atomic", {"missing", "old"}, True),
                                          ("atomic-old", "atomic", {"old"}, True),
                                          ("inplace(sensitivity)", "inplace", {"missing", "old"}, False)):
        cfg = os.path.join(common.SCRATCH_BASE, "c18_%d.cfg" % os.getpid())
        tlc.write_cfg(cfg, constants={"DataFiles": tlc.Sub("MCDataFiles"), "Writer": writer,
                                      "MaxChunks": 3, "OldStates": olds},
                      invariants=["OpenNeverRaises", "CompleteVersion", "OldNeverLost", "LiveNeverOpen",
                                  "LiveNeverPartial", "SavedIsNew"])
        res = tlc.run("MC_RopePersist", cfg, workers=4, coverage=(name == "atomic"))
        os.unlink(cfg)
        print("TLC RopePersist[%s]:" % name, res.summary())
        runs.append({"config": name, **res.summary()})
        if expect_ok:
            if not res.ok:
                if res.violated:
                    path = common.write_replay(PROP, {"kind": "tlc-counterexample", "invariant": res.violated,
                                                      "trace": res.trace})
                    print("VIOLATION property=%s replay=%s" % (PROP, path))
                    return 1
                print("MACHINERY-FAILURE property=%s TLC: %s\n%s" % (PROP, res.error, res.tail))
                return 2
            states += res.distinct
            trans += res.generated
            for a in ("OpenTrunc", "WriteChunk", "CloseFile", "Replace", "Crash", "Reopen"):
                if res.coverage and a in res.coverage and res.coverage[a][1] == 0:
                    verdict.machinery_failure("action %s never taken" % a)
        elif res.violated is None:
            verdict.machinery_failure("model insensitive: the in-place writer satisfies OpenNeverRaises")

    # ---- 2+3. real saves: record, enumerate cuts
    nscen = 6 if tier == "quick" else 40
    max_points = 900 if tier == "quick" else 0
    scen = []
    for r in replay.pool_map(scenario, [(n, max_points, common.SEED) for n in range(nscen)], chunk=1):
        if "machinery" in r:
            verdict.machinery_failure(r["machinery"][:1000])
            continue
        scen.append(r)
    scen.sort(key=lambda r: r["n"])
    tolerant = all(r["tolerant"] for r in scen) if scen else False
    # trace validation of the recorded save traces
    batch = {"tolerant": tolerant,
             "traces": [{"live": r["live"], "events": [{"op": e["op"], "name": e["name"], "dst": e["dst"]}
                                                       for e in r["events"]]} for r in scen]}
    tv_ok = None
    if scen:
        tf = os.path.join(common.SCRATCH_BASE, "c18_traces_%d.json" % os.getpid())
        with open(tf, "w") as f:
            json.dump(batch, f)
        res = tlc.run("TracePersist", os.path.join(tlc.SPEC_DIR, "TracePersist.cfg"), workers=1,
                      env={"TRACE_FILE": tf})
        os.unlink(tf)
        print("TLC TracePersist:", res.summary(), "traces:", len(scen), "reader tolerant:", tolerant)
        runs.append({"config": "TracePersist", **res.summary(), "traces": len(scen)})
        tv_ok = res.ok
        if not res.ok:
            if res.violated or (res.error and "Deadlock" in res.error):
                clause = res.violated or "trace-not-a-behaviour"
                verdict.failure({"part": "trace-validation", "clauses": [clause]},
                                {"property": PROP, "kind": "trace rejected by TracePersist", "clause": clause,
                                 "tlc_trace": res.trace, "batch": batch})
            else:
                verdict.machinery_failure("TracePersist: %s\n%s" % (res.error, res.tail[-800:]))
        states += res.distinct
        trans += res.generated
    points = sum(r["points"] for r in scen)
    total_points = sum(r["total_points"] for r in scen)
    nfail = 0
    for r in scen:
        for f in r["failures"]:
            if f.get("machinery"):
                verdict.machinery_failure("scenario %d point %s: %s" % (r["n"], f["point"], f["machinery"]))
                continue
            nfail += 1
            ev = f.get("event", {})
            key = {"part": "crash", "mode": f.get("mode", "kill"), "clauses": sorted(f["fails"]),
                   "cut_in": "%s:%s" % (ev.get("op"), "live" if ev.get("name") in r["live"] else "other")}
            verdict.failure(key, {"property": PROP, "key": key, "scenario": r["n"], "point": f["point"],
                                  "event": ev, "detail": f.get("detail"), "events": r["events"]})
    if scen and points == 0:
        verdict.machinery_failure("no crash points recorded: the interposer saw no fs events")
    samples = []
    if scen:
        r = scen[0]
        samples.append({"scenario": r["n"], "save_trace": [(e["op"], e["name"], e["dst"], e["n"]) for e in r["events"]][:20],
                        "cut_points": r["points"]})
    code = verdict.finish()
    common.write_evidence(PROP, tier, "fault_enumeration", {
        "evaluations": points,
        "distinct_nontrivial": points,
        "rule": "one evaluation = one real Project.close() cut at one point (every fs event boundary and every byte "
                "prefix of every write; quick tier samples the byte offsets inside writes, always keeping first/last), "
                "followed by opening and using a new Project on the result; all are distinct (scenario, event, offset) "
                "and non-trivial (the save was really interrupted there)",
        "samples": samples,
        "exhaustive": (max_points == 0),
        "cut_points_available": total_points,
        "scenarios": len(scen),
        "scenarios_with_old_version": sum(1 for r in scen if r["had_old"]),
        "reader_tolerant_to_truncation": tolerant,
        "traces_validated_against_impl": len(scen),
        "trace_validation_accepted": tv_ok,
        "states": states, "transitions": trans,
        "tlc_runs": runs,
        "failures": nfail,
        "known_finding_hits": verdict.known_hits,
    }, timer.s(), violations=len(verdict.violations), assumptions=[
        "a crash is modelled at the granularity of Python-level write()/close()/os.replace() calls with byte-prefix cuts "
        "inside writes; directory-entry durability (fsync) and torn sectors are not observable here",
        "fs operations are intercepted in rope.base.project (open) and os.replace/rename/remove",
    ])
    return code


if __name__ == "__main__":
    sys.exit(main(sys.argv[1] if len(sys.argv) > 1 else "quick"))
