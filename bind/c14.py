"""C14 - rope's view of source text agrees with Python's tokenizer.

TLC explores spec/PyLex.tla, a character-level automaton of Python 3.12 lexing
(identifiers, every string prefix / quote style, PEP 701 f-strings with
replacement fields and nested strings, comments, brackets, explicit and
implicit line joining, semicolons, dots) over all texts of at most N symbols
of several sub-alphabets.  Every accepting configuration is exported with what
the spec derives for it: outermost string / comment regions, logical lines,
identifier tokens with the start of the attribute chain they end, joined
newlines, line starts.

Three-way comparison per text:
  spec  vs CPython  (tokenize: STRING / FSTRING_START..END / COMMENT spans,
                     NEWLINE-delimited logical lines, NAME tokens; ast:
                     Attribute / Name spans)            -> disagreement = exit 2
  spec  vs rope     (simplify.ignored_regions, simplify.real_code,
                     SourceLinesAdapter, CachingLogicalLineFinder(custom_generator),
                     LogicalLineFinder, Worder.get_word_at / get_word_range /
                     get_primary_at at every offset of every identifier)
                                                        -> disagreement = violation
rope is judged only on texts CPython compiles ("valid source text").
"""
import ast as py_ast
import io
import json
import os
import sys
import threading
import warnings
import token as py_token
import tokenize

from engine import common, tlc, replay

PROP = "C14"
INVARIANTS = ["TypeOK", "RegionsDisjointOrdered", "RegionShape", "NamesWellFormed", "LogicalLinesPartition",
              "LineIndexInverse", "JoinsAreInside", "Balanced"]

STRINGS = {"a", "r", "b", "f", "u", "sp", "nl", "bs", "hash", "q1", "q2", "t1", "lc", "rc"}
BRACKETS = {"a", "sp", "nl", "semi", "cont", "hash", "q1", "lp", "rp", "lb", "rb", "lc", "rc", "comma"}
WORDS = {"a", "d", "ue", "dot", "sp", "nl", "cont", "lp", "rp", "lb", "rb", "eq", "q1", "f", "semi"}
CHAINS = {"a", "dot", "cont", "lp", "rp", "nl", "q1", "q2"}
FNEST = {"f", "q1", "q2", "lc", "rc", "a"}
# every spelling (order x case) of the raw-f-string prefix, with a replacement field, and the
# fr-order for contrast: fields of rf'..' / Rf'..' / fR'..' ... hold ordinary NAME tokens
FPREFIX = {"rf", "rF", "Rf", "RF", "Fr", "q1", "lc", "rc"}   # the prefix symbols double as identifiers
# identifiers spelled like soft keywords (match, type; case in thorough) or "_" are ordinary names: heads of attribute
# chains and calls; a hard keyword (not) before a parenthesised primary is not part of it
SOFTKW = {"smatch", "stype", "us", "knot", "dot", "lp", "rp"}
# characters str.splitlines() treats as line boundaries but Python does not: form feed as a blank in code
# (page-break line, leading form feed), the others inside strings and comments; lines after them must
# still start where the tokenizer says
LINESEP = {"a", "ffd", "nel", "ls", "vt", "q1", "hash", "nl", "sp"}


def slices(tier):
    """(name, symbols, max symbols per text, max frame nesting)"""
    quick = [("strings", STRINGS, 5, 3), ("brackets", BRACKETS, 5, 3), ("words", WORDS, 5, 3),
             ("chains", CHAINS, 6, 3), ("fnest", FNEST, 7, 4), ("fprefix", FPREFIX, 6, 3),
             ("softkw", SOFTKW, 6, 3), ("linesep", LINESEP, 5, 3)]
    if tier == "quick":
        return quick
    return quick + [
        ("strings6", {"a", "sp", "nl", "eq", "bs", "q1", "t1", "f", "r", "lc", "rc", "hash"}, 6, 3),
        ("brackets6", {"a", "nl", "sp", "cont", "hash", "q1", "lp", "rp", "lb", "rb", "comma", "semi"}, 6, 3),
        ("words7", {"a", "dot", "sp", "nl", "cont", "lp", "rp", "q1"}, 7, 3),
        ("fstrings7", {"a", "f", "q1", "q2", "lc", "rc", "dot", "lb", "rb"}, 7, 4),
        ("prefixes", {"r", "b", "f", "u", "R", "B", "F", "q1", "q2", "t2", "a", "bs", "nl"}, 5, 3),
        ("layout", {"a", "ue", "tab", "sp", "nl", "semi", "cont", "hash", "eq", "lp", "rp", "t1"}, 6, 3),
        ("softkw6", {"smatch", "scase", "stype", "us", "knot", "a", "dot", "lp", "rp", "sp"}, 6, 3),
        ("linesep6", {"a", "ffd", "nel", "ps", "fsep", "q1", "t1", "hash", "nl", "lp", "rp"}, 6, 3),
    ]


def run_tlc(name, symbols, maxlen, maxstack, out, workers):
    cfg = os.path.join(common.SCRATCH_BASE, "c14_%s_%d.cfg" % (name, os.getpid()))
    tlc.write_cfg(cfg, constants={"Symbols": set(symbols), "MaxLen": maxlen, "MaxStack": maxstack},
                  invariants=INVARIANTS + ["Export"])
    texts = {}

    def on(tag, v):
        if tag == "BEH":
            t = "".join(map(chr, v["chars"]))
            if t not in texts:
                v["text"] = t
                del v["chars"]
                v["slice"] = name
                texts[t] = v

    try:
        res = tlc.run("MC_PyLex", cfg, workers=workers, on_tagged=on, collect_tags=False,
                      java_opts=("-Xmx4g",))   # the models are small; several JVMs run side by side
    finally:
        os.unlink(cfg)
    out[name] = (res, texts)


# ------------------------------------------------------------------ CPython side
def char_col(line, byte_col):
    return len(line.encode("utf-8")[:byte_col].decode("utf-8", "ignore"))


def cpython_view(text, lstarts):
    """(regions, stmts, names) from tokenize; raises on lexical errors."""
    off = lambda pos: lstarts[pos[0] - 1] + pos[1]
    # tokenize reports the end column of a multi-line token in UTF-8 bytes when its last line holds
    # non-ASCII characters ("\'\'\'\\\n\xe9\'\'\'" ends at column 5, not 4); the token text is exact, so
    # the end offset is taken as start + len(text)
    end = lambda t: off(t.start) + len(t.string)
    regions, stmts, names = [], [], []
    depth = 0
    fstart = None
    first = None
    skip = (py_token.NL, py_token.COMMENT, py_token.INDENT, py_token.DEDENT, py_token.NEWLINE, py_token.ENDMARKER)
    for t in tokenize.generate_tokens(io.StringIO(text).readline):
        if t.type not in skip and first is None:
            first = t.start[0]
        if t.type == py_token.NEWLINE:
            if first is not None:
                stmts.append([first, t.start[0]])
            first = None
        elif t.type == py_token.FSTRING_START:
            if depth == 0:
                fstart = off(t.start)
            depth += 1
        elif t.type == py_token.FSTRING_END:
            depth -= 1
            if depth == 0:
                regions.append([fstart, end(t), "fstr"])
        elif t.type == py_token.STRING and depth == 0:
            regions.append([off(t.start), end(t), "str"])
        elif t.type == py_token.COMMENT and depth == 0:
            regions.append([off(t.start), end(t), "com"])
        elif t.type == py_token.NAME:
            names.append([off(t.start), end(t)])
    return regions, stmts, names


def ast_chains(text, lstarts):
    """end offset of an identifier -> start offset of the expression (Name / Attribute) ending there;
    None if the text does not compile."""
    try:
        tree = py_ast.parse(text)
    except (SyntaxError, ValueError):
        return None
    lines = text.split("\n")

    def off(lineno, col):
        return lstarts[lineno - 1] + char_col(lines[lineno - 1], col)

    out = {}
    for n in py_ast.walk(tree):
        if isinstance(n, (py_ast.Attribute, py_ast.Name)):
            out[off(n.end_lineno, n.end_col_offset)] = off(n.lineno, n.col_offset)
    return out


def cross_check(beh):
    """Spec vs CPython; returns (error string | None, chains | None)."""
    text, lstarts = beh["text"], beh["lstarts"]
    if lstarts != [0] + [i + 1 for i, c in enumerate(text) if c == "\n"]:
        return "line starts: spec %s" % lstarts, None
    try:
        regions, stmts, names = cpython_view(text, lstarts)
    except (tokenize.TokenError, SyntaxError, IndentationError) as e:
        return "tokenize rejects an accepted text: %s: %s" % (type(e).__name__, e), None
    if regions != beh["regions"]:
        return "regions: spec %s tokenize %s" % (beh["regions"], regions), None
    if stmts != beh["stmts"]:
        return "logical lines: spec %s tokenize %s" % (beh["stmts"], stmts), None
    if names != [n[:2] for n in beh["names"]]:
        return "names: spec %s tokenize %s" % (beh["names"], names), None
    chains = ast_chains(text, lstarts)
    if chains is not None:
        for s, e, cs in beh["names"]:
            if e in chains and chains[e] != cs:
                return "chain start of name %s: spec %s ast %s" % ([s, e], cs, chains[e]), chains
    return None, chains


# ------------------------------------------------------------------ rope side
def rope_view(beh):
    """All the clauses on one text; list of (clause, api, detail)."""
    from rope.base import simplify, codeanalyze, worder
    text = beh["text"]
    fails = []
    regs = [[s, e] for s, e, _ in beh["regions"]]
    # clause 1: string and comment regions
    try:
        got = [[s, e] for s, e, _ in simplify.ignored_regions(text)]
        if got != regs:
            fails.append(("Regions", "ignored_regions", "spec %s rope %s" % (regs, got)))
    except Exception as e:  # noqa
        fails.append(("Regions", "ignored_regions", "exception %s" % type(e).__name__))
    # clause 2: simplified text
    try:
        rc = simplify.real_code(text)
        if len(rc) != len(text):
            fails.append(("RealCode", "length", "%d != %d" % (len(rc), len(text))))
        else:
            inside = set()
            for s, e in regs:
                inside.update(range(s, e))
            joins = set(beh["joins"])
            for i, (a, b) in enumerate(zip(text, rc)):
                if i in inside or a == b:
                    continue
                # the property allows whitespace substitution: blanks for blanks, and blanks for
                # the separators real_code documents (semicolon, continuation backslash)
                ok = (a in " \t\n\f" and b in " \t\n\f") or (a == ";" and b in " \n") \
                    or (a == "\\" and (i + 1) in joins and b == " ")
                if not ok:
                    fails.append(("RealCode", "chars", "offset %d: %r became %r" % (i, a, b)))
                    break
    except Exception as e:  # noqa
        fails.append(("RealCode", "real_code", "exception %s" % type(e).__name__))
    # clause 3: offset <-> line
    try:
        sla = codeanalyze.SourceLinesAdapter(text)
        ls = beh["lstarts"]
        bad = None
        if sla.length() != len(ls):
            bad = "length %d != %d" % (sla.length(), len(ls))
        for l in range(1, len(ls) + 1):
            end = ls[l] - 1 if l < len(ls) else len(text)
            if bad is None and (sla.get_line_start(l), sla.get_line_end(l)) != (ls[l - 1], end):
                bad = "line %d: %s" % (l, (sla.get_line_start(l), sla.get_line_end(l)))
            if bad is None and sla.get_line(l) != text[ls[l - 1]:end]:
                bad = "get_line %d" % l
            if bad is None and sla.get_line_number(sla.get_line_start(l)) != l:
                bad = "line->offset->line %d" % l
        for o in range(len(text) + 1):
            want = sum(1 for s in ls if s <= o)
            if bad is None and sla.get_line_number(o) != want:
                bad = "offset %d: line %d != %d" % (o, sla.get_line_number(o), want)
        if bad:
            fails.append(("LineIndex", "SourceLinesAdapter", bad))
    except Exception as e:  # noqa
        fails.append(("LineIndex", "SourceLinesAdapter", "exception %s" % type(e).__name__))
        sla = None
    # clause 4: logical lines
    if sla is not None:
        for api, mk in (("custom", lambda: codeanalyze.CachingLogicalLineFinder(sla)),
                        ("tokenizer", lambda: codeanalyze.LogicalLineFinder(sla))):
            try:
                finder = mk()
                for s, e in beh["stmts"]:
                    for l in range(s, e + 1):
                        got = tuple(finder.logical_line_in(l))
                        if got != (s, e):
                            fails.append(("LogicalLines", api, "line %d: spec %s rope %s" % (l, (s, e), got)))
                            raise StopIteration
            except StopIteration:
                pass
            except Exception as e:  # noqa
                fails.append(("LogicalLines", api, "exception %s" % type(e).__name__))
    # clause 5: word and primary at every offset of every identifier
    try:
        w = worder.Worder(text)
        kws = set(beh.get("kws", ()))
        done = False
        for s, e, cs in beh["names"]:
            for o in range(s, e):
                got = (w.get_word_at(o), tuple(w.get_word_range(o)), w.get_primary_at(o))
                want = (text[s:e], (s, e), text[cs:e])
                for api, g, x in zip(("get_word_at", "get_word_range", "get_primary_at"), got, want):
                    if api == "get_primary_at" and s in kws:
                        continue     # a keyword is a token, not an identifier: no attribute chain to ask for
                    if g != x:
                        fails.append(("Word", api, "offset %d: spec %r rope %r" % (o, x, g)))
                        done = True
                if done:
                    break
            if done:
                break
    except Exception as e:  # noqa
        fails.append(("Word", "Worder", "exception %s" % type(e).__name__))
    return fails


PRIORITY = ["escaped-quote-before-closing-triple-quote", "short-string-then-triple-quote-same-quote",
            "attribute-of-adjacent-string-literals", "attribute-of-fstring-literal",
            "backslash-continuation-inside-brackets", "fstring-nested-same-quote", "fstring-bracket", "fstring",
            "backslash-continuation", "bracket-continuation", "multiline-string"]


def features(beh):
    """Shrunk description of the constructs in a text (for failure keys), most specific first."""
    text = beh["text"]
    f = set()
    regs = beh["regions"]
    for n, (s, e, k) in enumerate(regs):
        body = text[s:e]
        q = body[-1]
        tri = body.lstrip("rRfFbBuU").startswith(q * 3)
        if tri and body.endswith("\\" + q * 4):
            f.add("escaped-quote-before-closing-triple-quote")
        if "\n" in body:
            f.add("multiline-string")
        if k in ("str", "fstr") and n + 1 < len(regs) and regs[n + 1][2] in ("str", "fstr"):
            s2, e2 = regs[n + 1][:2]
            between = text[e:s2]
            joins = set(beh["joins"])
            blank = all(c in " \t" or (c == "\n" and i in joins) or (c == "\\" and (i + 1) in joins)
                        for i, c in enumerate(between, e))
            if blank and text[e2:e2 + 1] == ".":
                f.add("attribute-of-adjacent-string-literals")
            if between == "" and not tri and text[s2:s2 + 3] == q * 3:
                f.add("short-string-then-triple-quote-same-quote")
        if k == "fstr":
            f.add("fstring")
            inner = body.lstrip("rRfFbBuU")
            inner = inner[3:-3] if tri else inner[1:-1]
            if q in inner.replace("\\" + q, ""):
                f.add("fstring-nested-same-quote")
            if any(c in inner for c in "([)]"):
                f.add("fstring-bracket")
            if text[e:e + 1] == ".":
                f.add("attribute-of-fstring-literal")
    if beh["bjoins"]:
        f.add("backslash-continuation-inside-brackets")
    if any(j > 0 and text[j - 1] == "\\" for j in beh["joins"]):
        f.add("backslash-continuation")
    if any(j == 0 or text[j - 1] != "\\" for j in beh["joins"]):
        f.add("bracket-continuation")
    return [x for x in PRIORITY if x in f]


def run_text(beh):
    common.use_repo()
    warnings.simplefilter("ignore")
    err, chains = cross_check(beh)
    if err is not None:
        return {"machinery": "spec vs CPython on %r: %s" % (beh["text"], err), "item": beh["syms"]}
    if chains is None:
        return {"valid": False, "fails": [], "beh": None}
    fails = rope_view(beh)
    return {"valid": True, "fails": fails, "beh": beh if fails else None,
            "nnames": len(beh["names"]), "nregions": len(beh["regions"]), "nstmts": len(beh["stmts"]),
            "text": beh["text"] if (beh["names"] and beh["regions"]) else None}


def main(tier):
    timer = common.Timer()
    verdict = common.Verdict(PROP)
    sl = slices(tier)
    states = transitions = 0
    tlc_summaries = {}
    seen = set()
    total = valid = checked = 0
    counts = {"names": 0, "regions": 0, "stmts": 0}
    samples = []
    # quick: all (small) models side by side; thorough: in groups, each compared before the next is generated
    groups = [sl] if tier == "quick" else [sl[:8]] + [[x] for x in sl[8:]]
    for group in groups:
        out = {}
        threads = []
        for name, symbols, maxlen, maxstack in group:
            t = threading.Thread(target=run_tlc, args=(name, symbols, maxlen, maxstack, out, max(3, 16 // len(group))))
            t.start()
            threads.append(t)
        for t in threads:
            t.join()
        items = []
        for name, symbols, maxlen, maxstack in group:
            if name not in out:
                print("MACHINERY-FAILURE property=%s TLC did not run for slice %s" % (PROP, name))
                return 2
            res, tx = out[name]
            print("TLC PyLex[%s]:" % name, res.summary(), "accepting texts", len(tx))
            tlc_summaries[name] = dict(res.summary(), accepting_texts=len(tx), symbols=sorted(symbols), max_len=maxlen)
            if not res.ok:
                if res.violated:
                    print("MACHINERY-FAILURE property=%s spec invariant %s violated on the model (slice %s)\n%s" % (
                        PROP, res.violated, name, res.trace[-3000:]))
                else:
                    print("MACHINERY-FAILURE property=%s TLC: %s\n%s" % (PROP, res.error, res.tail[-2000:]))
                return 2
            states += res.distinct
            transitions += res.generated
            for t in sorted(tx):
                if t not in seen:
                    seen.add(t)
                    items.append(tx[t])
        out.clear()
        total += len(items)
        for r in replay.pool_map(run_text, items, chunk=500):
            checked += 1
            if "machinery" in r:
                verdict.machinery_failure(r["machinery"][:700])
                continue
            if not r["valid"]:
                continue
            valid += 1
            counts["names"] += r["nnames"]
            counts["regions"] += r["nregions"]
            counts["stmts"] += r["nstmts"]
            if r.get("text") and len(samples) < 6 and valid % 97 == 0:
                samples.append(r["text"])
            for clause, api, detail in r["fails"]:
                beh = r["beh"]
                fs = features(beh)
                k = {"clause": clause, "api": api, "construct": fs[0] if fs else "plain", "features": fs}
                verdict.failure(k, {"property": PROP, "key": k, "text": beh["text"], "symbols": beh["syms"],
                                    "spec": {x: beh[x] for x in ("regions", "stmts", "names", "joins", "lstarts")},
                                    "detail": detail})
        del items
    if valid < 1000:
        verdict.machinery_failure("only %d valid texts" % valid)
    for k, v in counts.items():
        if v == 0:
            verdict.machinery_failure("no %s in any valid text" % k)
    if not samples:
        samples = ["(no sample selected)"]
    code = verdict.finish()
    common.write_evidence(PROP, tier, "model_checking", {
        "states": states, "transitions": transitions,
        "traces_validated_against_impl": valid,
        "samples": samples,
        "exhaustive": True,
        "accepting_texts_cross_checked_with_tokenize": checked,
        "valid_texts_compared_with_rope": valid,
        "distinct_nontrivial": valid,
        "checked_items": counts,
        "rule": "every accepting text of the automaton (all symbol sequences up to the bound, per sub-alphabet) is "
                "cross-checked against tokenize/ast; rope is compared on those that compile; non-trivial = compiles",
        "tlc": tlc_summaries,
        "known_finding_hits": verdict.known_hits,
    }, timer.s(), violations=len(verdict.violations), assumptions=[
        "texts of at most N symbols over several sub-alphabets (small-scope hypothesis)",
        "not modelled (rejected by the automaton): numbers, indentation, the ellipsis, format specs and conversions, "
        "comments / newlines inside replacement fields, backslashes in raw f-strings, empty replacement fields",
    ])
    return code


if __name__ == "__main__":
    sys.exit(main(sys.argv[1] if len(sys.argv) > 1 else "quick"))
