"""C11 - undo and redo are exact inverses over any history of changes.

TLC explores spec/RopeHistory.tla: every interleaving of do (1-2 leaf change
sets), undo, redo, selective undo/redo of any listed change, drop, clear under a
history limit, to a bounded number of API calls; checks NeverMade (the tree is
the one obtained by performing only the changes still in force), that the code's
dependency pass equals the closure the property describes, limit, redo cleared
by do, empty undo refused.  Every exported behaviour is replayed on a real
project and after *every* call the disk tree and the identity/order of
undo_list / redo_list are compared with the spec state.
"""
import json
import os
import sys

from engine import common, tlc, replay
from bind import c10

PROP = "C11"

INVARIANTS = ["NeverMade", "TaintOnlyByDrop", "OnlyDependents", "LimitRespected", "ListsDisjoint", "NoDuplicates",
              "TreeIsTree", "StepsNeverFail"]
PROPERTIES = ["RedoClearedByDo", "EmptyRefused"]


def base_constants():
    return {
        "DirNames": {"d", "e"}, "FileNames": {"x"}, "MaxDepth": 2,
        "MaxDo": 3, "MaxSteps": 4, "Limits": {0, 2, 100},
        "InitTreesH": tlc.Sub("MCInitTreesH1"),
        "LeafKinds": {"W", "CF", "CD", "MV"},
        "AllowPairs": False, "AllowSelective": True, "AllowReopen": False, "AllowSetLimit": False,
        "IgnoredNames": set(), "AnyPairs": False, "RootOnly": set(), "ExclusivePairs": tlc.Sub("MCNoPairs"),
    }


def configs(tier):
    """(name, constants, mode) ; mode: 'export' exhaustive with behaviours,
    'deep' exhaustive under VIEW without export, 'sim' simulation with export"""
    out = []
    c = base_constants()
    out.append(("exhaustive-4calls", dict(c), "export", None))
    c2 = base_constants()
    c2.update({"LeafKinds": {"W", "CF", "CD", "MV", "RM"}, "AllowPairs": True, "MaxDo": 2, "MaxSteps": 3})
    out.append(("pairs+remove-3calls", c2, "export", None))
    cl = base_constants()
    cl.update({"AllowSetLimit": True, "AllowSelective": False,
               "Limits": {0, 1, 100} if tier == "quick" else {0, 1, 2, 100}, "MaxDo": 3, "MaxSteps": 5,
               "LeafKinds": {"W"}})
    out.append(("limit-changes-5calls", cl, "export", None))
    ci = base_constants()
    ci.update({"FileNames": {"x", "k"}, "IgnoredNames": {"k"}, "AllowPairs": True, "AnyPairs": True,
               "AllowSelective": False, "MaxDo": 2, "MaxSteps": 3, "Limits": {100}, "LeafKinds": {"W", "CF"}})
    out.append(("ignored-resources-4calls", ci, "export", None))
    c3 = base_constants()
    c3.update({"MaxDo": 3, "MaxSteps": 40, "Limits": {2, 100},
               "InitTreesH": tlc.Sub("MCInitTreesH1" if tier == "quick" else "MCInitTreesH")})
    out.append(("deep-view-3do-unbounded-calls", c3, "deep", None))
    cs = base_constants()
    cs.update({"LeafKinds": {"W", "CF", "CD", "MV"}, "AllowPairs": True, "MaxDo": 6, "MaxSteps": 10,
               "Limits": {2, 3, 100}, "InitTreesH": tlc.Sub("MCInitTreesH")})
    out.append(("simulation-10calls", cs, "sim", 1000 if tier == "quick" else 20000))
    if tier == "thorough":
        c4 = base_constants()
        c4.update({"MaxDo": 4, "MaxSteps": 5})
        out.append(("exhaustive-5calls", c4, "export", None))
        c5 = base_constants()
        c5.update({"LeafKinds": {"W", "CF", "CD", "MV", "RM"}, "AllowPairs": True, "MaxDo": 3, "MaxSteps": 4,
                   "Limits": {100}})
        out.append(("pairs+remove-4calls", c5, "export", None))
    return out


def run_behaviour(beh):
    if isinstance(beh, str):      # behaviours travel as compact JSON text (memory: see main)
        beh = json.loads(beh)
    return replay_history(beh, persist=False)


def open_project(project_mod, root, limit, persist):
    if persist:
        return project_mod.Project(root, save_history=True, save_objectdb=True, max_history_items=limit)
    return project_mod.Project(root, ropefolder=None, max_history_items=limit, ignored_resources=["*.bak"])


def replay_history(beh, persist):
    """Step one RopeHistory behaviour through a real project, comparing after every call."""
    common.use_repo()
    from rope.base import project as project_mod, change as change_mod, exceptions
    if os.environ.get("VERIF_REC_DIR") and int(common.digest(beh["trail"]), 16) % 12 == 0:
        from rec import verif_rec
        verif_rec.install()      # this behaviour is also recorded for TraceHistory
        record = True
    else:
        record = False

    root = common.scratch("c11_")
    try:
        c10.render_tree(root, beh["init"])
        project = open_project(project_mod, root, beh["limit"], persist)
        if not record:
            project.history._verif_depth = 1   # recorder (if installed in this worker) skips this project
        hist = project.history
        ids = {}       # id(ChangeSet object) -> spec change id
        keep = []
        rep = {"steps": 0}
        for n, st in enumerate(beh["trail"]):
            act, arg = st["act"], st["arg"]
            exc = None
            try:
                if act == "do":
                    cs = c10.build_changeset(project, arg["leaves"], None, change_mod)
                    keep.append(cs)
                    ids[id(cs)] = arg["id"]
                    project.do(cs)
                elif act == "undo":
                    i = arg["i"]
                    if i == 0:
                        hist.undo()
                    elif i == len(hist.undo_list) and not arg["drop"] and n % 2 == 0:
                        hist.undo()
                    else:
                        hist.undo(change=hist.undo_list[i - 1], drop=arg["drop"])
                elif act == "redo":
                    i = arg["i"]
                    if i == 0:
                        hist.redo()
                    elif i == len(hist.redo_list) and n % 2 == 0:
                        hist.redo()
                    else:
                        hist.redo(change=hist.redo_list[i - 1])
                elif act == "clear":
                    hist.clear()
                elif act == "setlimit":
                    project.set("max_history_items", arg["i"])
                elif act == "sync":
                    project.sync() if n % 2 else project.close()   # both save and leave the object usable
                elif act == "reopen":
                    # C12: close, open a new Project on the same directory; the lists must come back
                    # in the same order with the same descriptions and contents
                    to_data = change_mod.ChangeToData()
                    before = [[to_data(c) for c in hist.undo_list], [to_data(c) for c in hist.redo_list]]
                    old_ids = [[ids.get(id(c), "?") for c in hist.undo_list],
                               [ids.get(id(c), "?") for c in hist.redo_list]]
                    project.close()
                    project = open_project(project_mod, root, beh["limit"], persist)
                    hist = project.history
                    after = [[to_data(c) for c in hist.undo_list], [to_data(c) for c in hist.redo_list]]
                    if after != before:
                        key = {"act": "reopen", "clauses": ["ReopenSameLists"], "selective": False,
                               "remove_inverse_missing": False}
                        return {"fails": ["ReopenSameLists"], "key": key, "step": n,
                                "obs": {"after": after}, "expected": {"before": before}, "beh": beh,
                                "steps": n + 1}
                    for lst, idl in ((hist.undo_list, old_ids[0]), (hist.redo_list, old_ids[1])):
                        for c, cid in zip(lst, idl):
                            ids[id(c)] = cid
                            keep.append(c)
                else:
                    return {"machinery": "unknown act %s" % act, "item": beh}
            except BaseException as e:  # noqa
                exc = e
            obs = {
                "tree": c10.abstract_tree(root),
                "undo": [ids.get(id(c), "?") for c in hist.undo_list],
                "redo": [ids.get(id(c), "?") for c in hist.redo_list],
                "exc": type(exc).__name__ if exc is not None else None,
                "exc_is_history_error": isinstance(exc, exceptions.HistoryError),
            }
            rep["steps"] = n + 1
            bad = []
            exp_tree = sorted(st["tree"])
            if st["err"]:
                if arg.get("i", 0) == 0:
                    # empty list: must be refused with HistoryError and no effect
                    if exc is None or not obs["exc_is_history_error"]:
                        bad.append("EmptyRefused")
                else:
                    # the spec predicts this call cannot complete: the inverse of a removal is
                    # missing (property failure: undo does not restore), or a redo entry was made
                    # stale by drop=True (a refusal without effect, acceptable)
                    if exc is None:
                        return {"fails": [], "diverged": "call predicted to be refused succeeded",
                                "steps": n, "beh": beh}
                    if obs["exc"] == "NotImplementedError":
                        bad.append("UndoRestores")
            elif exc is not None:
                bad.append("SpuriousError")
            if obs["tree"] != exp_tree:
                bad.append("Tree")
            if obs["undo"] != st["undo"]:
                bad.append("UndoList")
            if obs["redo"] != st["redo"]:
                bad.append("RedoList")
            if bad:
                removal = any(l["k"] == "RM" for s2 in beh["trail"][:n + 1] if s2["act"] == "do"
                              for l in s2["arg"]["leaves"])
                key = {"act": act, "clauses": sorted(bad),
                       "redo_after_dropped_prerequisite": bool(st.get("tainted")),
                       "selective": bool(act in ("undo", "redo") and arg["i"] not in (0,) and
                                         (arg["i"] != len(beh["trail"][n - 1]["undo" if act == "undo" else "redo"])
                                          if n > 0 else False)),
                       "remove_inverse_missing": bool(removal and obs["exc"] == "NotImplementedError")}
                if st.get("tainted"):
                    # known gap: the spec's prediction is not binding once a stale redo entry
                    # (its prerequisite was undone with drop=True) has been redone
                    key = {"act": "redo", "clauses": ["NeverMade"], "selective": True,
                           "redo_after_dropped_prerequisite": True, "remove_inverse_missing": False}
                return {"fails": bad, "key": key, "step": n, "obs": obs, "expected": st, "beh": beh,
                        "steps": n + 1}
        # the property's own expectation for the final tree (spec: NeverTree)
        final = c10.abstract_tree(root)
        if not beh["neverDefined"] or final != sorted(beh["never"]):
            key = {"act": "redo" if beh["tainted"] else "final", "clauses": ["NeverMade"], "selective": True,
                   "redo_after_dropped_prerequisite": bool(beh["tainted"]), "remove_inverse_missing": False}
            return {"fails": ["NeverMade"], "key": key, "step": len(beh["trail"]),
                    "obs": {"tree": final}, "expected": {"never": beh["never"], "defined": beh["neverDefined"]},
                    "beh": beh, "steps": rep["steps"]}
        return {"fails": [], "steps": rep["steps"], "beh": beh}
    finally:
        common.rmtree(root)


QUICK_TESTS = ["ropetest/historytest.py", "ropetest/projecttest.py", "ropetest/refactor/renametest.py",
               "ropetest/refactor/movetest.py", "ropetest/contrib/changestacktest.py",
               "ropetest/refactor/inlinetest.py"]


def repo_test_traces(tier, verdict, extra_dir=None):
    """Trace validation (code -> spec): run the repository's own tests under the recorder
    (rec/verif_rec.py, call-through wrappers of History.do/undo/redo) and let TLC decide with
    spec/TraceHistory.tla whether every recorded call is a step of the history model."""
    import collections
    import glob
    import re
    import subprocess
    recdir = common.scratch("c11rec_")
    info = {"events": 0, "traces": 0, "accepted": 0, "ops": {}}
    try:
        tests = ["ropetest"] if tier == "thorough" else QUICK_TESTS
        env = dict(os.environ, VERIF_REC_DIR=recdir, PYTHONPATH=common.VERIF, PYTHONDONTWRITEBYTECODE="1")
        p = subprocess.run([sys.executable, "-m", "pytest", "-q", "-p", "no:cacheprovider", "-p", "rec.verif_rec",
                            "-n", "8", "-x"] + tests, cwd=common.REPO, env=env, capture_output=True, text=True,
                           timeout=1500)
        info["pytest"] = p.stdout.strip().splitlines()[-1] if p.stdout.strip() else ""
        tr = collections.OrderedDict()
        files = sorted(glob.glob(os.path.join(recdir, "*.ndjson")))
        if extra_dir:
            files += sorted(glob.glob(os.path.join(extra_dir, "*.ndjson")))
        info["driver_trace_files"] = len(files) - len(glob.glob(os.path.join(recdir, "*.ndjson")))
        for f in files:
            for line in open(f):
                e = json.loads(line)
                if "recerr" in e:
                    continue
                tr.setdefault(e["tid"], []).append(e)
        traces = list(tr.values())
        info["traces"] = len(traces)
        info["events"] = sum(len(t) for t in traces)
        for t in traces:
            for e in t:
                info["ops"][e["op"]] = info["ops"].get(e["op"], 0) + 1
        if not traces:
            verdict.machinery_failure("recorder produced no traces (pytest: %s)" % info.get("pytest"))
            return info
        tf = os.path.join(recdir, "batch.json")
        with open(tf, "w") as f:
            json.dump({"traces": [{"events": t} for t in traces]}, f)
        res = tlc.run("TraceHistory", os.path.join(tlc.SPEC_DIR, "TraceHistory.cfg"), workers=1,
                      env={"TRACE_FILE": tf}, extra=("-continue",))
        info["tlc"] = res.summary()
        print("TLC TraceHistory:", res.summary(), "traces:", len(traces), "events:", info["events"],
              "violations:", len(res.all_violations))
        if res.error and not res.all_violations:
            verdict.machinery_failure("TraceHistory: %s\n%s" % (res.error, res.tail[-600:]))
            return info
        bad = {}
        for name, text in res.all_violations:
            m = re.findall(r"/\\ tid = (\d+)", text)
            b = re.findall(r'/\\ bad = "([^"]*)"', text)
            lpos = re.findall(r"/\\ l = (\d+)", text)
            if m and b:
                bad.setdefault(int(m[-1]) - 1, (b[-1], int(lpos[-1]) if lpos else 0))
        info["accepted"] = len(traces) - len(bad)
        for ti, (clause, lpos) in sorted(bad.items()):
            ev = traces[ti][max(0, lpos - 2)] if traces[ti] else {}
            key = {"act": "trace", "clauses": [clause], "selective": False,
                   "redo_after_dropped_prerequisite": False, "remove_inverse_missing": False}
            verdict.failure(key, {"property": PROP, "key": key, "kind": "repository-test trace rejected by "
                                  "TraceHistory", "clause": clause, "event": ev, "trace": traces[ti][:12]})
        return info
    finally:
        common.rmtree(recdir)


def main(tier):
    timer = common.Timer()
    verdict = common.Verdict(PROP)
    total_states = total_trans = 0
    runs = []
    behs = []
    seen = set()
    for name, consts, mode, num in configs(tier):
        cfg = os.path.join(common.SCRATCH_BASE, "c11_%d.cfg" % os.getpid())
        got = []

        def on_beh(tag, v, got=got, name=name):
            # the 5-call exhaustive export has > 500 k behaviours: a seeded third of them is replayed
            # (TLC still checks every state); everything else is replayed completely
            if name == "exhaustive-5calls" and (counted[0] + len(got) + common.SEED) % 3:
                on_beh.skipped = getattr(on_beh, "skipped", 0) + 1
                got.append(None)
                return
            got.append(v)
            if len(got) >= 20000:
                flush(got, name)

        def flush(got, name):
            for b in got:
                if b is None:
                    continue
                d = common.digest(b)
                if d not in seen:
                    seen.add(d)
                    b["_cfg"] = name
                    behs.append((d, name, json.dumps(b, separators=(",", ":"))))
            counted[0] += len(got)
            del got[:]

        counted = [0]
        if mode == "export":
            tlc.write_cfg(cfg, constants=consts, invariants=INVARIANTS + ["Export"], properties=PROPERTIES)
            res = tlc.run("MC_RopeHistory", cfg, on_tagged=on_beh, collect_tags=False)
        elif mode == "deep":
            tlc.write_cfg(cfg, constants=consts, invariants=INVARIANTS, view="View")
            res = tlc.run("MC_RopeHistory", cfg)
        else:
            tlc.write_cfg(cfg, constants=consts, invariants=INVARIANTS + ["Export"])
            res = tlc.run("MC_RopeHistory", cfg, simulate={"num": max(1, num // 16)}, depth=32, seed=common.SEED + 7,
                          on_tagged=on_beh, collect_tags=False)
        os.unlink(cfg)
        flush(got, name)
        print("TLC RopeHistory[%s]:" % name, res.summary(), "behaviours:", counted[0])
        runs.append({"config": name, "mode": mode, **res.summary(), "behaviours": counted[0]})
        if not res.ok:
            if res.violated:
                path = common.write_replay(PROP, {"kind": "tlc-counterexample", "config": name,
                                                  "invariant": res.violated, "trace": res.trace})
                print("VIOLATION property=%s replay=%s" % (PROP, path))
                print("TLC: %s violated on the model of History (config %s)" % (res.violated, name))
                return 1
            print("MACHINERY-FAILURE property=%s TLC[%s]: %s\n%s" % (PROP, name, res.error, res.tail))
            return 2
        if mode != "sim":
            total_states += res.distinct
            total_trans += res.generated
        # (several hundred thousand nested dicts do not fit in memory - 41 GB at the thorough bounds: flush()
        # keeps each behaviour as compact JSON text)
    behs.sort(key=lambda t: t[0])
    cap = 60000 if tier == "quick" else 260000
    if len(behs) > cap:
        # stratified: configurations with few behaviours are replayed completely, the big ones are sampled
        import collections
        per = collections.Counter(t[1] for t in behs)
        small = [t for t in behs if per[t[1]] <= 12000]
        big = [t for t in behs if per[t[1]] > 12000]
        rnd = common.rng("c11cap")
        rnd.shuffle(big)
        behs = small + big[:max(0, cap - len(small))]
    behs = [t[2] for t in behs]
    import gc
    gc.collect()
    drvdir = common.scratch("c11drv_")
    os.environ["VERIF_REC_DIR"] = drvdir
    replayed = steps = 0
    nontrivial = 0
    selective = 0
    samples = []
    for r in replay.pool_map(run_behaviour, behs, chunk=300):
        replayed += 1
        if "machinery" in r:
            verdict.machinery_failure(r["machinery"][:800])
            continue
        steps += r.get("steps", 0)
        beh = r["beh"]
        acts = [s["act"] for s in beh["trail"]]
        if "undo" in acts or "redo" in acts:
            nontrivial += 1
        if any(s["act"] in ("undo", "redo") and s["arg"]["i"] not in (0,) and s["arg"]["i"] != len(beh["trail"][k - 1][s["act"]])
               for k, s in enumerate(beh["trail"]) if k > 0):
            selective += 1
            if len(samples) < 3 and replayed % 11 == 0:
                samples.append({"limit": beh["limit"], "calls": [
                    {"act": s["act"], "arg": s["arg"], "undo_after": s["undo"], "redo_after": s["redo"]}
                    for s in beh["trail"]]})
        if r["fails"]:
            verdict.failure(r["key"], {"property": PROP, "key": r["key"], "behaviour": beh, "step": r["step"],
                                       "observed": r["obs"], "expected": r["expected"]})
    if not samples and behs:
        b = json.loads(behs[len(behs) // 2])
        samples.append({"limit": b["limit"], "calls": [{"act": s["act"], "arg": s["arg"]} for s in b["trail"]]})
    os.environ.pop("VERIF_REC_DIR", None)
    tinfo = repo_test_traces(tier, verdict, extra_dir=drvdir)
    common.rmtree(drvdir)
    code = verdict.finish()
    common.write_evidence(PROP, tier, "model_checking", {
        "states": total_states, "transitions": total_trans,
        "traces_validated_against_impl": replayed + tinfo.get("traces", 0),
        "behaviours_replayed_spec_to_code": replayed,
        "repository_test_traces_validated_code_to_spec": tinfo,
        "steps_compared": steps,
        "samples": samples,
        "exhaustive": False,
        "distinct_nontrivial": nontrivial,
        "behaviours_with_selective_undo_redo": selective,
        "rule": "behaviours = paths of the TLC graph of RopeHistory of exactly MaxSteps API calls (exhaustive configs) "
                "plus random walks (simulation config); distinct by content; non-trivial = contains at least one "
                "undo/redo; after every call tree + undo/redo list identity are compared with the spec state",
        "tlc_runs": runs,
        "known_finding_hits": verdict.known_hits,
    }, timer.s(), violations=len(verdict.violations), assumptions=[
        "no external edits between calls (C13 covers those)",
        "clobbering moves and folder moves into missing parents are outside the legal action set",
        "history limit fixed per project lifetime",
    ])
    return code


def replay_case(obj):
    if "behaviour" not in obj:
        return True, obj
    r = run_behaviour(obj["behaviour"])
    if "machinery" in r:
        return True, r
    known = bool(r.get("fails")) and common.Verdict(PROP).match_known(r["key"]) is not None
    return bool(r.get("fails")) and not known, {k: r.get(k) for k in ("fails", "key", "step", "obs", "expected")}


if __name__ == "__main__":
    sys.exit(main(sys.argv[1] if len(sys.argv) > 1 else "quick"))
