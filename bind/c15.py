"""C15 - scopes and name tables agree with Python's symbol table.

TLC enumerates every abstract program of spec/PyScope.tla up to the bounds of
each feature group and checks the resolution rule's own invariants.  Every
exported program is rendered to Python source; the spec's tables are first
cross-checked against CPython (symtable / ast / tokenize / execution, see
bind/_pyscope.py: a disagreement is exit 2), then rope is asked:

  scopes    recursive get_scopes(): kinds, nesting, get_start() / get_end()
  names     names rope records as defined in each scope (get_defined_names() for
            module and class, get_names() for function and comprehension; an entry
            that is the very PyName of an enclosing table is an alias, not a definition)
  lookup    scope.lookup(n) from every scope for every name: None iff the spec says
            unbound; definition line on a token of the spec's binding; two lookups
            give the same PyName iff the spec gives them the same binding
  holding   get_inner_scope_for_line for every line, get_inner_scope_for_offset for
            every offset that is not a scope boundary

and the answers are compared with Local / Resolve / the scope tree of the spec.
"""
import json
import os
import sys

from engine import common, tlc, replay
from bind import _pyscope as ps

PROP = "C15"

MAIN_GROUPS = ["core", "nest", "layout", "blocks", "methods", "decos", "core2", "defnames", "targets", "comp", "calls", "decoys"]
FEATURE_GROUPS = ["params", "stmts", "walrus", "lambda"]

_ROOT = None
_PROJECT = None


def _project():
    global _PROJECT
    if _PROJECT is None:
        common.use_repo()
        from rope.base import project as project_mod
        _PROJECT = project_mod.Project(_ROOT, ropefolder=None)
    return _PROJECT


KIND_OF = {"GlobalScope": "module", "FunctionScope": "function", "ClassScope": "class",
           "ComprehensionScope": "comp"}


def observe(src, names, offsets):
    """rope's view of a module text, as plain data"""
    from rope.base import libutils
    project = _project()
    mod = libutils.get_string_module(project, src)
    top = mod.get_scope()
    scopes = []      # pre-order
    objs = []

    def walk(sc, parent):
        rec = {"kind": KIND_OF.get(type(sc).__name__, type(sc).__name__), "parent": parent}
        try:
            rec["start"] = sc.get_start()
            rec["end"] = sc.get_end()
        except Exception as e:   # noqa
            rec["extent_error"] = "%s: %s" % (type(e).__name__, e)
        scopes.append(rec)
        objs.append(sc)
        me = len(scopes)
        for ch in sc.get_scopes():
            walk(ch, me)
    walk(top, 0)
    for i, sc in enumerate(objs):
        rec = scopes[i]
        table = sc.get_defined_names() if rec["kind"] in ("module", "class") else sc.get_names()
        anc = []
        p = sc.parent
        while p is not None:
            anc.append(p.get_names())
            p = p.parent
        own, alias = [], []
        for n in names:
            if n in table:
                if any(t.get(n) is table[n] for t in anc):
                    alias.append(n)
                else:
                    own.append(n)
        rec["own"] = own
        rec["alias"] = alias
        look = {}
        for n in names:
            pn = sc.lookup(n)
            if pn is None:
                look[n] = None
            else:
                m, ln = pn.get_definition_location()
                look[n] = {"line": ln, "type": type(pn).__name__, "id": id(pn), "here": m is mod}
        rec["lookup"] = look
    nlines = src.count("\n")
    by_line = []
    for ln in range(1, nlines + 1):
        by_line.append(objs.index(top.get_inner_scope_for_line(ln)) + 1)
    by_off = {}
    for off in offsets:
        by_off[off] = objs.index(top.get_inner_scope_for_offset(off)) + 1
    return {"scopes": scopes, "by_line": by_line, "by_off": by_off}


def _rel(prog, s, r):
    if r == 0:
        return "unbound"
    if r == 1:
        return "global" if s != 1 else "self"
    if r == s:
        return "self"
    return "enclosing-" + prog.kind(r)


def _path(prog, s):
    out = [s]
    while s > 1:
        s = prog.parent(s)
        out.append(s)
    return out


def cause_of(prog, s, n, want):
    """Shrunk description of the construct a deviating (scope, name) item depends on,
    computed from the facts the spec exported (declarations, binders, local tables)."""
    path = _path(prog, s)
    module_binds = (1, n) in prog.local
    gdecl_any = any(nn == n for (_, nn) in prog.gdecl)
    if gdecl_any and not module_binds and (want in (0, 1) or any((t, n) in prog.gdecl for t in path)):
        return "global-without-module-binding"
    for t in range(2, prog.n + 1):
        # rope builds no scope for a lambda: what the lambda binds is seen in (or missing
        # from) the scope that holds it
        if prog.kind(t) == "lambda" and any(e["n"] == n and e["op"] in BIND_OPS for e in prog.by_scope.get(t, ())):
            h = prog.parent(t)
            while prog.kind(h) == "lambda":
                h = prog.parent(h)
            if t in path or h in path:
                return "lambda-scope-missing"
    for t in path:
        if prog.kind(t) == "comp" and prog.has(t, "walrus", n):
            return "walrus-in-comp"
    ndecls = [t for t in path if (t, n) in prog.ndecl]
    if ndecls:
        # prefer the declaring block that also rebinds the name
        return "nonlocal-rebound" if any(_binders(prog, t, n) for t in ndecls) else "nonlocal-decl-only"
    if prog.kind(s) in ("comp", "lambda"):
        h = prog.parent(s)
        while prog.kind(h) == "comp":
            h = prog.parent(h)
        if prog.kind(h) == "class" and ((h, n) in prog.local or (h, n) in prog.gdecl or (h, n) in prog.ndecl):
            # the class binds the name or redirects it with global / nonlocal
            return "%s-in-class-body:class-binds-the-name" % prog.kind(s)
    decls = [t for t in path if (t, n) in prog.gdecl]
    if decls:
        # prefer the declaring block that also binds the name by def / class / import
        best = None
        for t in decls:
            b = _binders(prog, t, n)
            special = [x for x in b if x not in ASSIGN_LIKE]
            if special:
                return "global-decl:" + "+".join(special)
            best = best or ("global-decl:" + ("+".join(b) or "no-binder"))
        return best
    where = want if want >= 1 else s
    return "by:" + ("+".join(_binders(prog, where, n)) or "none")


def _split(cause):
    """a binding that rope did not see at all: every one of its binders failed to
    register the name, so the failure is attributed to each binder separately"""
    if cause.startswith("by:") and "+" in cause:
        return ["by:" + op for op in cause[3:].split("+")]
    return [cause]


# binders that rope routes through one mechanism (_ScopeVisitor._assigned); the
# remaining ones (def, class, import) write the scope table directly
ASSIGN_LIKE = ("bind", "for", "with", "with2", "except", "walrus", "walrus-in-comp", "aug", "del", "matchcap", "annbind")


def compare(prog, r, info, obs):
    """-> list of (key, detail) failures; key = {clause, obs, cause}"""
    fails = []
    spans = info["spans"]

    def fail(clause, what, cause, detail):
        fails.append(({"clause": clause, "obs": what, "cause": cause}, detail))
    # ---- scopes: match by (kind, start line)
    rope_of = {}      # spec scope -> rope index (1-based)
    spec_of = {}
    by_start = {}
    for i, rs in enumerate(obs["scopes"], 1):
        by_start.setdefault((rs["kind"], rs.get("start")), []).append(i)
    for s in range(1, prog.n + 1):
        cands = by_start.get((prog.kind(s), spans[s][0][0] if s > 1 else 1), [])
        if cands:
            rope_of[s] = cands.pop(0)
            spec_of[rope_of[s]] = s
        else:
            fail("scopes", "missing", prog.kind(s),
                 "no rope scope for spec scope %d (%s at line %d)" % (s, prog.kind(s), spans[s][0][0]))
    for i, rs in enumerate(obs["scopes"], 1):
        if i not in spec_of:
            fail("scopes", "extra", rs["kind"],
                 "rope scope %s at line %s is not a scope of the program" % (rs["kind"], rs.get("start")))

    def holder(s):
        while s not in rope_of and s > 1:
            s = prog.parent(s)      # the scope itself is missing (reported above)
        return s
    for s, i in rope_of.items():
        rs = obs["scopes"][i - 1]
        if "extent_error" in rs:
            fail("extent", "error", prog.kind(s), rs["extent_error"])
            continue
        want_end = spans[s][1][0] if s > 1 else len(r.lines)
        if rs["end"] != want_end:
            nested = s > 1 and prog.kind(s) in ("comp", "lambda") and prog.kind(prog.parent(s)) in ("comp", "lambda")
            fail("extent", "end", prog.kind(s) + (":nested-in-multi-line-expression" if nested else ""),
                 "scope %d ends at line %d for CPython, %d for rope" % (s, want_end, rs["end"]))
        if s > 1 and spec_of.get(rs["parent"]) != holder(prog.parent(s)):
            fail("scopes", "nesting", prog.kind(s),
                 "scope %d nested in %s for rope, %d for CPython" % (s, spec_of.get(rs["parent"]), prog.parent(s)))
    # ---- names per scope
    for s, i in rope_of.items():
        rs = obs["scopes"][i - 1]
        for n in prog.names:
            local = (s, n) in prog.local
            binders = _binders(prog, s, n)
            if local and n not in rs["own"]:
                for op in binders or ["?"]:
                    fail("names", "missing", "by:%s" % op,
                         "%s is bound in scope %d by %s; rope's table lacks it%s" % (
                             n, s, binders, " (it holds an outer scope's PyName)" if n in rs["alias"] else ""))
            if not local and n in rs["own"]:
                fail("names", "extra", cause_of(prog, s, n, prog.resolve[(s, n)]),
                     "rope defines %s in scope %d; for CPython it is not local there" % (n, s))
    # ---- lookup
    token_lines = {}
    for e in prog.events:
        if e["b"] != 0 and e["op"] not in ps.DECOYS and ps.ev_key(e) in r.tok:
            token_lines.setdefault((e["b"], e["n"]), set()).add(r.tok[ps.ev_key(e)][0])
    for s, i in sorted(rope_of.items()):
        rs = obs["scopes"][i - 1]
        for n in prog.names:
            want = prog.resolve[(s, n)]
            got = rs["lookup"][n]
            cause = cause_of(prog, s, n, want)
            if want == 0:
                if any((t, n) in prog.gdecl for t in _path(prog, s)):
                    continue      # declared global, bound nowhere: no binding to compare with
                if got is not None:
                    fail("lookup", "found-unbound", cause,
                         "lookup(%s) from scope %d finds line %s; unbound for CPython" % (n, s, got["line"]))
                continue
            if got is None:
                for c in _split(cause):
                    fail("lookup", "none", c,
                         "lookup(%s) from scope %d finds nothing; CPython: binding of scope %d" % (n, s, want))
                continue
            # definition location, where rope reports one inside this module: it must be a
            # token of CPython's binding.  Imported names are defined in the imported
            # module by design and some binders carry no line (walrus): identity below
            # still compares those.
            lines = token_lines.get((want, n), set())
            if got["here"] and got["line"] is not None and got["line"] not in lines:
                where = sorted(k[0] for k, v in token_lines.items() if k[1] == n and got["line"] in v)
                path = _path(prog, s)
                if where and all(w in path and (want == 1 or path.index(w) > path.index(want)) and w != want
                                 for w in where) and want != 1:
                    side = "outer"       # rope went past CPython's binding
                elif where and all(w in path and (want == 1 or path.index(w) < path.index(want)) for w in where):
                    side = "inner"       # rope stopped before CPython's binding
                else:
                    side = "elsewhere"
                for c in (_split(cause) if side == "outer" else [cause]):
                    fail("lookup", side, c,
                         "lookup(%s) from scope %d is defined at line %s (binding of scope %s); tokens of CPython's "
                         "binding (scope %d) are on lines %s" % (n, s, got["line"], where, want, sorted(lines)))
    # identity: a lookup returns the very PyName that the binding's own scope holds
    # (same binding <=> same PyName), and different bindings have different PyNames
    reps = {}
    for s, i in sorted(rope_of.items()):
        for n in prog.names:
            if prog.resolve[(s, n)] == s or (s == 1 and prog.resolve[(s, n)] == 1):
                got = obs["scopes"][i - 1]["lookup"][n]
                if got is not None:
                    reps[(s, n)] = got["id"]
    for s, i in sorted(rope_of.items()):
        for n in prog.names:
            want = prog.resolve[(s, n)]
            got = obs["scopes"][i - 1]["lookup"][n]
            if want == 0 or got is None or want == s or (want, n) not in reps:
                continue
            if reps[(want, n)] != got["id"]:
                c = cause_of(prog, s, n, want)
                fail("lookup-identity", "split", c,
                     "lookup(%s) from scope %d and from scope %d: same binding for CPython, different PyNames "
                     "for rope" % (n, s, want))
    for (s1, n1), id1 in sorted(reps.items()):
        for (s2, n2), id2 in sorted(reps.items()):
            if n1 == n2 and s1 < s2 and id1 == id2:
              for c in _split(cause_of(prog, s2, n2, s2)):
                fail("lookup-identity", "merged", c,
                     "lookup(%s) from scopes %d and %d: different bindings for CPython, one PyName for rope" % (
                         n1, s1, s2))
    # ---- holding scope by line and by offset
    for ln, got_i in enumerate(obs["by_line"], 1):
        want = 1
        for s in range(2, prog.n + 1):
            if spans[s][0][0] <= ln <= spans[s][1][0]:
                want = s     # pre-order: a later match is deeper
        got = spec_of.get(got_i)
        ok = {holder(want)}
        if want > 1 and prog.kind(want) in ("function", "class") and ln == spans[want][0][0]:
            ok.add(holder(prog.parent(want)))      # the header line also belongs to the enclosing block
        if got not in ok:
            where = "header" if ln == spans[want][0][0] else "last" if ln == spans[want][1][0] else "inside"
            if got and prog.kind(got) == "comp" and prog.kind(prog.parent(got)) in ("comp", "lambda"):
                where = "comp:nested-in-multi-line-expression"     # its get_end() is the logical line's
            fail("holding-line", "%s-for-%s" % (prog.kind(got) if got else "?", prog.kind(want)), where,
                 "line %d is in scope %d for CPython, rope says %s" % (ln, want, got))
    starts = _line_starts(r)
    import bisect
    for off, got_i in obs["by_off"].items():
        li = bisect.bisect_right(starts, off) - 1
        pos = (li + 1, off - starts[li])
        want = 1
        for s in range(2, prog.n + 1):
            if spans[s][0] < pos < spans[s][1]:
                want = s
        got = spec_of.get(got_i)
        if got != holder(want):
            fail("holding-offset", "%s-for-%s" % (prog.kind(got) if got else "?", prog.kind(want)), "",
                 "offset %d (%s) is in scope %d for CPython, rope says %s" % (off, pos, want, got))
    return fails


def _line_starts(r):
    st = getattr(r, "_starts", None)
    if st is None:
        st = [0]
        for l in r.lines:
            st.append(st[-1] + len(l) + 1)
        r._starts = st
    return st


def _binders(prog, s, n):
    """operations that bind n in the block of s (from the exported events)"""
    out = set()
    for e in prog.events:
        if e["n"] != n:
            continue
        if e["s"] == s and e["op"] in BIND_OPS and not (e["op"] == "walrus" and prog.kind(s) == "comp"):
            out.add(e["op"])
        if e["op"] == "walrus" and prog.kind(e["s"]) == "comp" and e["s"] != s and e["b"] in (s, 1 if s == 1 else s):
            # hoisted here?  its binding scope is s (or the global if s declares it global)
            h = e["s"]
            while prog.kind(h) == "comp":
                h = prog.parent(h)
            if h == s:
                out.add("walrus-in-comp")
    return sorted(out)


BIND_OPS = {"bind", "import", "importfrom", "for", "with", "with2", "except", "aug", "del", "matchcap", "walrus",
            "annbind", "param", "posonly", "kwonly", "vararg", "kwarg", "defname"}


def offsets_to_ask(r, spans):
    """every offset of the text except the first character of a scope (is the cursor
    before `def` inside the function?); the offset just past a scope is outside it"""
    starts = _line_starts(r)
    skip = set()
    for (a, b) in spans.values():
        ln, col = a
        skip.add(starts[ln - 1] + col)
    for ln in r.deco_lines:
        # a decorator line belongs to the def statement (rope's region starts at the `@`) while
        # its expression is evaluated outside the function: not asked
        col = max([a[1] for (a, b) in spans.values() if a[0] == ln + 1] or [0])
        skip.update(range(starts[ln - 1], starts[ln] + col + 1))
    total = starts[-1]
    return [o for o in range(total) if o not in skip]


def run_case(item):
    group, rec = item
    prog = ps.Program(rec)
    r = ps.render(prog)
    try:
        info = ps.cpython_check(prog, r)
    except ps.SpecMismatch as e:
        return {"machinery": "spec vs CPython: %s\n%s\n%s" % (e, ps.describe(prog), r.src)}
    obs = observe(r.src, prog.names, offsets_to_ask(r, info["spans"]))
    fails = compare(prog, r, info, obs)
    nchecks = len(obs["by_line"]) + len(obs["by_off"]) + 2 * prog.n * len(prog.names) + prog.n
    out = {"group": group, "fails": [], "nchecks": nchecks, "nscopes": prog.n, "nev": len(prog.events)}
    if fails:
        out["fails"] = [{"key": k, "detail": d} for k, d in fails]
        out["program"] = ps.describe(prog)
        out["src"] = r.src
        out["rec"] = rec
        out["rope"] = obs["scopes"]
    elif rec.get("_sample"):
        out["sample"] = {"program": ps.describe(prog), "source": r.src,
                         "spec_names": sorted(prog.local), "spec_resolve": rec["resolve"],
                         "rope_scopes": [[s["kind"], s.get("start"), s.get("end"), s["own"]] for s in obs["scopes"]]}
    return out


def main(tier):
    global _ROOT
    timer = common.Timer()
    verdict = common.Verdict(PROP)
    rnd = common.rng("c15")
    groups = MAIN_GROUPS + FEATURE_GROUPS
    per_group_cap = 2500 if tier == "quick" else 40000      # thorough: a cap keeps the run inside its budget
    if os.environ.get("PYSCOPE_CAP"):      # development aid: replay everything / another cap
        per_group_cap = int(os.environ["PYSCOPE_CAP"])
    capped = []
    tlc_stats = {}
    items = []
    states = transitions = 0
    runs = ps.run_groups(groups, tier, coverage=(tier == "quick"),
                         invariants=["TypeOK", "ResolveTotal", "ClassSkip", "LocalWins", "NonlocalBinds"],
                         properties=["ResolveStable"])
    for g in groups:
        res, progs = runs[g]
        tlc_stats[g] = dict(res.summary(), programs=len(progs))
        print("TLC PyScope[%s]: %s programs=%d" % (g, res.summary(), len(progs)))
        if not res.ok:
            if res.violated:
                print("MACHINERY-FAILURE property=%s the resolution rule violates its own invariant %s in group %s\n%s" % (
                    PROP, res.violated, g, res.trace[:3000]))
            else:
                print("MACHINERY-FAILURE property=%s TLC: %s\n%s" % (PROP, res.error, res.tail))
            return 2
        if res.coverage:
            for a in ("AnyAddScope", "AnyAddEvent"):
                if a in res.coverage and res.coverage[a][1] == 0:
                    verdict.machinery_failure("action %s never taken" % a)
        states += res.distinct
        transitions += res.generated
        progs.sort(key=lambda x: json.dumps(x, sort_keys=True))
        if len(progs) > per_group_cap and not (tier == "quick" and ps.GROUPS[g].get("replay_all")):
            capped.append("%s: %d of %d" % (g, per_group_cap, len(progs)))
            progs = rnd.sample(progs, per_group_cap)
        for k, p in enumerate(progs):
            if k % 997 == 5:
                p["_sample"] = True
            items.append((g, p))
    print("TLC done after %.0f s; replaying %d items" % (timer.s(), len(items)))
    _ROOT = common.scratch("c15_")
    replayed = 0
    nchecks = 0
    nontrivial = 0
    by_group = {}
    samples = []
    try:
        for r in replay.pool_map(run_case, items, chunk=100):
            if "machinery" in r:
                verdict.machinery_failure(r["machinery"][:1500])
                continue
            replayed += 1
            nchecks += r["nchecks"]
            g = by_group.setdefault(r["group"], {"programs": 0, "failing": 0})
            g["programs"] += 1
            if r["nscopes"] >= 2 and r["nev"] >= 2:
                nontrivial += 1
            if r["fails"]:
                g["failing"] += 1
            if "sample" in r and len(samples) < 4:
                samples.append(r["sample"])
            seen = set()
            for f in r["fails"]:
                ks = json.dumps(f["key"], sort_keys=True)
                if ks in seen:
                    continue
                seen.add(ks)
                verdict.failure(f["key"], {"property": PROP, "key": f["key"], "detail": f["detail"],
                                           "program": r["program"], "source": r["src"], "spec": r["rec"],
                                           "rope_scopes": r["rope"]})
    finally:
        common.rmtree(_ROOT)
    if replayed == 0:
        verdict.machinery_failure("no program was replayed")
    code = verdict.finish()
    exhaustive = tier == "thorough"
    common.write_evidence(PROP, tier, "model_checking", {
        "states": states, "transitions": transitions,
        "traces_validated_against_impl": replayed,
        "samples": samples or [{"note": "no sampled program"}],
        "exhaustive": exhaustive and not capped,
        "sampled_groups": capped,
        "distinct_nontrivial": nontrivial,
        "rule": "one abstract program per reachable TLC state that satisfies WellFormed, per feature group; each "
                "rendered, cross-checked against CPython (symtable/ast/tokenize/execution) and compared with rope's "
                "scopes, name tables, lookups and holding scopes; non-trivial = at least 2 scopes and 2 name events",
        "comparisons": nchecks,
        "tlc_by_group": tlc_stats,
        "replayed_by_group": by_group,
        "known_finding_hits": verdict.known_hits,
    }, timer.s(), violations=len(verdict.violations), assumptions=[
        "fragment: <= 4 scopes, <= 5 name events, 1-2 identifiers, fixed statement order inside a block "
        "(declarations, binders, nested scopes, uses, unbinders)",
        "list comprehensions stand for all comprehension kinds; symtable is read on the generator-expression twin",
    ])
    return code


if __name__ == "__main__":
    sys.exit(main(sys.argv[1] if len(sys.argv) > 1 else "quick"))
