"""C16 - files survive rope byte-for-byte apart from the intended edit.

TLC explores spec/Codec.tla: every abstract source file of the bounded model
(BOM x coding-line position x cookie form x encoding spelling x newline
convention x final newline x body lines carrying payload characters of several
classes) x every action (read/write-back, forced rewrite, edit / insert /
delete a line, rename of the bound identifier) followed by undo.  The spec
computes the bytes on disk from its own per-encoding byte tables and checks
Glue / Identity / LocalEdit / ReadBack / UndoRestores on the model; each
terminal state is printed as one behaviour carrying the expected bytes and
texts.

Every behaviour is replayed on a real rope project: the spec's bytes are
written to disk, rope performs the action (File.read / File.write,
project.do(ChangeContents), rename.Rename, history.undo) and the bytes on disk
and the text rope reads back are compared with the spec's.  CPython keeps the
spec honest: `tokenize.detect_encoding`, `bytes.decode` and `ast.parse` of the
rendered bytes must give the spec's encoding, text and string literals, and
the spec's byte table must equal Python's codecs (exit 2 otherwise).
"""
import ast as py_ast
import codecs
import io
import json
import os
import re
import sys
import threading
import tokenize

from engine import common, tlc, replay

PROP = "C16"

ALL_CLASSES = {"a", "ff", "eac", "cur", "nel", "A1", "eur", "ls", "zw", "so", "hi", "ast"}
ALL_LAYOUTS = {"none", "p1", "p2s", "p2b", "p2p", "p2x", "p3"}
# lengths the renderer gives to the run the spec calls PadMark: the first line ("# " + run) is 4094, 4095,
# 4096 and 5000 characters long (around the 4 KiB a tool may sniff), and 5 as a control
PAD_LENGTHS = (3, 4092, 4093, 4094, 4998)
ALL_OPS = {"rwb-write", "rwb-force", "edit", "insert", "delete", "rename"}
BASE = {"NLs": {"LF", "CRLF", "CR"}, "Finals": {True, False}, "Boms": {True, False},
        "InsertKinds": {"com"}, "UndoModes": {"session"}, "RestoreNL": True, "KeepBom": True,
        "HeadClasses": {"ff", "nel", "ls"}, "AllowConvert": False}

QUICK_SAMPLE = 100000   # behaviours replayed in the quick tier (seeded sample of all exported ones)
INVARIANTS = ["TypeOK", "Glue", "ReadOK", "Identity", "LocalEdit", "ReadBack", "UndoRestores", "EncStable",
              "ConvertOnlyNewlines"]


# a long-lived File object: read once, the file's newline convention is converted outside rope
# (every ordered pair of conventions), then the edit goes through the same object
CONVERT = ("convert", dict(BASE, Classes={"eac"}, Cookies=tlc.Sub("MCCookiesLatin"), Layouts={"none", "p1"},
                           Boms={False}, BodyKinds={"def", "use", "com"}, MaxBody=2, MaxPayload=1, MaxChars=1,
                           NewNames={"long"}, Ops={"rwb-write", "rwb-force", "edit", "insert", "rename"},
                           AllowConvert=True))


# a very long first line (comment), alone or before the coding line: the file's convention and
# encoding must not depend on how far into the file the first line break is
LONGLINE = ("longline", dict(BASE, Classes={"eac"}, Cookies=tlc.Sub("MCCookiesLatin"), Layouts={"l1", "p2l"},
                             BodyKinds={"def", "com"}, MaxBody=1, MaxPayload=1, MaxChars=1, NewNames={"long"},
                             Ops={"rwb-force", "edit", "insert", "rename"}))


def slices(tier):
    """The bounded models.  Two slices keep the product tractable: `cookies`
    crosses coding-line forms, spellings and positions with a small body;
    `payload` crosses body shapes and character classes with plain cookies."""
    if tier == "quick":
        return [
            ("cookies", dict(BASE, Classes={"eac", "eur", "A1"}, Cookies=tlc.Sub("MCCookiesQuick"),
                             Layouts=ALL_LAYOUTS, BodyKinds={"def", "com"}, MaxBody=1, MaxPayload=1,
                             MaxChars=1, NewNames={"long", "lat"}, Ops={"rwb-force", "edit", "rename"})),
            ("payload", dict(BASE, Classes={"eac", "ls", "ast", "so"},
                             Cookies=tlc.Sub("MCCookiesPlain"), Layouts={"none", "p1"},
                             BodyKinds={"def", "use", "com"}, MaxBody=2, MaxPayload=1, MaxChars=1,
                             NewNames={"long", "lat"}, Ops=ALL_OPS, UndoModes={"session", "reopen"})),
            CONVERT, LONGLINE,
        ]
    return [
        ("cookies", dict(BASE, Classes={"eac", "eur", "A1", "so"}, Cookies=tlc.Sub("MCCookiesAll"),
                         Layouts=ALL_LAYOUTS, BodyKinds={"def", "com"}, MaxBody=1, MaxPayload=1,
                         MaxChars=1, NewNames={"long", "lat"}, Ops={"rwb-write", "rwb-force", "edit", "rename"})),
        ("payload", dict(BASE, Classes=ALL_CLASSES, Cookies=tlc.Sub("MCCookiesPlain"),
                         Layouts={"none", "p1", "p2s"}, BodyKinds={"def", "use", "str", "com", "two"},
                         MaxBody=2, MaxPayload=1, MaxChars=1,
                         NewNames={"long", "short", "lat", "cjk"}, Ops=ALL_OPS)),
        ("pairs", dict(BASE, Classes={"eac", "eur", "nel", "ls", "ast", "so"}, Cookies=tlc.Sub("MCCookiesPlain"),
                       Layouts={"none", "p1"}, BodyKinds={"def", "str", "com"}, MaxBody=1, MaxPayload=2,
                       MaxChars=2, NewNames={"long", "lat"}, Ops=ALL_OPS)),
        ("lines", dict(BASE, Classes={"eac"}, Cookies=tlc.Sub("MCCookiesPlain"),
                       Layouts={"none", "p1"}, BodyKinds={"def", "use", "com", "two"},
                       MaxBody=3, MaxPayload=1, MaxChars=1, NewNames={"long", "lat"}, Ops=ALL_OPS,
                       UndoModes={"session", "reopen"})),
        CONVERT, LONGLINE,
    ]


# ------------------------------------------------------------------ TLC
def run_tlc(name, consts, out, workers, coverage=False):
    cfg = os.path.join(common.SCRATCH_BASE, "c16_%s_%d.cfg" % (name, os.getpid()))
    tlc.write_cfg(cfg, constants=consts, invariants=INVARIANTS + ["Export"])
    behs, tabs = [], []

    def on(tag, v):
        if tag == "BEH":
            behs.append(compact(v, name))
        elif tag == "TAB":
            tabs.append(v)

    try:
        res = tlc.run("MC_Codec", cfg, workers=workers, on_tagged=on, collect_tags=False, coverage=coverage,
                      java_opts=("-Xmx4g",))   # the models are small; several JVMs run side by side
    finally:
        os.unlink(cfg)
    out[name] = (res, behs, tabs)


def compact(v, slice_name):
    """JSON behaviour -> compact Python values (bytes / str) for pickling."""
    for k in ("bytes0", "bytes1", "bytes2", "pre"):
        v[k] = bytes(v[k])
    for k in ("text0", "text1", "newline"):
        v[k] = "".join(map(chr, v[k]))
    v["strs0"] = ["".join(map(chr, s)) for s in v["strs0"]]
    v["slice"] = slice_name
    return v


def check_table(tab, verdict):
    """The spec's byte table against Python's codecs, both directions."""
    n = 0
    for cls, cp, enc, bs in tab:
        n += 1
        try:
            py = list(chr(cp).encode(enc))
        except UnicodeEncodeError:
            py = []
        if py != list(bs):
            verdict.machinery_failure("byte table: class %s U+%04X in %s: spec %s, Python %s" % (cls, cp, enc, bs, py))
    if n == 0:
        verdict.machinery_failure("byte table not exported")
    return n


# ------------------------------------------------------------------ CPython side
_UNL = re.compile("\r\n|\r")
_cpy_cache = {}


def cpython_view(data):
    """What CPython makes of the bytes: (encoding, normalised text, string literals) or an error string."""
    if data in _cpy_cache:
        return _cpy_cache[data]
    try:
        ls = data.splitlines(True)
        try:
            lines = iter(ls)
            enc, _ = tokenize.detect_encoding(lambda: next(lines, b""))
        except SyntaxError:
            # tokenize.detect_encoding (the Python re-implementation) insists that a first line
            # without cookie is valid UTF-8 and rejects b"# \x85\n# coding: latin-1"; the compiler
            # itself accepts it (ast.parse below is the judge).  Detection is retried with the
            # non-ASCII bytes of a first comment line masked.
            if not re.match(rb"^[ \t\f]*#", ls[0] if ls else b""):
                raise
            lines = iter([bytes(c if c < 128 else 63 for c in ls[0])] + ls[1:])
            enc, _ = tokenize.detect_encoding(lambda: next(lines, b""))
        text = _UNL.sub("\n", data.decode(enc))
        tree = py_ast.parse(data)
        strs = [n.value.value for n in tree.body
                if isinstance(n, py_ast.Assign) and isinstance(n.value, py_ast.Constant)
                and isinstance(n.value.value, str)]
        out = (codecs.lookup(enc).name, text, strs)
    except (SyntaxError, UnicodeError, LookupError, ValueError) as e:
        out = "%s: %s" % (type(e).__name__, e)
    if len(_cpy_cache) > 20000:
        _cpy_cache.clear()
    _cpy_cache[data] = out
    return out


def cross_check(beh):
    """Spec vs CPython on the rendered file before and after the action; None if they agree."""
    f0 = beh["file0"]
    want_enc = codecs.lookup(beh["enc"] + ("-sig" if f0["bom"] else "")).name
    v0 = cpython_view(beh["bytes0"])
    if isinstance(v0, str):
        return "CPython rejects the rendered file: %s" % v0
    if v0[0] != want_enc:
        return "declared encoding: spec %s, CPython %s" % (want_enc, v0[0])
    if v0[1] != beh["text0"]:
        return "decoded text: spec %r, CPython %r" % (beh["text0"], v0[1])
    if v0[2] != beh["strs0"]:
        return "string literals: spec %r, CPython %r" % (beh["strs0"], v0[2])
    v1 = cpython_view(beh["bytes1"])
    if isinstance(v1, str):
        return "CPython rejects the file after the action: %s" % v1
    if v1[0] != want_enc or v1[1] != beh["text1"]:
        return "file after the action: spec (%s, %r), CPython (%s, %r)" % (want_enc, beh["text1"], v1[0], v1[1])
    return None


# ------------------------------------------------------------------ rope side
BOMCH = "\ufeff"
NEW_NAMES = {"long": "renamed", "short": "n", "lat": "n\xe9", "cjk": "ソ"}


def expand(beh):
    """Render the spec's PadMark as a run of `padlen` letters, in every byte string and text alike."""
    k = beh.get("padlen")
    if not k:
        return beh
    mark = beh["padmark"]
    out = dict(beh)
    for f in ("pre", "bytes0", "bytes1", "bytes2"):
        out[f] = beh[f].replace(bytes([mark]), b"x" * k)
    for f in ("text0", "text1", "newline"):
        out[f] = beh[f].replace(chr(mark), "x" * k)
    out["strs0"] = [t.replace(chr(mark), "x" * k) for t in beh["strs0"]]
    out["off"] = beh["off"] + (k - 1) * beh["text0"][:beh["off"]].count(chr(mark))
    return out


def collapse(obs, beh):
    """Undo the rendering of the pad in what is reported back (replays stay small)."""
    k = beh.get("padlen")
    if not k or k < 16:
        return obs
    out = dict(obs)
    for f, v in obs.items():
        if isinstance(v, bytes):
            out[f] = v.replace(b"x" * k, b"<pad>")
        elif isinstance(v, str) and len(v) > 200:
            out[f] = v.replace("x" * k, "<pad>")
    return out


def run_behaviour(compact_beh):
    """Replay one TLC behaviour on a real rope project and judge it."""
    beh = expand(compact_beh)
    r = _run_behaviour(beh)
    if "beh" in r:
        r["beh"] = compact_beh
        r["obs"] = collapse(r["obs"], compact_beh)
    return r


def _run_behaviour(beh):
    cc = cross_check(beh)
    if cc is not None:
        return {"machinery": "spec vs CPython: " + cc, "item": describe(beh)}
    common.use_repo()
    from rope.base import project as project_mod, change as change_mod, exceptions
    from rope.refactor import rename as rename_mod

    f0 = beh["file0"]
    op = beh["act"]["op"]
    root = common.scratch("c16_")
    obs = {"read0": None, "exc": None, "refused": False, "bytes1": None, "read1": None,
           "undo_exc": None, "bytes2": None, "written": None}
    try:
        path = os.path.join(root, "m.py")
        with open(path, "wb") as f:
            f.write(beh["pre"] or beh["bytes0"])
        reopen = beh["act"]["undo"] == "reopen"
        project = project_mod.Project(root) if reopen else project_mod.Project(root, ropefolder=None)
        try:
            res = project.get_file("m.py")
            prefix = ""
            try:
                if beh["pre"]:
                    # the File object is long-lived: it has read the file before something outside
                    # rope converted the line endings (no Project.validate() in between)
                    res.read()
                    with open(path, "wb") as f:
                        f.write(beh["bytes0"])
                t0 = res.read()
                obs["read0"] = t0
                # allowance: rope hands the BOM to its clients as a leading U+FEFF
                if f0["bom"] and t0.startswith(BOMCH):
                    prefix = BOMCH
                if op == "rwb-write":
                    res.write(res.read())
                    obs["written"] = t0
                elif op == "rwb-force":
                    cs = change_mod.ChangeSet("rewrite")
                    cs.add_change(change_mod.ChangeContents(res, t0))
                    project.do(cs)
                    obs["written"] = t0
                elif op in ("edit", "insert", "delete"):
                    # the edit is phrased, like any client's, on the text rope handed out:
                    # line k is replaced / inserted / deleted, all other lines are rope's own
                    lines = t0.split("\n")
                    k = beh["act"]["k"] - 1
                    if len(lines) != len(beh["text0"].split("\n")):
                        new = prefix + beh["text1"]
                    else:
                        head = prefix if k == 0 else ""
                        if op == "edit":
                            lines[k] = head + beh["newline"]
                        elif op == "insert":
                            if k == 0 and prefix:
                                lines[0] = lines[0][len(prefix):]
                            lines.insert(k, head + beh["newline"])
                        else:
                            del lines[k]
                            if k == 0 and prefix:
                                lines[0] = prefix + lines[0]
                        new = "\n".join(lines)
                    obs["written"] = new
                    cs = change_mod.ChangeSet(op)
                    cs.add_change(change_mod.ChangeContents(res, new))
                    project.do(cs)
                elif op == "rename":
                    # the request: rename the identifier bound on the first "def" line.  Its offset
                    # comes from the spec when rope's text is the spec's text; when rope decoded the
                    # file differently (noted as ReadText) it is the first occurrence in rope's text
                    if t0[len(prefix):] == beh["text0"]:
                        off = beh["off"] + len(prefix)
                    else:
                        off = t0.find("old")
                    changes = rename_mod.Rename(project, res, off).get_changes(
                        NEW_NAMES[beh["act"]["name"]])
                    for c in changes.changes:
                        if getattr(c, "resource", None) == res and hasattr(c, "new_contents"):
                            obs["written"] = c.new_contents
                    project.do(changes)
                else:
                    raise ValueError(op)
            except exceptions.RopeError as e:
                obs["exc"] = "%s: %s" % (type(e).__name__, str(e)[:200])
                obs["exc_type"] = type(e).__name__
                obs["refused"] = True
            except Exception as e:  # noqa
                obs["exc"] = "%s: %s" % (type(e).__name__, str(e)[:200])
                obs["exc_type"] = type(e).__name__
            with open(path, "rb") as f:
                obs["bytes1"] = f.read()
            try:
                obs["read1"] = project.get_file("m.py").read()
            except Exception as e:  # noqa
                obs["read1_exc"] = "%s: %s" % (type(e).__name__, str(e)[:200])
            if beh["undone"] and obs["exc"] is None and len(project.history.undo_list) > 0:
                try:
                    if reopen:
                        project.close()
                        project = project_mod.Project(root)
                    project.history.undo()
                except Exception as e:  # noqa
                    obs["undo_exc"] = "%s: %s" % (type(e).__name__, str(e)[:200])
                    obs["undo_exc_type"] = type(e).__name__
                with open(path, "rb") as f:
                    obs["bytes2"] = f.read()
        finally:
            project.close()
        return judge(beh, obs, prefix)
    finally:
        common.rmtree(root)


def diff_class(got, want):
    """Shrunk description of how two file images differ."""
    if got == want:
        return "none"
    bom = codecs.BOM_UTF8
    if got == bom + want:
        return "bom-added"
    if bom + got == want:
        return "bom-lost"
    norm = lambda b: b.replace(b"\r\n", b"\n").replace(b"\r", b"\n")
    if norm(got) == norm(want):
        return "newlines"
    ascii_only = lambda b: bytes(c for c in b if c < 128)
    if ascii_only(got) == ascii_only(want):
        return "non-ascii-bytes"
    if ascii_only(norm(got)) == ascii_only(norm(want)):
        return "newlines+non-ascii-bytes"
    return "other"


def cookie_case(f0, enc):
    """Which coding-line construct the file uses (part of the failure key)."""
    if f0["layout"] in ("none", "l1"):
        return "no-cookie"
    if f0["layout"] == "p2x":
        return "cookie-after-code-line"
    if f0["layout"] == "p3":
        return "cookie-on-third-line"
    if f0["layout"] == "p2b" and f0["form"] != "F5":
        return "cookie-after-blank-line"
    if f0["form"] == "F5":
        return "cookie-after-other-coding-word"
    if f0["spelling"] == "utf-8-sig":
        return "utf-8-sig-spelling"
    return "cookie"


def judge(beh, obs, prefix):
    f0 = beh["file0"]
    op = beh["act"]["op"]
    fails = []   # (clause, deviation)
    notes = []
    strip = lambda t: t[1:] if (t is not None and f0["bom"] and t.startswith(BOMCH)) else t
    if obs["read0"] is not None and strip(obs["read0"]) != beh["text0"]:
        notes.append("ReadText")
    changed = obs["bytes1"] != beh["bytes0"]
    if obs["exc"] is not None and not obs["refused"]:
        fails.append(("Crash", obs["exc_type"]))
    elif obs["refused"]:
        if op != "rename":
            fails.append(("Crash", obs["exc_type"]))
        elif changed:
            fails.append(("RefusedButChanged", diff_class(obs["bytes1"], beh["bytes0"])))
    else:
        d = diff_class(obs["bytes1"], beh["bytes1"])
        if d != "none":
            fails.append(("Identity" if op.startswith("rwb") else "LocalEdit", d))
        if obs.get("read1_exc"):
            fails.append(("ReadBack", "exception"))
        elif obs["written"] is None or obs["read1"] != obs["written"]:
            # clause 3: the text handed to rope (or computed by rope's refactoring) reads back equal
            fails.append(("ReadBack", "text"))
        elif strip(obs["read1"]) != beh["text1"]:
            notes.append("ReadText")
        if beh["undone"]:
            if obs["bytes2"] is None and obs["undo_exc"] is None:
                fails.append(("UndoRestores", "nothing-to-undo"))
            elif obs["undo_exc"] is not None:
                fails.append(("UndoRestores", obs["undo_exc_type"]))
            else:
                d2 = diff_class(obs["bytes2"], beh["bytes2"])
                if d2 != "none":
                    fails.append(("UndoRestores", d2))
    return {"fails": fails, "notes": notes, "beh": beh, "obs": obs,
            "refused": obs["refused"], "changed": changed}


def key_of(beh, clause, deviation):
    f0 = beh["file0"]
    return {"clause": clause, "deviation": deviation, "op": beh["act"]["op"],
            "undo": beh["act"]["undo"] if clause == "UndoRestores" else "-",
            "construct": cookie_case(f0, beh["enc"]), "nl": f0["nl"], "bom": f0["bom"],
            "converted_outside": bool(beh["pre"]), "first_line_length": first_line_class(beh),
            "cookie_encoding": codec_of(f0["spelling"]), "final": f0["final"]}


def first_line_class(beh):
    if beh["file0"]["layout"] not in ("l1", "p2l"):
        return "short"
    n = 2 + beh.get("padlen", 1)
    return "short" if n < 100 else "<4095" if n < 4095 else "4095" if n == 4095 else "4096" if n == 4096 else ">4096"


def codec_of(spelling):
    if spelling == "-":
        return "-"
    return codecs.lookup(spelling).name


def describe(beh):
    """JSON-able rendering of a behaviour for replays and samples."""
    out = {k: beh[k] for k in ("file0", "enc", "effective", "act", "off", "undone", "slice")}
    out["padlen"] = beh.get("padlen", 0)
    for k in ("pre", "bytes0", "bytes1", "bytes2"):
        out[k] = beh[k].decode("latin-1").encode("unicode_escape").decode("ascii")
    out["text1"] = beh["text1"]
    return out


def obs_json(obs):
    out = dict(obs)
    for k in ("bytes1", "bytes2"):
        if out.get(k) is not None:
            out[k] = out[k].decode("latin-1").encode("unicode_escape").decode("ascii")
    return out


# ------------------------------------------------------------------ main
class Acc:
    """Accumulates replay results over the slices."""

    def __init__(self, verdict):
        self.verdict = verdict
        self.replayed = self.refused = self.total = 0
        self.notes, self.by_op, self.cells, self.ops_seen = {}, {}, {}, {}
        self.nontrivial = set()
        self.samples = []

    def replay(self, behs, tier):
        padded = [b for b in behs if bytes([b["padmark"]]) in b["bytes0"]]
        if padded:
            behs[:] = [b for b in behs if bytes([b["padmark"]]) not in b["bytes0"]] + \
                      [dict(b, padlen=k) for b in padded for k in PAD_LENGTHS]
        behs.sort(key=lambda b: (b["slice"], json.dumps(describe(b), sort_keys=True)))
        self.total += len(behs)
        if tier == "quick" and len(behs) > QUICK_SAMPLE:
            rnd = common.rng("c16")
            rnd.shuffle(behs)
            del behs[QUICK_SAMPLE:]
        for b in behs:
            f0 = b["file0"]
            self.ops_seen[b["act"]["op"]] = self.ops_seen.get(b["act"]["op"], 0) + 1
            c = "%s/%s/%s/%s" % (b["enc"], f0["nl"], "final" if f0["final"] else "nofinal",
                                 "bom" if f0["bom"] else "nobom")
            self.cells[c] = self.cells.get(c, 0) + 1
        verdict = self.verdict
        for r in replay.pool_map(run_behaviour, behs, chunk=400):
            self.replayed += 1
            if "machinery" in r:
                verdict.machinery_failure(r["machinery"][:600] + " :: " + json.dumps(r.get("item"), default=str)[:600])
                continue
            beh = r["beh"]
            op = beh["act"]["op"]
            self.by_op[op] = self.by_op.get(op, 0) + 1
            if r["refused"]:
                self.refused += 1
            if r["changed"]:
                self.nontrivial.add(common.digest(describe(beh)))
            for n in r["notes"]:
                self.notes[n] = self.notes.get(n, 0) + 1
            if len(self.samples) < 5 and r["changed"] and not r["fails"] and any(c >= 128 for c in beh["bytes0"]) \
                    and self.replayed % 11 == 0:
                self.samples.append({"behaviour": describe(beh), "rope_bytes_after": obs_json(r["obs"])["bytes1"],
                                     "rope_bytes_after_undo": obs_json(r["obs"])["bytes2"]})
            for clause, dev in r["fails"]:
                k = key_of(beh, clause, dev)
                verdict.failure(k, {"property": PROP, "key": k, "behaviour": describe(beh),
                                    "observed": obs_json(r["obs"]), "all_failures": r["fails"]})


def main(tier):
    timer = common.Timer()
    verdict = common.Verdict(PROP)
    acc = Acc(verdict)
    sl = slices(tier)
    states = transitions = 0
    tlc_summaries = {}
    ntab = 0
    # quick: the (small) models are explored side by side; thorough: one after the other, each
    # replayed before the next one is generated (memory)
    groups = [sl] if tier == "quick" else [[x] for x in sl]
    for group in groups:
        out = {}
        threads = []
        for name, consts in group:
            t = threading.Thread(target=run_tlc, args=(name, consts, out, max(4, 16 // len(group))))
            t.start()
            threads.append(t)
        for t in threads:
            t.join()
        behs = []
        for name, _ in group:
            if name not in out:
                print("MACHINERY-FAILURE property=%s TLC did not run for slice %s" % (PROP, name))
                return 2
            res, b, tabs = out[name]
            print("TLC Codec[%s]:" % name, res.summary(), "behaviours", len(b))
            tlc_summaries[name] = dict(res.summary(), behaviours=len(b))
            if not res.ok:
                if res.violated:
                    print("MACHINERY-FAILURE property=%s spec invariant %s violated on the model (slice %s)\n%s" % (
                        PROP, res.violated, name, res.trace[-3000:]))
                else:
                    print("MACHINERY-FAILURE property=%s TLC: %s\n%s" % (PROP, res.error, res.tail[-2000:]))
                return 2
            states += res.distinct
            transitions += res.generated
            behs.extend(b)
            if tabs and not ntab:
                ntab = check_table(tabs[0], verdict)
        out.clear()
        acc.replay(behs, tier)
        del behs
    if not ntab:
        verdict.machinery_failure("byte table not exported")

    # model sensitivity: a Write that forgets the convention / the BOM must break Identity on the model
    sens = {}
    if tier == "thorough":
        for label, over in (("no-newline-restore", {"RestoreNL": False}), ("bom-dropped", {"KeepBom": False})):
            c = dict(sl[1][1], MaxBody=1, Classes={"eac"}, Ops={"rwb-force"}, UndoModes={"session"})
            c.update(over)
            cfg = os.path.join(common.SCRATCH_BASE, "c16s_%d.cfg" % os.getpid())
            tlc.write_cfg(cfg, constants=c, invariants=["Identity", "Glue"])
            r2 = tlc.run("MC_Codec", cfg, collect_tags=False)
            os.unlink(cfg)
            sens[label] = r2.violated
            if r2.violated is None:
                verdict.machinery_failure("model insensitive: %s satisfies Identity" % label)

    # vacuity guard: every action and every encoding x newline x final cell is exercised
    for name, consts in sl:
        for o in consts["Ops"]:
            if not acc.ops_seen.get(o):
                verdict.machinery_failure("action %s never taken" % o)
    encs = {c.split("/")[0] for c in acc.cells}
    for e in encs:
        for nl in ("LF", "CRLF", "CR"):
            for fin in ("final", "nofinal"):
                if not acc.cells.get("%s/%s/%s/nobom" % (e, nl, fin)):
                    verdict.machinery_failure("cell %s/%s/%s not covered" % (e, nl, fin))
    if len(encs) < 6:
        verdict.machinery_failure("only %d encodings covered" % len(encs))
    if acc.by_op.get("rename") and acc.refused >= acc.by_op["rename"]:
        verdict.machinery_failure("every rename was refused: the refactoring edit was never exercised")
    samples = acc.samples or [{"note": "no sample selected"}]
    if acc.notes:
        print("NOTE differences outside the property's clauses (not failures):", acc.notes)
    code = verdict.finish()
    common.write_evidence(PROP, tier, "model_checking", {
        "states": states, "transitions": transitions,
        "traces_validated_against_impl": acc.replayed,
        "samples": samples,
        "exhaustive": tier == "thorough" and acc.replayed == acc.total,
        "behaviours_from_tlc": acc.total,
        "replays_by_action": acc.by_op,
        "renames_refused_by_rope": acc.refused,
        "distinct_nontrivial": len(acc.nontrivial),
        "rule": "one behaviour per terminal state of the TLC graph (file x action [x undo mode]); replayed on a real "
                "project, bytes on disk and text read back compared with the spec's; non-trivial = rope changed "
                "the bytes on disk",
        "cells_encoding_newline_final_bom": acc.cells,
        "byte_table_entries_checked_against_codecs": ntab,
        "notes_outside_property": acc.notes,
        "model_sensitivity": sens,
        "tlc": tlc_summaries,
        "known_finding_hits": verdict.known_hits,
    }, timer.s(), violations=len(verdict.violations), assumptions=[
        "consistent newline convention per file; encodings with an ASCII-transparent coding line only "
        "(utf-8, latin-1, cp1252, iso8859-15, ascii, shift_jis)",
        "contents encodable in the declared encoding; edits do not touch the coding line",
        "rope hands a BOM to its clients as a leading U+FEFF of the text: accepted as rope's representation",
    ])
    return code


if __name__ == "__main__":
    sys.exit(main(sys.argv[1] if len(sys.argv) > 1 else "quick"))
