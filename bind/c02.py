"""C02 - occurrence finding is exact.

Same abstract programs as C15 (spec/PyScope.tla, every well-formed program of each
feature group).  The spec assigns every name token a binding (BScope) and thereby
the partition Occ(b); TLC checks QueryInvariant / OccPartition on the model.  Each
program is rendered into a one-module rope project, the spec's tables are
cross-checked against CPython (exit 2 on disagreement), then

    rope.contrib.findit.find_occurrences(project, resource, offset)

is asked at the token of *every* determined event.  The offsets returned must be
exactly the tokens of Occ(BScope(e)): none missing, none of another binding, never
a decoy (same identifier in a comment or a string), and the same from every member.
"""
import json
import os
import sys

from engine import common, replay
from bind import _pyscope as ps
from bind import c15

PROP = "C02"

MAIN_GROUPS = ["core", "nest", "blocks", "methods", "decos", "attrs", "newattrs", "recall", "stars", "starmod", "core2", "defnames", "targets", "comp", "calls", "decoys", "modules"]
FEATURE_GROUPS = ["params", "stmts", "walrus", "lambda"]

_ROOT = None
_PROJECT = None


def _project():
    global _PROJECT
    if _PROJECT is None:
        common.use_repo()
        from rope.base import project as project_mod
        root = os.path.join(_ROOT, "w%d" % os.getpid())
        os.makedirs(root, exist_ok=True)
        _PROJECT = project_mod.Project(root, ropefolder=None)
    return _PROJECT


_COUNTER = [0]


def open_project(r):
    """a rope project holding the rendered program.  The one-module case reuses one
    project per worker (mod.py is rewritten through rope); a multi-module program gets
    a project of its own.  Returns (project, close)"""
    if not r.multi:
        project = _project()
        res = project.get_file("mod.py")
        if not res.exists():
            res.create()
        if res.read() != r.src:
            res.write(r.src)
        return project, (lambda: None)
    common.use_repo()
    from rope.base import project as project_mod
    _COUNTER[0] += 1
    root = os.path.join(_ROOT, "w%d" % os.getpid(), "m%d" % _COUNTER[0])
    top = root
    prefs = {}
    if r.outside:
        root = os.path.join(top, "proj")
        prefs["python_path"] = [os.path.join(top, "outside")]
    for base, fs in ((root, r.files), (os.path.join(top, "outside"), r.outside)):
        for rel, text in fs.items():
            full = os.path.join(base, rel)
            os.makedirs(os.path.dirname(full), exist_ok=True)
            with open(full, "w") as f:
                f.write(text)
    project = project_mod.Project(root, ropefolder=None, **prefs)

    def close():
        project.close()
        common.rmtree(top)
    return project, close


def ask(r, places):
    """{(path, offset): sorted [(path, offset)] | {"error": ..}}"""
    from rope.contrib import findit
    from rope.base import exceptions
    project, close = open_project(r)
    out = {}
    try:
        for (path, off) in places:
            res = project.get_file(path)
            try:
                locs = findit.find_occurrences(project, res, off)
                out[(path, off)] = sorted((l.resource.path, l.offset) for l in locs)
            except exceptions.RopeError as e:
                out[(path, off)] = {"error": type(e).__name__, "rope": True, "msg": str(e)[:120]}
            except Exception as e:  # noqa
                out[(path, off)] = {"error": type(e).__name__, "rope": False, "msg": str(e)[:120]}
    finally:
        close()
    return out


def token_scope(prog, e):
    """the scope from which the token of event e is resolved (data from the export:
    the event's scope, except operations the spec resolves elsewhere)"""
    if e["s"] == 0:
        return 1
    if e["op"] in ("iteruse", "defuse"):
        return prog.parent(e["s"])
    if e["op"] == "walrus" and prog.kind(e["s"]) == "comp":
        h = e["s"]
        while prog.kind(h) == "comp":
            h = prog.parent(h)
        return h
    return e["s"]


def generic_cause(c):
    """a cause that only names a declaration rope handles correctly by itself: `global x` /
    `nonlocal x` without a binder, or `global x` with assignment-like binders (rope keeps the
    module's PyName for those); `by:` causes name plain bindings"""
    if c.startswith("by:") or c in ("nonlocal-decl-only", "same-object-imported-in-two-scopes"):
        return True
    if c.startswith("global-decl:"):
        return all(b in c15.ASSIGN_LIKE or b == "no-binder" for b in c[len("global-decl:"):].split("+"))
    return False


def causes_for(prog, q, t):
    """shrunk causes of a deviation between query token q and token t (one failure is
    recorded per cause; see c15._split for bindings rope does not see at all)"""
    if q.get("lc") or t.get("lc") or q.get("sc") or t.get("sc") or q["s"] == 0 or t["s"] == 0:
        # a name of the second module (or of the importer's same-named sibling) and its aliases
        return ["lib-name"]
    for e in (q, t):
        c = e["k"]
        if e["op"] == "defname" and prog.kind(c) == "class" and (
                (c, e["n"]) in prog.local or (c, e["n"]) in prog.gdecl or (c, e["n"]) in prog.ndecl):
            # `class a:` whose body binds or redeclares a: rope evaluates the header
            # token inside the class scope instead of the enclosing one
            return ["class-header-name-resolved-in-class-scope"]
    for e in (q, t):
        if e["op"] == "defuse" and prog.resolve[(e["s"], e["n"])] != prog.resolve[(prog.parent(e["s"]), e["n"])]:
            # `def f(x=a)` where f itself binds a: Python evaluates the default in the
            # enclosing scope, rope looks it up inside f
            return ["default-value-resolved-in-function-scope"]
    for e in (q, t):
        if e["op"] == "iteruse" and prog.resolve[(e["s"], e["n"])] != prog.resolve[(prog.parent(e["s"]), e["n"])]:
            # `[.. for a in g(a)]`: the first iterable belongs to the enclosing scope
            return ["first-iterable-resolved-in-comprehension-scope"]
    found = []
    for e in (t, q):
        # the scope Python resolves the token in, and the scope it is written in
        for sc in sorted({token_scope(prog, e), e["s"]}):
            c = c15.cause_of(prog, sc, e["n"], e["b"])
            if not c.startswith("by:"):
                found.append(c)
    # a bare declaration is the least specific description: prefer the block that also
    # rebinds the name, then the merged-import rule, then the bare declaration
    specific = [c for c in found if not generic_cause(c)]
    if specific:
        return [specific[0]]
    if q["b"] != t["b"] and q["b"] and t["b"]:
        both = set(c15._binders(prog, q["b"], q["n"])) & set(c15._binders(prog, t["b"], t["n"]))
        if both & {"import", "importfrom"}:
            # two scopes import the same object under the same alias: by design rope
            # compares imported names by what they import (occurrences.same_pyname)
            return ["same-object-imported-in-two-scopes"]
    if found:
        return [found[0]]
    c = None
    # binders of the feature groups (constructs rope has no visitor for) that take part
    # in either binding: the deviation is attributed to each of them
    ops = {q["op"], t["op"]}
    for e in (q, t):
        if e["b"]:
            ops |= set(c15._binders(prog, e["b"], e["n"]))
    feat = sorted(ops & set(FEATURE_OPS))
    if feat:
        return ["by:" + op for op in feat]
    return [c15.cause_of(prog, token_scope(prog, t), t["n"], t["b"])]


FEATURE_OPS = ("posonly", "kwonly", "aug", "del", "matchcap", "walrus-in-comp")


def compare(prog, r, answers):
    fails = []
    offs = r.places()
    classes = prog.classes()
    by_off = {offs[ps.ev_key(e)]: e for e in prog.events if ps.ev_key(e) in offs}

    def fail(clause, obs, q, t, detail):
        for c in causes_for(prog, q, t):
            fails.append(({"clause": clause, "obs": obs, "cause": c, "query": q["op"], "token": t["op"]}, detail))
    for (b, n), members in sorted(classes.items(), key=lambda kv: (str(kv[0][0]), kv[0][1])):
        members = [e for e in members if not offs[ps.ev_key(e)][0].startswith("<outside>/")]
        want = sorted(offs[ps.ev_key(e)] for e in members)      # tokens inside the project
        seen = {}
        for q in members:
            got = answers[offs[ps.ev_key(q)]]
            if isinstance(got, dict):
                fail("error", got["error"], q, q,
                     "find_occurrences at %s raised %s: %s" % (ps.ev_key(q), got["error"], got.get("msg")))
                continue
            seen[json.dumps(got)] = q
            for off in want:
                if off not in got:
                    t = by_off[off]
                    fail("missing", "self" if t is q else "other", q, t,
                         "asked at %s: token %s of the same binding (%s) is not reported" % (
                             ps.ev_key(q), ps.ev_key(t), b))
            for off in got:
                if off not in want:
                    t = by_off.get(off)
                    if t is None and off in set(r.module_places()) | set(r.sibling_module_places()):
                        fails.append(({"clause": "extra", "obs": "module-token", "cause": "layout:%s" % prog.lib,
                                       "query": q["op"]},
                                      "asked at %s: the token %s:%d naming a module is reported as an occurrence "
                                      "of the name" % ((ps.ev_key(q),) + off)))
                    elif t is None:
                        fails.append(({"clause": "extra", "obs": "not-a-token", "cause": "place %s:%d" % off},
                                      "asked at %s: reported place %s is not a name token" % (ps.ev_key(q), off)))
                    elif t["op"] in ps.DECOYS:
                        fails.append(({"clause": "extra", "obs": "decoy", "cause": t["op"]},
                                      "asked at %s: the %s is reported" % (ps.ev_key(q), t["op"])))
                    else:
                        fail("extra", "other-binding" if (t["b"] or t.get("lc") or t.get("sc")) else "undetermined", q, t,
                             "asked at %s (binding %s): token %s of binding %s is reported" % (
                                 ps.ev_key(q), b, ps.ev_key(t), "lib" if t.get("lc") else t["b"]))
        if len(seen) > 1:
            qs = [seen[k] for k in sorted(seen)]
            fail("query-dependent", "", qs[0], qs[-1],
                 "members %s of one binding give different answers" % (sorted(ps.ev_key(q) for q in qs),))
    # the second module itself: every token naming it is one class
    mods = r.module_places()
    for place in mods:
        got = answers[place]
        cause = "layout:%s" % prog.lib
        if prog.lib != "relative" and any(e["op"] == "asattr" and e["s"] != 1 for e in prog.events):
            # `import lb as m` inside a def: the statement is indented
            cause = "aliased-import-in-indented-block"
        key = {"clause": "module-name", "cause": cause}
        if isinstance(got, dict):
            fails.append((dict(key, obs="error:" + got["error"]),
                          "find_occurrences at module token %s raised %s" % (place, got["error"])))
        elif got != mods:
            fails.append((dict(key, obs="missing" if set(got) < set(mods) else "extra" if set(got) > set(mods) else "both"),
                          "asked at module token %s: reported %s, tokens naming the module are %s" % (place, got, mods)))
    # layout "shadowed": the tokens naming the sibling module are a class of their own
    sibs = r.sibling_module_places()
    for place in sibs:
        got = answers[place]
        key = {"clause": "module-name", "cause": "sibling-module:%s" % prog.lib}
        if isinstance(got, dict):
            fails.append((dict(key, obs="error:" + got["error"]),
                          "find_occurrences at sibling module token %s raised %s" % (place, got["error"])))
        elif got != sibs:
            fails.append((dict(key, obs="missing" if set(got) < set(sibs) else "extra" if set(got) > set(sibs) else "both"),
                          "asked at sibling module token %s: reported %s, tokens naming pk/lb.py are %s" % (place, got, sibs)))
    return fails


def run_case(item):
    group, rec = item
    prog = ps.Program(rec)
    r = ps.render(prog)
    try:
        ps.cpython_check(prog, r)
    except ps.SpecMismatch as e:
        return {"machinery": "spec vs CPython: %s\n%s\n%s" % (e, ps.describe(prog), r.src)}
    offs = r.places()
    queries = sorted({offs[ps.ev_key(e)] for e in prog.events if e["det"]
                      and not offs[ps.ev_key(e)][0].startswith("<outside>/")} | set(r.module_places())
                     | set(r.sibling_module_places()))
    answers = ask(r, queries)
    fails = compare(prog, r, answers)
    nonempty = sum(1 for v in answers.values() if isinstance(v, list) and len(v) >= 2)
    out = {"group": group, "fails": [], "queries": len(queries), "classes": len(prog.classes()),
           "multi": nonempty}
    if fails:
        out["fails"] = [{"key": k, "detail": d} for k, d in fails]
        out["program"] = ps.describe(prog)
        out["src"] = r.src
        out["rec"] = rec
        out["answers"] = {"%s:%d" % k: v for k, v in answers.items()}
        out["tokens"] = {"%s" % (k,): "%s:%d" % v for k, v in offs.items()}
        out["files"] = r.files
    elif rec.get("_sample") and queries:
        cl = {"%s@%s" % (n, b): sorted("%s:%d" % offs[ps.ev_key(e)] for e in m) for (b, n), m in prog.classes().items()}
        out["sample"] = {"program": ps.describe(prog), "files": r.files, "spec_classes": cl,
                         "rope_answers": {"%s:%d" % k: v for k, v in answers.items()}}
    return out


def main(tier):
    global _ROOT
    timer = common.Timer()
    verdict = common.Verdict(PROP)
    rnd = common.rng("c02")
    groups = MAIN_GROUPS + FEATURE_GROUPS
    per_group_cap = 2000 if tier == "quick" else 25000      # thorough: a cap keeps the run inside its budget
    if os.environ.get("PYSCOPE_CAP"):      # development aid: replay everything / another cap
        per_group_cap = int(os.environ["PYSCOPE_CAP"])
    capped = []
    tlc_stats = {}
    items = []
    states = transitions = 0
    # the partition invariants are costly for TLC (every token's class is recomputed from
    # every member); the quick tier checks them on the smaller groups only
    full = groups if tier == "thorough" else ["core2", "defnames", "calls", "decoys", "modules", "params"]
    runs = ps.run_groups([g for g in groups if g in full], tier, coverage=(tier == "quick"),
                         invariants=["TypeOK", "QueryInvariant", "OccPartition"], properties=[])
    runs.update(ps.run_groups([g for g in groups if g not in full], tier, invariants=["TypeOK"], properties=[]))
    for g in groups:
        res, progs = runs[g]
        tlc_stats[g] = dict(res.summary(), programs=len(progs))
        print("TLC PyScope[%s]: %s programs=%d" % (g, res.summary(), len(progs)))
        if not res.ok:
            if res.violated:
                print("MACHINERY-FAILURE property=%s the spec violates its own invariant %s in group %s\n%s" % (
                    PROP, res.violated, g, res.trace[:3000]))
            else:
                print("MACHINERY-FAILURE property=%s TLC: %s\n%s" % (PROP, res.error, res.tail))
            return 2
        if res.coverage:
            for a in ("AnyAddScope", "AnyAddEvent"):
                if a in res.coverage and res.coverage[a][1] == 0:
                    verdict.machinery_failure("action %s never taken" % a)
        states += res.distinct
        transitions += res.generated
        progs = [p for p in progs if any(e["det"] for e in p["ev"])]      # something to ask about
        progs.sort(key=lambda x: json.dumps(x, sort_keys=True))
        if len(progs) > per_group_cap and not (tier == "quick" and ps.GROUPS[g].get("replay_all")):
            capped.append("%s: %d of %d" % (g, per_group_cap, len(progs)))
            progs = rnd.sample(progs, per_group_cap)
        for k, p in enumerate(progs):
            if k % 499 == 7:
                p["_sample"] = True
            items.append((g, p))
    print("TLC done after %.0f s; replaying %d items" % (timer.s(), len(items)))
    _ROOT = common.scratch("c02_")
    replayed = queries = multi = nontrivial = 0
    by_group = {}
    samples = []
    try:
        for r in replay.pool_map(run_case, items, chunk=100):
            if "machinery" in r:
                verdict.machinery_failure(r["machinery"][:1500])
                continue
            replayed += 1
            queries += r["queries"]
            multi += r["multi"]
            g = by_group.setdefault(r["group"], {"programs": 0, "failing": 0, "queries": 0})
            g["programs"] += 1
            g["queries"] += r["queries"]
            if r["multi"]:
                nontrivial += 1
            if r["fails"]:
                g["failing"] += 1
            if "sample" in r and len(samples) < 4:
                samples.append(r["sample"])
            seen = set()
            for f in r["fails"]:
                ks = json.dumps(f["key"], sort_keys=True)
                if ks in seen:
                    continue
                seen.add(ks)
                verdict.failure(f["key"], {"property": PROP, "key": f["key"], "detail": f["detail"],
                                           "program": r["program"], "files": r["files"], "spec": r["rec"],
                                           "token_offsets": r["tokens"], "rope_answers": r["answers"]})
    finally:
        common.rmtree(_ROOT)
    if replayed == 0 or multi == 0:
        verdict.machinery_failure("vacuous: %d programs, %d answers with >= 2 occurrences" % (replayed, multi))
    code = verdict.finish()
    common.write_evidence(PROP, tier, "model_checking", {
        "states": states, "transitions": transitions,
        "traces_validated_against_impl": replayed,
        "samples": samples or [{"note": "no sampled program"}],
        "exhaustive": tier == "thorough" and not capped,
        "sampled_groups": capped,
        "distinct_nontrivial": nontrivial,
        "rule": "one abstract program per reachable well-formed TLC state with at least one determined name token, "
                "per feature group; find_occurrences asked at every determined token; non-trivial = some answer "
                "has at least two occurrences",
        "queries": queries,
        "answers_with_two_or_more_occurrences": multi,
        "tlc_by_group": tlc_stats,
        "replayed_by_group": by_group,
        "known_finding_hits": verdict.known_hits,
    }, timer.s(), violations=len(verdict.violations), assumptions=[
        "single-module part: <= 4 scopes, <= 5 name events, 1-2 identifiers, fixed statement order inside a block",
        "default options of find_occurrences (unsure=False, in_hierarchy=False)",
    ])
    return code


if __name__ == "__main__":
    sys.exit(main(sys.argv[1] if len(sys.argv) > 1 else "quick"))
