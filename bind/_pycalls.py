"""Rendering shared by C06 and C04: abstract signatures / calls of spec/PyCalls.tla -> Python text,
and CPython-side projections (what a program printed, what a `def` looks like).

Nothing here decides what is expected: expectations come from the TLC export.
Abstract values: 1..9 = the k-th argument a call supplies (rendered site-unique as
100*(site+1)+k), >= 10 = defaults / added values (rendered as they are).
"""
import ast

from engine import runpy

IMPLICIT = {"function": None, "staticmethod": None, "method": "self", "constructor": "self",
            "classmethod": "cls"}
DECORATOR = {"classmethod": "@classmethod", "staticmethod": "@staticmethod"}
INTRO_VALUE = 40      # value of the module global G (the spec's IntroDef)


def run_entry(root, relpath):
    """engine.runpy.run_entry with a generous timeout and one retry: the programs terminate by
    construction, a timeout only means the machine is overloaded"""
    import subprocess
    for timeout in (120, 600):
        try:
            return runpy.run_entry(root, relpath, timeout=timeout)
        except subprocess.TimeoutExpired:
            continue
    return runpy.run_entry(root, relpath, timeout=1800)


def lit(site, v):
    return str(100 * (site + 1) + v) if v < 10 else str(v)


def val(site, v):
    return 100 * (site + 1) + v if v < 10 else v


def fname(kind):
    return "__init__" if kind == "constructor" else "f"


def sig_text(sig, kind, with_implicit=True):
    parts = []
    if with_implicit and IMPLICIT[kind]:
        parts.append(IMPLICIT[kind])
    for p in sig["ps"]:
        parts.append(p["n"] if p["d"] == 0 else "%s=%d" % (p["n"], p["d"]))
    if sig["va"]:
        parts.append("*args")
    if sig.get("ko"):
        if not sig["va"]:
            parts.append("*")
        parts.append("k" if sig["ko"] == 1 else "k=14")
    if sig["kw"]:
        parts.append("**kw")
    return ", ".join(parts)


def lit_cx(site, v):
    """the same value written as a compound expression"""
    return "%d + %d" % (100 * (site + 1), v) if v < 10 else str(v)


def args_text(call, site, first=None, cx=False):
    parts = [first] if first else []
    f = lit_cx if cx else lit
    parts += [f(site, v) for v in call["pos"]]
    parts += ["%s=%s" % (e["k"], f(site, e["v"])) for e in call["kws"]]
    return ", ".join(parts)


IDENT0 = 70       # the instance at the end of a receiver chain of rc components has ident 70 + rc


def binding_obj(b, sig, site, kind=None):
    """spec binding record -> the object a site prints: sorted (name, value) pairs of locals();
    for a bound method call also the identity of the object `self` is bound to"""
    items = [(n, val(site, v)) for n, v in b["par"]]
    if kind == "method":
        items.append(("self", IDENT0 + b["rc"]))
    if sig["va"]:
        items.append(("args", tuple(val(site, v) for v in b["va"])))
    if sig["kw"]:
        items.append(("kw", sorted((k, val(site, v)) for k, v in b["kw"])))
    return sorted(items)


SHOW = (
    "def _show(d, g):\n"
    "    items = []\n"
    "    for k, v in d.items():\n"
    "        if k == 'self':\n"
    "            if hasattr(v, 'ident'):\n"
    "                items.append((k, v.ident))\n"
    "        elif k != 'cls':\n"
    "            items.append((k, sorted(v.items()) if isinstance(v, dict) else v))\n"
    "    print(sorted(items), g)\n"
)

# receivers of bound calls: attribute chains of 1, 2, 3 components, each ending in its own instance of C
WRAPPERS = (
    "class W2:\n    def __init__(self):\n        self.o = C()\n\n\n"
    "class W3:\n    def __init__(self):\n        self.w = W2()\n\n\n"
)
RECEIVERS = {1: "obj", 2: "w2.o", 3: "w3.w.o"}
INSTANCES = ("obj = C()\nobj.ident = %d\nw2 = W2()\nw2.o.ident = %d\nw3 = W3()\nw3.w.o.ident = %d\n"
             % (IDENT0 + 1, IDENT0 + 2, IDENT0 + 3))


def def_block(sig, kind, body):
    """the definition (function or class C holding it); body: list of lines"""
    head = "def %s(%s):\n" % (fname(kind), sig_text(sig, kind))
    if kind == "function":
        return head + "".join("    " + l + "\n" for l in body)
    out = "class C:\n"
    if kind in DECORATOR:
        out += "    %s\n" % DECORATOR[kind]
    out += "    " + head + "".join("        " + l + "\n" for l in body)
    return out


def call_text(kind, call, site, style):
    """text of one call expression. style: (module index 1|2, variant 0|1)"""
    mod, variant = style
    if kind == "function":
        target = "f" if (mod == 1 or variant == 0) else "m.f"
        return "%s(%s)" % (target, args_text(call, site))
    if kind == "constructor":
        target = "C" if (mod == 1 or variant == 0) else "m.C"
        return "%s(%s)" % (target, args_text(call, site))
    recv = RECEIVERS[call.get("rc", 1)]
    if kind == "method":
        if variant == 0:
            return "%s.f(%s)" % (recv, args_text(call, site))
        return "C.f(%s)" % args_text(call, site, first=recv)
    # classmethod / staticmethod: through the class or through an instance
    if variant == 0:
        return "C.f(%s)" % args_text(call, site)
    return "%s.f(%s)" % (recv, args_text(call, site))


GEN_BLOCK = ("def _gen%d():\n    try:\n        yield from ()\n    except Exception as exc:\n"
             "        raise ValueError('x') from exc\n\n\n")
LAZY_BLOCK = "def _lazy%d():\n    import os\n    from os import path\n    return path\n\n\n"


def render_sig_program(kind, sig, calls, furniture="none"):
    """C06 program: module m (definition + first half of the sites) and entry module n
    (imports m, second half).  Returns (files, site_info) where site_info[k] = (path, marker).
    furniture "from_then_lazy_import": functions with `yield from` / `raise .. from` before, and
    functions with function-level imports after, every group of call sites."""
    furn = furniture == "from_then_lazy_import"
    n = len(calls)
    split = (n + 1) // 2
    m = "G = %d\n\n\n%s\n\n%s\n\n" % (INTRO_VALUE, SHOW, def_block(sig, kind, ["_show(locals(), G)"]))
    if kind != "function" and kind != "constructor":
        m += WRAPPERS + INSTANCES
    info = []
    if furn:
        m += GEN_BLOCK % 0
    for k in range(split):
        m += "%s  # s%d\n" % (call_text(kind, calls[k], k, (1, k % 2)), k)
        info.append(("m.py", "# s%d" % k))
        if furn and k % 4 == 3:
            m += "\n\n" + LAZY_BLOCK % k + GEN_BLOCK % (k + 1)
    if furn:
        m += "\n\n" + LAZY_BLOCK % 9999
    nsrc = "import m\n"
    if kind == "function":
        nsrc += "from m import f\n"
    else:
        if kind != "constructor":
            nsrc += "from m import C, W2, W3\n" + INSTANCES
        else:
            nsrc += "from m import C\n"
    if furn:
        nsrc += "\n\n" + GEN_BLOCK % 0
    for k in range(split, n):
        nsrc += "%s  # s%d\n" % (call_text(kind, calls[k], k, (2, k % 2)), k)
        info.append(("n.py", "# s%d" % k))
        if furn and k % 4 == 3:
            nsrc += "\n\n" + LAZY_BLOCK % k + GEN_BLOCK % (k + 1)
    if furn:
        nsrc += "\n\n" + LAZY_BLOCK % 9999
    return {"m.py": m, "n.py": nsrc}, info


def parse_output_lines(out):
    """lines printed by _show -> list of (binding object, g) or None for junk"""
    res = []
    for line in out.splitlines():
        try:
            i = line.rindex("]")
            res.append((ast.literal_eval(line[:i + 1]), ast.literal_eval(line[i + 1:].strip())))
        except (ValueError, SyntaxError):
            res.append(None)
    return res


def flat_check(sig, calls, bindings, vbs=None):
    """spec vs CPython on the binding rule itself: one plain function, every call, executed
    in-process.  Returns None or a description of the first disagreement."""
    src = SHOW + "\nG = 0\n" + def_block(sig, "function", ["_show(locals(), G)"]) + "\n"
    for k, c in enumerate(calls):
        src += "f(%s)\n" % args_text(c, k if vbs is None else vbs[k])
    r = runpy.exec_source(src)
    if r["exc"] or r["syntax"]:
        return "CPython rejects the spec's program: %s\n%s" % (r["exc"], src)
    got = parse_output_lines(r["out"])
    want = [(binding_obj(b, sig, k), 0) for k, b in enumerate(bindings)]
    if got != want:
        for k, (g, w) in enumerate(zip(got, want)):
            if g != w:
                return "site %d: spec binds %r, CPython binds %r\n%s" % (k, w, g, src)
        return "different number of lines"
    return None


# ------------------------------------------------------------------ reading programs back
def find_def(src, kind):
    """ast.FunctionDef of the definition under test (None if absent / unparsable)"""
    try:
        tree = ast.parse(src)
    except SyntaxError:
        return None
    name = fname(kind)
    body = tree.body
    if kind != "function":
        cls = [x for x in body if isinstance(x, ast.ClassDef) and x.name == "C"]
        if not cls:
            return None
        body = cls[0].body
    for x in body:
        if isinstance(x, ast.FunctionDef) and x.name == name:
            return x
    return None


def abstract_sig(fdef, kind):
    """FunctionDef -> {"ps": [{"n","d"}], "va", "kw", "odd": [...]} in the spec's vocabulary"""
    a = fdef.args
    odd = []
    names = [x.arg for x in a.posonlyargs + a.args]
    if a.posonlyargs:
        odd.append("posonly")
    ko = 0
    if a.kwonlyargs:
        if len(a.kwonlyargs) == 1 and a.kwonlyargs[0].arg == "k":
            d = a.kw_defaults[0]
            ko = 1 if d is None else (2 if isinstance(d, ast.Constant) and d.value == 14 else 3)
        else:
            odd.append("kwonly")
    defaults = [None] * (len(names) - len(a.defaults)) + list(a.defaults)
    ps = []
    for nme, d in zip(names, defaults):
        if d is None:
            dv = 0
        elif isinstance(d, ast.Constant) and isinstance(d.value, int):
            dv = d.value
        elif isinstance(d, ast.Name):
            dv = d.id
        else:
            dv = ast.dump(d)
        ps.append({"n": nme, "d": dv})
    imp = IMPLICIT[kind]
    if imp:
        if not ps or ps[0] != {"n": imp, "d": 0}:
            odd.append("implicit-missing")
        else:
            ps = ps[1:]
    return {"ps": ps, "va": a.vararg is not None, "kw": a.kwarg is not None, "ko": ko, "odd": odd}


def site_call(src, marker):
    """the ast.Call on the line carrying `marker` (None if not found / not a call)"""
    for line in src.splitlines():
        if line.rstrip().endswith(marker):
            try:
                node = ast.parse(line.strip()).body[0]
            except (SyntaxError, IndexError):
                return None
            if isinstance(node, ast.Expr) and isinstance(node.value, ast.Call):
                return node.value
            return None
    return None


def explicit_names(call_node, sig_ps_names, kind, unbound_self):
    """names of the parameters the call passes itself (positionally or by keyword)"""
    npos = len(call_node.args) - (1 if unbound_self else 0)
    names = set(sig_ps_names[:max(npos, 0)])
    names |= {k.arg for k in call_node.keywords if k.arg in sig_ps_names}
    return names


# ------------------------------------------------------------------ C04: inlining calls
TAG = 7   # class attribute read through self / cls in method bodies


def pairs_text(sig, use):
    item = "('%s', %s * 2)" if use == "tight" else "('%s', %s)"
    return "[" + ", ".join(item % (p["n"], p["n"]) for p in sig["ps"]) + "]"


def inline_body(kind, sig, use, with_return, uses_import, tmp=False):
    """body lines: prints (param, value) pairs (and what self / cls reaches), optionally returns them"""
    head = {"method": "self.tag, ", "classmethod": "cls.tag, "}.get(kind, "")
    imp = "h.T, " if uses_import else ""
    lines = []
    if use == "reassign":
        lines += ["%s = %s + 7" % (p["n"], p["n"]) for p in sig["ps"]]
    shown = pairs_text(sig, use)
    if tmp:
        lines.append("t = %s" % shown)      # a body-local name the host may also use
        shown = "t"
    lines.append("print('f', %s%s%s)" % (head, imp, shown))
    if with_return:
        lines.append("return ('ret', %s)" % shown)
    return lines


HOST_T = 900      # value of the host's own variable t when it is not used as an argument


def host_var_value(call, k, argvar):
    """(name, literal text, value) of the host variable around site k"""
    first = call["pos"][0] if call["pos"] else (call["kws"][0]["v"] if call["kws"] else None)
    if argvar and first is not None:
        return argvar, lit(k, first), val(k, first), True
    return "t", str(HOST_T + k), HOST_T + k, False


def inline_site_lines(kind, call, k, mod, variant, ctx, cx, hostvar=False, argvar=None, vb=None, hostval=None):
    """source lines of site k: a marker line, [the host's variable], the call in its context,
    [a print of the host's variable]"""
    atext = args_text(call, k if vb is None else vb, cx=cx)
    hv = None
    if hostval:
        # spec-chosen scope: the host's own live local, named like the body's temporary
        hv = ("t", str(hostval), hostval, False)
    elif hostvar:
        hv = host_var_value(call, k, argvar)
        if hv[3]:
            # the first supplied argument is passed through the host variable
            parts = atext.split(", ")
            parts[0] = (parts[0].split("=")[0] + "=" + hv[0]) if (not call["pos"]) else hv[0]
            atext = ", ".join(parts)
    if kind == "function":
        target = "m.f" if (mod != 1 and variant == 1) else "f"
        expr = "%s(%s)" % (target, atext)
    elif kind == "method":
        expr = "obj.f(%s)" % atext
    else:
        owner = "obj" if variant == 1 else "C"
        expr = "%s.f(%s)" % (owner, atext)
    out = ["print('site', %d)" % k]
    if hv:
        out.append("%s = %s" % (hv[0], hv[1]))
    if ctx == "stmt":
        out.append(expr)
    elif ctx == "rhs":
        out += ["r%d = %s" % (k, expr), "print('r', r%d)" % k]
    elif ctx == "suffix":
        out.append("%s or print('r', 'none')" % expr)
    elif ctx == "cont":
        # the call on a continuation line of a multi-line statement
        out += ["print('r',", "      %s)" % expr]
    else:
        out.append("print('r', %s)" % expr)
    if hv:
        out.append("print('hv', %s)" % hv[0])
    return out


MODFILE = {1: "m.py", 2: "n.py", 3: "n2.py"}
INLINE_ENTRY = "main.py"


def render_inline_program(kind, sig, sites, dims):
    """dims: {"ctx": [per site], "variant": [per site], "ret": bool, "imp": bool, "use", "cx", ...}
    Modules: m.py (definition + its sites), n.py and - if a site is there - n2.py (importers);
    entry main.py imports them in this order."""
    scopes = dims.get("scopes", False)     # every site in a scope of its own (spec fields h / dup)
    body = inline_body(kind, sig, dims["use"], dims["ret"], dims["imp"], dims.get("tmp", False) or scopes)
    host = dims.get("host", False) and not scopes
    hostvar = dims.get("hostvar", False)
    argvar = dims.get("argvar")
    m = ""
    if dims["imp"]:
        m += "import h\n\n\n"
    if kind == "function":
        m += def_block(sig, kind, body)
    else:
        head = "def f(%s):\n" % sig_text(sig, kind)
        m += "class C:\n    tag = %d\n\n" % TAG
        if kind in DECORATOR:
            m += "    %s\n" % DECORATOR[kind]
        m += "    " + head + "".join("        " + l + "\n" for l in body)
    m += "\n\n"
    if kind != "function":
        m += "obj = C()\n"
    mods = [1, 2] + ([3] if any(s["m"] == 3 for s in sites) else [])
    text = {1: m}
    for mod in mods[1:]:
        n = "import m\n"
        uses_from = any(s["m"] == mod and not (kind == "function" and dims["variant"][k] == 1)
                        for k, s in enumerate(sites))
        if kind == "function":
            if uses_from:
                n += "from m import f\n"
        else:
            n += "from m import C\n"
            n += "obj = C()\n"
        text[mod] = n
    ind = "    " if host else ""
    if host:
        for mod in mods:
            if any(s["m"] == mod for s in sites):
                text[mod] += "def g%d():\n" % mod
    for k, s in enumerate(sites):
        if scopes:
            vb = 0 if s.get("dup") else k
            lines = inline_site_lines(kind, s["c"], k, s["m"], dims["variant"][k], dims["ctx"][k], dims["cx"],
                                      vb=vb, hostval=dims["hostval"][k])
            t = "def g%d():\n" % k + "".join("    " + l + "\n" for l in lines) + "\n\ng%d()\n" % k
        else:
            lines = inline_site_lines(kind, s["c"], k, s["m"], dims["variant"][k], dims["ctx"][k], dims["cx"],
                                      hostvar, argvar)
            t = "".join(ind + l + "\n" for l in lines)
        text[s["m"]] += t
    if host:
        for mod in mods:
            if any(s["m"] == mod for s in sites):
                text[mod] += "\n\ng%d()\n" % mod
    files = {MODFILE[mod]: text[mod] for mod in mods}
    files[INLINE_ENTRY] = "".join("import %s\n" % MODFILE[mod][:-3] for mod in mods)
    if dims["imp"]:
        files["h.py"] = "T = 5\n"
    return files


def inline_expected(kind, sig, pairs_per_site, dims, sites=None):
    """what the program must print: per site the marker, the body's line and the result line.
    pairs_per_site[k]: list of [name, printed value] (from the spec)"""
    out = []
    for k, pairs in enumerate(pairs_per_site):
        d = dict((n, v) for n, v in pairs)
        shown = [(p["n"], d.get(p["n"])) for p in sig["ps"]]
        out.append(("site", k))
        head = ["f"]
        if kind in ("method", "classmethod"):
            head.append(TAG)
        if dims["imp"]:
            head.append(5)
        out.append(tuple(head + [shown]))
        if dims["ctx"][k] == "suffix":
            if not dims["ret"]:
                out.append(("r", "none"))
        elif dims["ctx"][k] != "stmt":
            out.append(("r", ("ret", shown) if dims["ret"] else None))
        if dims.get("scopes"):
            if dims["hostval"][k]:
                out.append(("hv", dims["hostval"][k]))
        elif dims.get("hostvar") and sites is not None:
            out.append(("hv", host_var_value(sites[k]["c"], k, dims.get("argvar"))[2]))
    return out


def parse_print_lines(out):
    """lines printed with print(a, b, c) of literals -> tuples; junk -> the raw line"""
    res = []
    for line in out.splitlines():
        try:
            parts = _split_top(line)
            res.append(tuple(ast.literal_eval(p) if not p.isidentifier() or p == "None" else p for p in parts))
        except (ValueError, SyntaxError):
            res.append(line)
    return res


def _split_top(line):
    """split a printed line at top-level spaces"""
    parts, depth, cur, quote = [], 0, "", None
    for ch in line:
        if quote:
            cur += ch
            if ch == quote:
                quote = None
            continue
        if ch in "'\"":
            quote = ch
            cur += ch
        elif ch in "([{":
            depth += 1
            cur += ch
        elif ch in ")]}":
            depth -= 1
            cur += ch
        elif ch == " " and depth == 0:
            if cur:
                parts.append(cur)
            cur = ""
        else:
            cur += ch
    if cur:
        parts.append(cur)
    return parts


def calls_to(src, kind):
    """number of remaining calls / references to the definition in a module: (calls, other refs)"""
    tree = ast.parse(src)
    calls = refs = 0
    called = set()
    for node in ast.walk(tree):
        if isinstance(node, ast.Call):
            f = node.func
            if (isinstance(f, ast.Name) and f.id == "f") or (isinstance(f, ast.Attribute) and f.attr == "f"):
                calls += 1
                called.add(id(f))
    for node in ast.walk(tree):
        if id(node) in called:
            continue
        if (isinstance(node, ast.Name) and node.id == "f") or (isinstance(node, ast.Attribute) and node.attr == "f"):
            refs += 1
        if isinstance(node, ast.ImportFrom) and any(a.name == "f" for a in node.names):
            refs += 1
    return calls, refs


def site_segments(src):
    """{site index: source text between its marker line and the next marker (dedented; a site
    inside a host function ends where the indentation ends)}"""
    import textwrap
    segs, cur, ind = {}, None, 0
    for line in src.splitlines():
        st = line.strip()
        if st.startswith("print('site', ") or st.startswith('print("site", '):
            cur = int(st[len("print('site', "):-1])
            ind = len(line) - len(line.lstrip())
            segs[cur] = ""
        elif cur is not None:
            if st and len(line) - len(line.lstrip()) < ind:
                cur = None
                continue
            segs[cur] += line + "\n"
    return {k: textwrap.dedent(v) for k, v in segs.items()}
# ------------------------------------------------------------------ C04: inlining a variable (spec/PyInline.tla)
def expr_text(e):
    op = e["op"]
    if op == "lit":
        return str(e["k"])
    if op == "var":
        return e["r"]
    if op == "add":
        return "%s + %d" % (e["r"], e["k"])
    return "%s * 2" % e["r"]


def render_var_program(prog, scope):
    """scope "module": lines at module level; "function": inside def g() called once"""
    lines = []
    for i, l in enumerate(prog, 1):
        if l["kind"] == "assign":
            lines.append("%s = %s" % (l["t"], expr_text(l["e"])))
        else:
            lines.append("print('p', %d, %s)" % (i, expr_text(l["e"])))
    if scope == "module":
        return "\n".join(lines) + "\n"
    return "def g():\n" + "".join("    " + l + "\n" for l in lines) + "\n\ng()\n"


def var_expected(prog, out):
    idx = [i for i, l in enumerate(prog, 1) if l["kind"] == "print"]
    return [("p", i, v) for i, v in zip(idx, out)]


def var_offset(src, prog, line, scope, name="v"):
    """offset of the variable `name` on program line `line` (1-based): the target of an
    assignment to it, else its read"""
    src_lines = src.splitlines(True)
    k = line - 1 + (1 if scope == "function" else 0)
    start = sum(len(x) for x in src_lines[:k])
    text = src_lines[k]
    l = prog[line - 1]
    if l["kind"] == "assign" and l["t"] == name:
        return start + text.index(name)
    # the read: the identifier after '=' or inside print(...)
    pos = text.index("=") + 1 if l["kind"] == "assign" else text.index(",", text.index(",") + 1)
    import re
    m = re.compile(r"\b%s\b" % name).search(text, pos)
    return start + m.start()


def var_uses(src, name="v"):
    """(stores, loads) of `name` in src"""
    tree = ast.parse(src)
    st = sum(1 for n in ast.walk(tree) if isinstance(n, ast.Name) and n.id == name and isinstance(n.ctx, ast.Store))
    ld = sum(1 for n in ast.walk(tree) if isinstance(n, ast.Name) and n.id == name and isinstance(n.ctx, ast.Load))
    return st, ld


# ------------------------------------------------------------------ C04: histories of inline requests (spec/PyInlineSeq.tla)
def render_chain_program(nfuncs, names, forms):
    """f1 (host) calls f2 calls f3 ...; every function keeps a temporary alive across its call.
    forms[i]: "rhs" (w = f(v); return t + w) or "nested" (return t + f(v)) for the call made by f<i+1>"""
    out = ""
    for i in range(nfuncs, 0, -1):
        t = names[i - 1]
        out += "def f%d(v):\n    %s = v + %d\n" % (i, t, 10 * i)
        if i == nfuncs:
            out += "    return %s\n" % t
        elif forms[i - 1] == "rhs":
            out += "    w%d = f%d(v)\n    return %s + w%d\n" % (i, i + 1, t, i)
        else:
            out += "    return %s + f%d(v)\n" % (t, i + 1)
        out += "\n\n"
    return out + "print(f1(1), f1(5))\n"
