"""C08 - the source-annotated syntax tree is lossless and its regions are exact.

Two parts.

generated   TLC explores spec/PyLayout.tla: a context (one of ~90 statement /
            expression shapes) with an expression from a pool in its hole, and
            layout decisions (redundant parentheses, trailing comma, spacing
            style, comments / line breaks / continuations in up to two gaps).
            The spec writes the token sequence and, for every node, its first
            and last token, so the expected region is known by construction.
            The binding renders the tokens, asks CPython (ast) to confirm tree
            shape and positions (exit 2 on disagreement), and compares rope's
            get_patched_ast(src, True): no exception / warning, write_ast(root)
            == src, node.region == expected span, region inside the parent's,
            region text re-parses to the same node.

corpus      every .py file of $VERIF_REPO/rope, $VERIF_REPO/ropetest and the
            interpreter's standard library is annotated; write_ast == source is
            checked directly, and the annotated tree (kind, region, parent,
            position in the parent's sorted_children, CPython span) is recorded
            as a JSON trace and validated in batches by TLC against
            spec/RegionTree.tla (nesting, sibling order, tiling, CPython span).
"""
import ast
import io
import json
import os
import sys
import sysconfig
import tokenize
import warnings

from engine import common, tlc, replay
from bind import _pytree as pt

PROP = "C08"

GEN_INVARIANTS = ["TypeOK", "AllSpanned", "Nesting", "SiblingsOrdered", "ParensOwned", "Balanced", "GapsLegal"]

CTX_ALL = ["expr", "assign", "assign2", "assigntup", "aug", "ann", "anntype", "two", "second", "ret", "call",
           "call2nd", "call1st", "kw", "star", "dstar", "callee", "attrof", "index", "indexed", "slicelo", "slicehi",
           "binl", "binr", "powl", "neg", "not", "and", "or3", "cmp", "isnot", "notin", "tuple", "tuple1", "list",
           "set", "dictv", "dictk", "ifexpt", "ifexpb", "ifexpe", "lambody", "lamdef", "compelt", "compiter",
           "compif", "genelt", "dcompv", "fstr", "walrus", "if", "ifelse", "elif", "ifbody", "nested", "while",
           "whileelse", "for", "fortuple", "with", "withas", "with2", "withparen", "try", "except", "exceptas",
           "finally", "tryall", "deco", "deco2", "default", "defstar", "returns", "method", "base", "base2",
           "basekw", "classdeco", "assert", "assertmsg", "raise", "raisefrom", "del", "import", "fromimp",
           "fromdot", "global", "match", "matchseq", "matchguard"]
EXPR_ALL = ["bin", "oct", "dotfive", "onedot", "expneg", "stropen", "strkw", "name", "int", "hex", "float", "exp", "imag", "under", "str1", "str2", "strhash", "strparen", "bytes",
            "raw", "triple", "concat", "none", "true", "dots", "add", "mulnest", "addmul", "pow", "neg", "not",
            "inv", "and", "or3", "lt", "isnot", "notin", "attr", "attr2", "call0", "call1", "call2", "callkw",
            "callstar", "callcall", "method", "sub", "subsub", "subtuple", "slice", "slicel", "sliceu", "slices",
            "slice3", "sliceall", "tuple", "tuple1", "tuple0", "tuplestar", "list", "list0", "set", "dict",
            "dict2", "dict0", "ifexp", "lambda0", "lambda1", "lambdadef", "lambdastar", "listcomp", "listcompif",
            "listcomp2", "setcomp", "dictcomp", "genexp", "fstr", "fstradd", "walrus"]
CMT_ALL = ["x", ")", "(", "#", "'", "def"]


def gen_constants(sim):
    return {
        "CtxOn": set(CTX_ALL), "ExprOn": set(EXPR_ALL),
        "ParenKinds": {"none", "root1", "root2", "kid1", "rootkid"},
        "GapKinds": {"cmt", "nl", "cont", "cmtline", "blank"},
        "CmtTexts": set(CMT_ALL), "Styles": {"tight", "house", "wide"}, "MaxGaps": 2, "Sim": sim,
    }


# ------------------------------------------------------------------ generated part: one behaviour
def expr_dump(node):
    """ast.dump with every expression context normalised (a region is parsed out of context)."""
    class Norm(ast.NodeTransformer):
        def visit(self, n):
            self.generic_visit(n)
            if hasattr(n, "ctx"):
                n.ctx = ast.Load()
            return n
    import copy
    return ast.dump(Norm().visit(copy.deepcopy(node)))


def reparse_ok(node, text):
    """Does the region text parse back to the node?  None when not applicable."""
    if isinstance(node, ast.expr) and not isinstance(node, (ast.Starred, ast.Slice)):
        if isinstance(node, (ast.Constant, ast.FormattedValue)) and False:
            return None
        if isinstance(node, ast.FormattedValue):
            return None
        try:
            got = ast.parse("(" + text + "\n)", mode="eval").body
        except SyntaxError:
            return False
        return expr_dump(got) == expr_dump(node)
    if isinstance(node, (ast.Assign, ast.AugAssign, ast.AnnAssign, ast.Expr, ast.Return, ast.Pass, ast.Assert,
                         ast.Delete, ast.Raise, ast.Import, ast.ImportFrom, ast.Global)):
        try:
            got = ast.parse(text).body
        except SyntaxError:
            if isinstance(node, ast.Return):
                try:
                    got = ast.parse("def f():\n " + text.replace("\n", "\n ")).body[0].body
                except SyntaxError:
                    return False
            else:
                return False
        return len(got) == 1 and ast.dump(got[0]) == ast.dump(node)
    return None


def annotate(src):
    """rope's annotation of src -> (root | None, exception | None, warnings)."""
    from rope.refactor import patchedast
    with warnings.catch_warnings(record=True) as caught:
        warnings.simplefilter("always")
        try:
            root = patchedast.get_patched_ast(src, True)
            exc = None
        except RecursionError as e:
            root, exc = None, e
        except Exception as e:  # noqa
            root, exc = None, e
    caught = [w for w in caught if not issubclass(w.category, (SyntaxWarning, DeprecationWarning))]
    return root, exc, caught


import re as _re


def atoms(text, kind):
    """The tokens of a piece of lost / extra region text, without layout noise;
    parentheses count once as '()', the tail of a numeric literal as 'literal-tail'."""
    t = _re.sub(r"#[^\n]*", "", text)
    t = _re.sub(r"\\\n", "", t)
    out = set()
    for tok in _re.findall(r"\*\*|\w+|\S", t):
        if tok in "()":
            out.add("()")
        elif _re.match(r"\w+$", tok) and kind == "Num":
            out.add("literal-tail")
        else:
            out.add(tok[:10])
    return out


def run_generated(beh):
    common.use_repo()
    from rope.refactor import patchedast
    gaps = sorted(beh["gaps"], key=lambda g: g["at"])
    src, tspans = pt.render_layout(beh["toks"], gaps, beh["style"])
    desc = {"src": src, "gaps": [[g["kind"], g["txt"]] for g in gaps], "style": beh["style"],
            "rp": len(beh["rp"]), "hole": beh["hole"], "ctx": beh["cn"], "expr": beh["en"]}
    # ---- CPython referees the spec
    try:
        cp = ast.parse(src)
    except SyntaxError as e:
        return {"machinery": "rendered text does not parse: %r (%s)" % (src, e)}
    g = pt.to_gtree(cp)
    d = pt.shape_diff(beh["tree"], g)
    if d:
        return {"machinery": "spec tree vs CPython for %r: %s" % (src, d)}
    offs = pt.Offsets(src)
    spans = {tuple(s["p"]): s for s in beh["spans"]}
    defkw = {tuple(p): k for p, k in beh["defkw"]}
    expected = {}
    for path, node in pt.walk(g):
        sp = spans.get(path)
        if sp is None:
            continue
        exp = (tspans[sp["a"] - 1][0], tspans[sp["b"] - 1][1])
        expected[path] = exp
        if node["k"] in pt.VIRTUAL or isinstance(node["n"], list):
            continue
        cps = offs.span(node["n"])
        if cps is None:
            continue
        want = exp
        if path in defkw:
            want = (tspans[defkw[path] - 1][0], exp[1])
        if cps != want:
            return {"machinery": "spec span vs CPython for %r: %s at %s spec %r CPython %r" % (
                src, node["k"], list(path), src[want[0]:want[1]], src[cps[0]:cps[1]])}
    # ---- rope
    fails = []
    root, exc, caught = annotate(src)
    if exc is not None:
        fails.append({"clause": "Annotate", "exc": type(exc).__name__, "msg": str(exc)[:100]})
        return {"fails": fails, "desc": desc, "nodes": 0}
    for w in caught:
        fails.append({"clause": "Warns", "msg": str(w.message)[:100]})
    try:
        back = patchedast.write_ast(root)
    except Exception as e:  # noqa
        back = None
        fails.append({"clause": "WriteBack", "exc": type(e).__name__})
    if back is not None and back != src:
        fails.append({"clause": "WriteBack", "dev": "differs"})
    rg = pt.to_gtree(root)
    nodes = 0
    got_by_path = {}
    unannotated = []
    for path, node in pt.walk(rg):
        n = node["n"]
        if isinstance(n, list) or node["k"] in pt.VIRTUAL:
            continue
        reg = getattr(n, "region", None)
        if reg is not None and path in expected:
            got_by_path[path] = (tuple(reg), node)
        elif reg is None and path in expected and node["k"] != "withitem":
            unannotated.append(node["k"])
    devs = {}
    for path in sorted(got_by_path, key=lambda p: -len(p)):        # children before parents
        reg, node = got_by_path[path]
        nodes += 1
        exp = expected[path]
        if reg == exp:
            if reparse_ok(node["n"], src[reg[0]:reg[1]]) is False:
                fails.append({"clause": "Reparse", "kind": node["k"], "got": src[reg[0]:reg[1]]})
            continue
        if reg[0] is None or reg[1] is None or reg[0] > reg[1]:
            fails.append({"clause": "Region", "kind": node["k"], "lost": "not-a-region", "got": repr(reg),
                          "expected": src[exp[0]:exp[1]]})
            continue
        lost = set()
        extra = set()
        if reg[0] > exp[0]:
            lost |= atoms(src[exp[0]:reg[0]], node["k"])
        elif reg[0] < exp[0]:
            extra |= atoms(src[reg[0]:exp[0]], node["k"])
        if reg[1] < exp[1]:
            lost |= atoms(src[reg[1]:exp[1]], node["k"])
        elif reg[1] > exp[1]:
            extra |= atoms(src[exp[1]:reg[1]], node["k"])
        devs[path] = (lost, extra)
        # what a node merely inherits from a child whose own extent reaches into the lost text is the child's
        own_lost, own_extra = set(lost), set(extra)
        for p, (cl, ce) in devs.items():
            if len(p) > len(path) and p[:len(path)] == path:
                cexp = expected[p]
                if cexp[0] < reg[0] or cexp[1] > reg[1]:
                    own_lost -= {x for x in cl if x != "()"}
                    own_extra -= {x for x in ce if x != "()"}
                    if "literal-tail" in cl:
                        own_lost -= {x for x in own_lost if _re.match(r"\w+$", x)}
        for what, items in (("lost", own_lost), ("extra", own_extra)):
            for atom in sorted(items):
                fails.append({"clause": "Region", "kind": node["k"], what: atom, "expected": src[exp[0]:exp[1]],
                              "got": src[reg[0]:reg[1]], "path": list(path)})
    # nesting over rope's own tree
    for parent in ast.walk(root):
        preg = getattr(parent, "region", None)
        if preg is None:
            continue
        for child in ast.iter_child_nodes(parent):
            creg = getattr(child, "region", None)
            if creg is None or None in creg or None in preg:
                continue
            if not (preg[0] <= creg[0] <= creg[1] <= preg[1]):
                fails.append({"clause": "Nesting", "kind": type(child).__name__, "parent": type(parent).__name__})
    return {"fails": fails, "desc": desc, "nodes": nodes, "unannotated": unannotated}


def gen_key(f, desc):
    k = {"part": "generated", "clause": f["clause"]}
    if f["clause"] in ("Annotate", "WriteBack", "Warns") or f.get("lost") == "not-a-region":
        k["expr"] = desc["expr"]
        k["ctx"] = desc["ctx"]
    for name in ("kind", "lost", "extra", "exc", "parent", "dev"):
        if name in f:
            k[name] = f[name]
    return k


# ------------------------------------------------------------------ main
def run_gen_tlc(job):
    k, nsim = job
    behs = []
    cfg = os.path.join(common.SCRATCH_BASE, "c08_gen%d_%d.cfg" % (k, os.getpid()))
    tlc.write_cfg(cfg, constants=gen_constants(True), invariants=GEN_INVARIANTS + ["Export"])
    res = tlc.run("MC_PyLayout", cfg, on_tagged=lambda t, v: behs.append(v), collect_tags=False, workers=1,
                  simulate={"num": nsim}, depth=3, seed=1000 * common.SEED + k + 1)
    os.unlink(cfg)
    return res, behs


def main(tier):
    timer = common.Timer()
    verdict = common.Verdict(PROP)
    from concurrent.futures import ThreadPoolExecutor
    njobs, nsim = (4, 1500) if tier == "quick" else (8, 30000)
    with ThreadPoolExecutor(max_workers=8) as ex:
        results = list(ex.map(run_gen_tlc, [(k, nsim) for k in range(njobs)]))
    behs = []
    gen_states = 0
    for res, bs in results:
        gen_states += res.generated
        if not res.ok:
            print("MACHINERY-FAILURE property=%s TLC PyLayout: %s %s\n%s" % (PROP, res.violated, res.error, res.tail))
            return 2
        behs.extend(bs)
    print("TLC PyLayout: %d random behaviours in %d runs, %d states" % (len(behs), njobs, gen_states))
    seen = set()
    uniq = []
    for b in behs:
        d = common.digest([b["toks"], sorted(map(json.dumps, b["gaps"])), b["style"]])
        if d not in seen:
            seen.add(d)
            uniq.append(b)
    behs = uniq
    gen_checked = 0
    gen_nodes = 0
    samples = []
    for r in replay.pool_map(run_generated, behs, chunk=200):
        gen_checked += 1
        if "machinery" in r:
            verdict.machinery_failure(r["machinery"][:500])
            continue
        gen_nodes += r["nodes"]
        if len(samples) < 3 and r["desc"]["gaps"] and gen_checked % 97 == 0:
            samples.append(r["desc"])
        for f in r["fails"]:
            verdict.failure(gen_key(f, r["desc"]), {"property": PROP, "key": gen_key(f, r["desc"]),
                                                    "case": r["desc"], "detail": f})
    code = verdict.finish()
    common.write_evidence(PROP, tier, "exploration", {
        "evaluations": gen_checked,
        "distinct_nontrivial": gen_checked,
        "rule": "generated: one decorated tree per evaluation",
        "samples": samples,
        "generated_nodes_compared": gen_nodes,
        "known_finding_hits": verdict.known_hits,
    }, timer.s(), violations=len(verdict.violations), assumptions=[])
    return code


if __name__ == "__main__":
    sys.exit(main(sys.argv[1] if len(sys.argv) > 1 else "quick"))
