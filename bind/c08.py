"""C08 - the source-annotated syntax tree is lossless and its regions are exact.

Two parts.

generated   TLC explores spec/PyLayout.tla: a context (one of ~90 statement /
            expression shapes) with an expression from a pool in its hole, and
            layout decisions (redundant parentheses, trailing comma, spacing
            style, comments / line breaks / continuations in up to two gaps).
            The spec writes the token sequence and, for every node, its first
            and last token, so the expected region is known by construction.
            The binding renders the tokens, asks CPython (ast) to confirm tree
            shape and positions (exit 2 on disagreement), and compares rope's
            get_patched_ast(src, True): no exception / warning, write_ast(root)
            == src, node.region == expected span, region inside the parent's,
            region text re-parses to the same node.

corpus      every .py file of $VERIF_REPO/rope, $VERIF_REPO/ropetest and the
            interpreter's standard library is annotated; write_ast == source is
            checked directly, and the annotated tree (kind, region, parent,
            position in the parent's sorted_children, CPython span) is recorded
            as a JSON trace and validated in batches by TLC against
            spec/RegionTree.tla (nesting, sibling order, tiling, CPython span).
"""
import ast
import io
import json
import os
import sys
import sysconfig
import tokenize
import warnings

from engine import common, tlc, replay
from bind import _pytree as pt

PROP = "C08"

GEN_INVARIANTS = ["TypeOK", "AllSpanned", "Nesting", "SiblingsOrdered", "ParensOwned", "Balanced", "GapsLegal"]

CTX_ALL = ["pairtop", "pairif", "pairdef", "pairclass", "pairdeep", "pairlast", "expr", "assign", "assign2", "assigntup", "aug", "ann", "anntype", "two", "second", "ret", "call",
           "call2nd", "call1st", "kw", "star", "dstar", "callee", "attrof", "index", "indexed", "slicelo", "slicehi",
           "binl", "binr", "powl", "neg", "not", "and", "or3", "cmp", "isnot", "notin", "tuple", "tuple1", "list",
           "set", "dictv", "dictk", "ifexpt", "ifexpb", "ifexpe", "lambody", "lamdef", "compelt", "compiter",
           "compif", "genelt", "dcompv", "fstr", "walrus", "if", "ifelse", "elif", "ifbody", "nested", "while",
           "whileelse", "for", "fortuple", "with", "withas", "with2", "withparen", "try", "except", "exceptas",
           "finally", "tryall", "deco", "deco2", "default", "defstar", "returns", "method", "base", "base2",
           "basekw", "classdeco", "assert", "assertmsg", "raise", "raisefrom", "del", "import", "fromimp",
           "fromdot", "global", "match", "matchseq", "matchguard"]
EXPR_ALL = ["hexupper", "bin", "oct", "dotfive", "onedot", "expneg", "stropen", "strkw", "name", "int", "hex", "float", "exp", "imag", "under", "str1", "str2", "strhash", "strparen", "bytes",
            "raw", "triple", "concat", "none", "true", "dots", "add", "mulnest", "addmul", "pow", "neg", "not",
            "inv", "and", "or3", "lt", "isnot", "notin", "attr", "attr2", "call0", "call1", "call2", "callkw",
            "callstar", "callcall", "method", "sub", "subsub", "subtuple", "slice", "slicel", "sliceu", "slices",
            "slice3", "sliceall", "tuple", "tuple1", "tuple0", "tuplestar", "list", "list0", "set", "dict",
            "dict2", "dict0", "ifexp", "lambda0", "lambda1", "lambdadef", "lambdastar", "listcomp", "listcompif",
            "listcomp2", "setcomp", "dictcomp", "genexp", "fstr", "fstradd", "walrus"]
CMT_ALL = ["x", ")", "(", "#", "'", "def", "<ff>", "<vt>", "<fs>", "<nel>", "<ls>"]


def gen_constants(sim):
    return {
        "CtxOn": set(CTX_ALL), "ExprOn": set(EXPR_ALL),
        "ParenKinds": {"none", "root1", "root2", "kid1", "rootkid"},
        "GapKinds": {"cmt", "nl", "cont", "cmtline", "blank", "ffline"},
        "CmtTexts": set(CMT_ALL), "Styles": {"tight", "house", "wide"}, "MaxGaps": 2, "Sim": sim,
    }


# ------------------------------------------------------------------ generated part: one behaviour
def expr_dump(node):
    """ast.dump with every expression context normalised (a region is parsed out of context)."""
    class Norm(ast.NodeTransformer):
        def visit(self, n):
            self.generic_visit(n)
            if hasattr(n, "ctx"):
                n.ctx = ast.Load()
            return n
    import copy
    return ast.dump(Norm().visit(copy.deepcopy(node)))


def reparse_ok(node, text):
    """Does the region text parse back to the node?  None when not applicable."""
    if isinstance(node, ast.expr) and not isinstance(node, (ast.Starred, ast.Slice)):
        if isinstance(node, (ast.Constant, ast.FormattedValue)) and False:
            return None
        if isinstance(node, ast.FormattedValue):
            return None
        try:
            got = ast.parse("(" + text + "\n)", mode="eval").body
        except SyntaxError:
            return False
        return expr_dump(got) == expr_dump(node)
    if isinstance(node, (ast.Assign, ast.AugAssign, ast.AnnAssign, ast.Expr, ast.Return, ast.Pass, ast.Assert,
                         ast.Delete, ast.Raise, ast.Import, ast.ImportFrom, ast.Global)):
        try:
            got = ast.parse(text).body
        except SyntaxError:
            if isinstance(node, ast.Return):
                try:
                    got = ast.parse("def f():\n " + text.replace("\n", "\n ")).body[0].body
                except SyntaxError:
                    return False
            else:
                return False
        return len(got) == 1 and ast.dump(got[0]) == ast.dump(node)
    return None


def annotate(src):
    """rope's annotation of src -> (root | None, exception | None, warnings)."""
    from rope.refactor import patchedast
    with warnings.catch_warnings(record=True) as caught:
        warnings.simplefilter("always")
        try:
            root = pt.with_timeout(5 + len(src) / 20000.0, patchedast.get_patched_ast, src, True)
            exc = None
        except pt.Hang as e:
            root, exc = None, e
        except RecursionError as e:
            root, exc = None, e
        except Exception as e:  # noqa
            root, exc = None, e
    caught = [w for w in caught if not issubclass(w.category, (SyntaxWarning, DeprecationWarning))]
    return root, exc, caught


import re as _re


import keyword as _keyword


def atoms(text, kind):
    """The tokens of a piece of lost / extra region text as classes: operators and
    keywords as themselves, NAME / NUMBER / STRING, parentheses once as '()'.
    Kind-specific: the tail of a numeric literal is 'literal-tail', the lost
    annotation of a parameter 'annotation'."""
    t = _re.sub(r"#[^\n]*", "", text)
    t = _re.sub(r"\\\n", "", t)
    if kind == "Num" and _re.match(r"\s*\w+\s*$", t) is not None and "(" not in t:
        return {"literal-tail"}
    if kind == "arg" and t.lstrip().startswith(":"):
        return {"annotation"}
    out = set()
    try:
        toks = list(tokenize.generate_tokens(io.StringIO("(" + t.replace("\n", " ") + ")").readline))[1:]
        toks = [x for x in toks if x.type not in (tokenize.NL, tokenize.NEWLINE, tokenize.ENDMARKER,
                                                  tokenize.INDENT, tokenize.DEDENT, tokenize.COMMENT)][:-1]
        for x in toks:
            if x.type == tokenize.NAME:
                out.add(x.string if _keyword.iskeyword(x.string) else "NAME")
            elif x.type == tokenize.NUMBER:
                out.add("NUMBER")
            elif x.type in (tokenize.STRING, getattr(tokenize, "FSTRING_START", -1),
                            getattr(tokenize, "FSTRING_MIDDLE", -1), getattr(tokenize, "FSTRING_END", -1)):
                out.add("STRING")
            elif x.string in "()":
                out.add("()")
            else:
                out.add(x.string[:10])
        return out
    except (tokenize.TokenError, SyntaxError, IndentationError):
        pass
    for tok in _re.findall(r"\*\*|\w+|\S", t):
        if tok in "()":
            out.add("()")
        elif _re.match(r"\d", tok):
            out.add("NUMBER")
        elif _re.match(r"\w+$", tok):
            out.add(tok if _keyword.iskeyword(tok) else "NAME")
        else:
            out.add(tok[:10])
    return out


def deviation(src, exp, got, kind):
    """What region `got` loses / gains at each end relative to the expected extent."""
    d = {"lost_head": set(), "lost_tail": set(), "extra_head": set(), "extra_tail": set()}
    if kind == "Num" and got[0] == exp[0] and got[1] < exp[1]:
        lit = src[exp[0]:exp[1]]                    # the region is a proper prefix of the literal
        cls = "underscore" if "_" in lit else "binary" if lit[:2] in ("0b", "0B") else \
            "upper-radix" if lit[:2] in ("0X", "0O") else "other"
        d["lost_tail"] = {"literal-tail:" + cls}
        return d
    if kind == "JoinedStr" and got[0] == exp[0] and got[1] < exp[1]:
        d["lost_tail"] = {"fstring-tail"}           # ... of the (concatenated) f-string
        return d
    if kind in ("Str", "Constant") and got[1] == exp[1] and got[0] > exp[0] and \
            _re.match(r"[rRbBuUfF]{1,2}$", src[exp[0]:got[0]]):
        d["lost_head"] = {"string-prefix"}
        return d
    if got[0] > exp[0]:
        d["lost_head"] = atoms(src[exp[0]:got[0]], kind)
    elif got[0] < exp[0]:
        d["extra_head"] = atoms(src[got[0]:exp[0]], kind)
    if got[1] < exp[1]:
        d["lost_tail"] = atoms(src[got[1]:exp[1]], kind)
    elif got[1] > exp[1]:
        d["extra_tail"] = atoms(src[exp[1]:got[1]], kind)
    return d


def own_deviation(dev, got, exp, children):
    """dev minus what the node merely inherits from deviating children: a node
    that starts (ends) where a deviating child starts (ends), or inside that
    child's true extent, has no say of its own about that end.
    children: (dev, got, exp) of the direct children that deviate themselves."""
    own = {k: set(v) for k, v in dev.items()}
    for cdev, cgot, cexp in children:
        if (cgot[0] == got[0] and (cdev["lost_head"] or cdev["extra_head"])) or cexp[0] < got[0]:
            own["lost_head"] = set()
            own["extra_head"] = set()
        if (cgot[1] == got[1] and (cdev["lost_tail"] or cdev["extra_tail"])) or cexp[1] > got[1]:
            own["lost_tail"] = set()
            own["extra_tail"] = set()
    return own["lost_head"] | own["lost_tail"], own["extra_head"] | own["extra_tail"]


def run_generated(beh):
    common.use_repo()
    from rope.refactor import patchedast
    gaps = sorted(beh["gaps"], key=lambda g: g["at"])
    src, tspans = pt.render_layout(beh["toks"], gaps, beh["style"])
    desc = {"src": src, "gaps": [[g["kind"], g["txt"]] for g in gaps], "style": beh["style"],
            "rp": len(beh["rp"]), "hole": beh["hole"], "ctx": beh["cn"], "expr": beh["en"]}
    # ---- CPython referees the spec
    try:
        cp = ast.parse(src)
    except SyntaxError as e:
        return {"machinery": "rendered text does not parse: %r (%s)" % (src, e)}
    g = pt.to_gtree(cp)
    d = pt.shape_diff(beh["tree"], g)
    if d:
        return {"machinery": "spec tree vs CPython for %r: %s" % (src, d)}
    offs = pt.Offsets(src)
    spans = {tuple(s["p"]): s for s in beh["spans"]}
    defkw = {tuple(p): k for p, k in beh["defkw"]}
    expected = {}
    for path, node in pt.walk(g):
        sp = spans.get(path)
        if sp is None:
            continue
        exp = (tspans[sp["a"] - 1][0], tspans[sp["b"] - 1][1])
        expected[path] = exp
        if node["k"] in pt.VIRTUAL or isinstance(node["n"], list):
            continue
        cps = offs.span(node["n"])
        if cps is None:
            continue
        want = exp
        if path in defkw:
            want = (tspans[defkw[path] - 1][0], exp[1])
        if cps != want:
            return {"machinery": "spec span vs CPython for %r: %s at %s spec %r CPython %r" % (
                src, node["k"], list(path), src[want[0]:want[1]], src[cps[0]:cps[1]])}
    # ---- rope
    fails = []
    root, exc, caught = annotate(src)
    if exc is not None:
        fails.append({"clause": "Annotate", "exc": type(exc).__name__, "msg": str(exc)[:100]})
        return {"fails": fails, "desc": desc, "nodes": 0, "unannotated": [], "hole_unannotated": None}
    for w in caught:
        fails.append({"clause": "Warns", "msg": str(w.message)[:100]})
    try:
        back = patchedast.write_ast(root)
    except Exception as e:  # noqa
        back = None
        fails.append({"clause": "WriteBack", "exc": type(e).__name__})
    if back is not None and back != src:
        fails.append({"clause": "WriteBack", "dev": "differs"})
    rg = pt.to_gtree(root)
    nodes = 0
    got_by_path = {}
    unannotated = []
    for path, node in pt.walk(rg):
        n = node["n"]
        if isinstance(n, list) or node["k"] in pt.VIRTUAL:
            continue
        reg = getattr(n, "region", None)
        if reg is not None and path in expected:
            got_by_path[path] = (tuple(reg), node)
        elif reg is None and path in expected and node["k"] != "withitem":
            unannotated.append(node["k"])
    devs = {}
    for path in sorted(got_by_path, key=lambda p: -len(p)):        # children before parents
        reg, node = got_by_path[path]
        nodes += 1
        exp = expected[path]
        if reg == exp:
            if reparse_ok(node["n"], src[reg[0]:reg[1]]) is False:
                fails.append({"clause": "Reparse", "kind": node["k"], "got": src[reg[0]:reg[1]]})
            continue
        if reg[0] is None or reg[1] is None or reg[0] > reg[1]:
            fails.append({"clause": "Region", "kind": node["k"], "lost": "not-a-region", "got": repr(reg),
                          "expected": src[exp[0]:exp[1]]})
            continue
        dev = deviation(src, exp, reg, node["k"])
        devs[path] = (dev, reg, exp)
        kids = [devs[p] for p in devs if len(p) == len(path) + 1 and p[:len(path)] == path]
        # virtual nodes (decorator, returns) stand between a node and its real children
        kids += [devs[p] for p in devs if len(p) == len(path) + 2 and p[:len(path)] == path
                 and p[:len(path) + 1] not in got_by_path]
        lost, extra = own_deviation(dev, reg, exp, kids)
        for what, items in (("lost", lost), ("extra", extra)):
            for atom in sorted(items):
                fails.append({"clause": "Region", "kind": node["k"], what: atom, "expected": src[exp[0]:exp[1]],
                              "got": src[reg[0]:reg[1]], "path": list(path)})
    # nesting over rope's own tree
    for parent in ast.walk(root):
        preg = getattr(parent, "region", None)
        if preg is None:
            continue
        for child in ast.iter_child_nodes(parent):
            creg = getattr(child, "region", None)
            if creg is None or None in creg or None in preg:
                continue
            if not (preg[0] <= creg[0] <= creg[1] <= preg[1]):
                fails.append({"clause": "Nesting", "kind": type(child).__name__, "parent": type(parent).__name__})
    hole = pt.at(rg, beh["hole"])["n"]
    return {"fails": fails, "desc": desc, "nodes": nodes, "unannotated": unannotated,
            "hole_unannotated": getattr(hole, "region", None) is None}


def gen_key(f, desc, unvisited_ctx=()):
    """unvisited_ctx: contexts whose hole rope was seen (in this run) to leave without a region"""
    k = {"part": "generated", "clause": f["clause"], "unvisited_hole": desc["ctx"] in unvisited_ctx}
    k["expr"] = desc["expr"]
    k["ctx"] = desc["ctx"]
    for name in ("kind", "lost", "extra", "exc", "parent", "dev"):
        if name in f:
            k[name] = f[name]
    return k


# ------------------------------------------------------------------ corpus part
def corpus_files():
    """(label, path) of every .py file of the repository under test and of the standard library."""
    roots = [("rope", os.path.join(common.REPO, "rope")), ("ropetest", os.path.join(common.REPO, "ropetest")),
             ("stdlib", sysconfig.get_paths()["stdlib"])]
    out = []
    for label, root in roots:
        for dirpath, dirnames, filenames in os.walk(root):
            dirnames[:] = sorted(d for d in dirnames if d not in ("site-packages", "__pycache__"))
            for f in sorted(filenames):
                if f.endswith(".py"):
                    p = os.path.join(dirpath, f)
                    out.append((label + "/" + os.path.relpath(p, root), p))
    return out


def read_source(path):
    """Text of a module the way the interpreter decodes it, or None if it is not a valid module."""
    try:
        with tokenize.open(path) as f:
            text = f.read()
        if "\x00" in text:
            return None
        with warnings.catch_warnings():
            warnings.simplefilter("ignore")
            ast.parse(text)
        return text
    except (SyntaxError, UnicodeDecodeError, ValueError, LookupError, RecursionError):
        return None


def strip_parens(src, s, e):
    """(s, e) with balanced surrounding parentheses (and the layout inside them) removed."""
    for _ in range(20):
        seg = src[s:e]
        if "(" not in seg:
            return s, e
        try:
            toks = [t for t in tokenize.generate_tokens(io.StringIO("(" + seg + ")").readline)
                    if t.type not in (tokenize.NL, tokenize.NEWLINE, tokenize.COMMENT, tokenize.ENDMARKER,
                                      tokenize.INDENT, tokenize.DEDENT)]
        except (tokenize.TokenError, IndentationError, SyntaxError):
            return s, e
        toks = toks[1:-1]
        if len(toks) < 3 or toks[0].string != "(" or toks[-1].string != ")":
            return s, e
        depth = 0
        for k, t in enumerate(toks):
            if t.type == tokenize.OP and t.string in "([{":
                depth += 1
            elif t.type == tokenize.OP and t.string in ")]}":
                depth -= 1
            if depth == 0 and k < len(toks) - 1:
                return s, e
        lines = ("(" + seg).split("\n")
        starts = [0]
        for ln in lines:
            starts.append(starts[-1] + len(ln) + 1)

        def off(pos):
            return s + starts[pos[0] - 1] + pos[1] - 1
        s, e = off(toks[1].start), off(toks[-2].end)
    return s, e


def record_tree(src, root):
    """The annotated tree as RegionTree.tla reads it (see the module comment there)."""
    offs = pt.Offsets(src)
    nodes = []

    def visit(node, parent, prev, ts):
        reg = node.region
        idx = len(nodes) + 1
        cps = offs.span(node) if not isinstance(node, ast.Module) else None
        s, e = reg
        if s is None or e is None:
            s = -2 if s is None else s
            e = -2 if e is None else e
        cs, ce = cps if cps else (-1, -1)
        s0, e0, cs0, ce0 = s, e, cs, ce
        ds = -1
        g = 0
        if cps and (s, e) != (cs, ce) and s >= 0 and e >= 0:
            s0, e0 = strip_parens(src, s, e)
            cs0, ce0 = strip_parens(src, cs, ce)
        if cps and isinstance(node, (ast.FunctionDef, ast.AsyncFunctionDef, ast.ClassDef)) and node.decorator_list:
            d0 = offs.span(node.decorator_list[0])
            ds = src.rfind("@", 0, d0[0]) if d0 else -1
        if isinstance(node, ast.GeneratorExp) and isinstance(parent, ast.Call) and \
                len(parent.args) == 1 and not parent.keywords:
            g = 1
        q = 0
        if cps and isinstance(node, ast.stmt) and s >= 0 and e >= 0 and e < ce and src[e:ce].strip() == ";":
            q = 1       # the interpreter lets a compound statement end after the `;` that closes its last line
        rec = [type(node).__name__, s, e, 0, prev, ts, -1, cs, ce, s0, e0, cs0, ce0, ds, g, q]
        nodes.append(rec)
        off = s if s >= 0 else 0
        last = 0
        for child in getattr(node, "sorted_children", ()):
            if isinstance(child, ast.AST):
                if getattr(child, "region", None) is None:
                    continue
                cidx = visit(child, node, last, off)
                nodes[cidx - 1][3] = idx
                last = cidx
                cr = child.region
                off += (cr[1] - cr[0]) if None not in cr else 0
            else:
                off += len(child)
        rec[6] = off if hasattr(node, "sorted_children") else -1
        return idx

    visit(root, None, 0, -1)
    return nodes


def record_file(item):
    """Annotate one file; returns a summary and (when annotation worked) the trace line."""
    common.use_repo()
    from rope.refactor import patchedast
    label, path, outdir = item
    src = read_source(path)
    if src is None:
        return {"label": label, "skipped": True}
    root, exc, caught = annotate(src)
    res = {"label": label, "path": path, "skipped": False, "fails": [], "nodes": 0, "size": len(src)}
    if exc is not None:
        res["fails"].append({"clause": "Annotate", "exc": type(exc).__name__, "msg": str(exc)[:120]})
        return res
    for w in caught:
        res["fails"].append({"clause": "Warns", "msg": str(w.message)[:80]})
    try:
        if patchedast.write_ast(root) != src:
            res["fails"].append({"clause": "WriteBack", "dev": "differs"})
    except Exception as e:  # noqa
        res["fails"].append({"clause": "WriteBack", "exc": type(e).__name__})
    sys.setrecursionlimit(10000)
    nodes = record_tree(src, root)
    res["nodes"] = len(nodes)
    res["unannotated"] = sum(1 for n in ast.walk(root)
                             if getattr(n, "lineno", None) is not None and not hasattr(n, "region"))
    res["trace"] = json.dumps({"f": label, "len": len(src), "nodes": nodes}, separators=(",", ":"))
    return res


def classify_corpus(src, nodes, bad):
    """Keys for the nodes TLC rejected: clause + node class + what the region loses / gains
    relative to the interpreter's extent (root causes only, see own_deviation)."""
    by_node = {}
    for i, c in bad:
        by_node.setdefault(i, set()).add(c)
    devs = {}
    out = []
    under_fstring = {}

    def in_fstring(i):
        if i not in under_fstring:
            p = nodes[i - 1][3]
            under_fstring[i] = p != 0 and (nodes[p - 1][0] in ("JoinedStr", "FormattedValue") or in_fstring(p))
        return under_fstring[i]

    for i in sorted(by_node, reverse=True):          # children before parents
        k, s, e, p, prev, ts, acc, cs, ce, s0, e0, cs0, ce0, ds, g, q = nodes[i - 1]
        clauses = by_node[i]
        fs = in_fstring(i)
        for c in sorted(clauses - {"CpyExact", "CpyCore"}):
            key = {"part": "corpus", "clause": c, "kind": k}
            if fs:
                key["under"] = "JoinedStr"
            out.append((key, i))
        if "CpyExact" not in clauses:
            continue
        if s < 0 or e < 0 or s > e:
            out.append(({"part": "corpus", "clause": "Region", "kind": k, "lost": "not-a-region"}, i))
            continue
        xs = ds if ds >= 0 else cs
        kk = "Num" if k == "Constant" and (src[cs:ce][:1].isdigit() or src[cs:ce][:1] == ".") else k
        if fs:
            out.append(({"part": "corpus", "clause": "Region", "kind": kk, "under": "JoinedStr"}, i))
            continue
        if e <= xs or s >= ce:
            out.append(({"part": "corpus", "clause": "Region", "kind": kk, "lost": "elsewhere"}, i))
            continue
        dev = deviation(src, (xs, ce), (s, e), kk)
        devs[i] = (dev, (s, e), (xs, ce))
        kids = [devs[j] for j in devs if j > i and nodes[j - 1][3] == i]
        lost, extra = own_deviation(dev, (s, e), (xs, ce), kids)
        for what, items in (("lost", lost), ("extra", extra)):
            for atom in sorted(items):
                out.append(({"part": "corpus", "clause": "Region", "kind": kk, what: atom}, i))
    return out


# ---- file-level failures: shrink to the smallest statement that still fails, describe it
def _stmt_text(lines, st):
    import textwrap
    first = min([st.lineno] + [d.lineno for d in getattr(st, "decorator_list", [])])
    return textwrap.dedent("\n".join(lines[first - 1:st.end_lineno])) + "\n"


def file_failure(src):
    """(clause, exception) of annotating src, or None."""
    from rope.refactor import patchedast
    root, exc, caught = annotate(src)
    if exc is not None:
        return ("Annotate", type(exc).__name__)
    if caught:
        return ("Warns", "")
    try:
        if patchedast.write_ast(root) != src:
            return ("WriteBack", "")
    except Exception as e:  # noqa
        return ("WriteBack", type(e).__name__)
    return None


def shrink_statement(src, sig, depth=0):
    """Smallest statement of src (standing alone, dedented) that fails with signature sig."""
    try:
        mod = ast.parse(src)
    except SyntaxError:
        return src
    lines = src.split("\n")
    for st in mod.body:
        seg = _stmt_text(lines, st)
        try:
            ast.parse(seg)
        except SyntaxError:
            continue            # return / continue / ... outside their context
        if file_failure(seg) == sig:
            inner = []
            for f in ("body", "orelse", "finalbody"):
                inner.extend(getattr(st, f, []) or [])
            for h in getattr(st, "handlers", []) or []:
                inner.extend(h.body)
            for c in getattr(st, "cases", []) or []:
                inner.extend(c.body)
            if inner and depth < 12:
                seg_lines = seg.split("\n")
                # statements of the inner blocks, each alone
                sub = ast.parse(seg).body[0]
                inner2 = []
                for f in ("body", "orelse", "finalbody"):
                    inner2.extend(getattr(sub, f, []) or [])
                for h in getattr(sub, "handlers", []) or []:
                    inner2.extend(h.body)
                for c in getattr(sub, "cases", []) or []:
                    inner2.extend(c.body)
                for st2 in inner2:
                    seg2 = _stmt_text(seg_lines, st2)
                    try:
                        ast.parse(seg2)
                    except SyntaxError:
                        continue
                    if file_failure(seg2) == sig:
                        return shrink_statement(seg2, sig, depth + 1)
            return seg
    return src


def features(stmt_src):
    """Constructs present in a (shrunk) failing statement that the annotation is known to treat loosely."""
    try:
        tree = ast.parse(stmt_src)
    except SyntaxError:
        return "?"
    f = set()
    for n in ast.walk(tree):
        if isinstance(n, ast.arguments):
            if n.kwonlyargs:
                f.add("kwonly-params")
            if n.posonlyargs:
                f.add("posonly-params")
        if isinstance(n, ast.arg) and n.annotation is not None:
            f.add("param-annotation")
        if isinstance(n, (ast.FunctionDef, ast.AsyncFunctionDef)) and n.returns is not None:
            f.add("return-annotation")
        if isinstance(n, (ast.FunctionDef, ast.AsyncFunctionDef, ast.ClassDef)) and getattr(n, "type_params", None):
            f.add("type-params")
        if isinstance(n, ast.ClassDef) and n.keywords:
            f.add("class-keywords")
        if isinstance(n, ast.Try) and n.orelse and n.finalbody:
            f.add("try-else-finally")
        if isinstance(n, ast.JoinedStr):
            f.add("fstring")
        if isinstance(n, ast.Constant) and isinstance(n.value, (str, bytes)):
            v = n.value if isinstance(n.value, str) else n.value.decode("latin-1")
            if "#" in v:
                f.add("hash-in-string")
            if any(c in v for c in "()[]{}"):
                f.add("bracket-in-string")
        if isinstance(n, ast.Name) and not n.id.isascii():
            f.add("non-ascii-name")
        if isinstance(n, ast.Match):
            f.add("match")
        if isinstance(n, ast.Tuple) and not n.elts:
            f.add("empty-tuple")
        if type(n).__name__ in ("TypeAlias", "TryStar"):
            f.add(type(n).__name__)
    if "\t" in stmt_src:
        f.add("tab")
    if "\x0c" in stmt_src:
        f.add("form-feed")
    return "+".join(sorted(f)) or "plain"


def file_failure_key(src):
    sig = file_failure(src)
    if sig is None:
        return None, None
    small = shrink_statement(src, sig)
    try:
        kind = type(ast.parse(small).body[0]).__name__ if len(ast.parse(small).body) == 1 else "Module"
    except SyntaxError:
        kind = "?"
    key = {"part": "corpus", "clause": sig[0], "exc": sig[1], "stmt": kind, "features": features(small)}
    return key, small


def run_region_tlc(batch_path):
    cfg = batch_path + ".cfg"
    tlc.write_cfg(cfg, invariants=["TypeOK", "TraceShape", "Report"])
    verdicts = []
    res = tlc.run("RegionTree", cfg, workers=2, on_tagged=lambda t, v: verdicts.append(v), collect_tags=False,
                  env={"TRACE_FILE": batch_path}, java_opts=("-Xmx5g",))
    os.unlink(cfg)
    return res, verdicts


# ------------------------------------------------------------------ main
def run_gen_tlc(job, put=None):
    k, nsim = job
    behs = []
    cfg = os.path.join(common.SCRATCH_BASE, "c08_gen%d_%d.cfg" % (k, os.getpid()))
    tlc.write_cfg(cfg, constants=gen_constants(True), invariants=GEN_INVARIANTS + ["Export"])
    res = tlc.run("MC_PyLayout", cfg, on_tagged=lambda t, v: (put or behs.append)(v), collect_tags=False, workers=1,
                  simulate={"num": nsim}, depth=3, seed=1000 * common.SEED + k + 1, java_opts=("-Xmx3g",))
    os.unlink(cfg)
    return res, behs


def corrupt_trace(line):
    """Self-test of the binding: a copy of a recorded trace with one region pushed
    out of its parent and one shifted; RegionTree must reject both nodes."""
    tr = json.loads(line)
    nodes = tr["nodes"]
    victims = [i for i, n in enumerate(nodes) if n[3] != 0 and n[7] >= 0 and n[2] > n[1] and n[15] == 0]
    if len(victims) < 2:
        return None, None
    a, b = victims[len(victims) // 3], victims[2 * len(victims) // 3]
    nodes[a][2] = nodes[nodes[a][3] - 1][2] + 1        # end beyond the parent's end
    nodes[b][1] += 1                                   # start one character late
    tr["f"] = "selftest:" + tr["f"]
    return json.dumps(tr, separators=(",", ":")), {a + 1: "Nesting", b + 1: "CpyExact"}


def corpus_part(tier, verdict):
    common.use_repo()          # file-level failures are shrunk in this process, against the tree under test
    files = corpus_files()
    rnd = common.rng("c08-corpus")
    if tier == "quick":
        small = [(l, p) for l, p in files if os.path.getsize(p) < 120000]
        by = {}
        for l, p in small:
            by.setdefault(l.split("/")[0], []).append((l, p))
        files = []
        for label, n in (("rope", 12), ("ropetest", 8), ("stdlib", 27)):
            pool = sorted(by.get(label, []))
            rnd.shuffle(pool)
            files.extend(pool[:n])
        # always some files holding characters that str.splitlines takes for line ends (form feed ...)
        odd = []
        for l, p in sorted(small, key=lambda lp: os.path.getsize(lp[1])):
            if (l, p) in files:
                continue
            try:
                with open(p, "rb") as fh:
                    data = fh.read()
            except OSError:
                continue
            if any(ch in data for ch in (b"\x0c", b"\x0b", b"\x1c", b"\x1d", b"\x1e", b"\xc2\x85",
                                          b"\xe2\x80\xa8", b"\xe2\x80\xa9")):
                odd.append((l, p))
        rnd.shuffle(odd)
        files.extend(sorted(odd[:3]))
    out = common.scratch("c08_")
    stats = {"files": 0, "skipped_not_valid_python": 0, "nodes": 0, "accepted": 0, "rejected": 0,
             "file_level_failures": 0, "unannotated_nodes": 0, "tlc_states": 0}
    samples = []
    try:
        recorded = {}
        nb = 4 if tier == "quick" else 16
        paths = [os.path.join(out, "batch%d.ndjson" % k) for k in range(nb)]
        handles = [open(p, "w") for p in paths]
        sizes = [0] * nb
        expect_reject = {}
        for r in replay.pool_map(record_file, [(l, p, out) for l, p in files], chunk=8):
            if "machinery" in r:
                verdict.machinery_failure(r["machinery"][:500])
                continue
            if r.get("skipped"):
                stats["skipped_not_valid_python"] += 1
                continue
            stats["files"] += 1
            stats["nodes"] += r["nodes"]
            stats["unannotated_nodes"] += r.get("unannotated", 0)
            if r["fails"]:
                stats["file_level_failures"] += 1
                src = read_source(r["path"])
                key, small_src = file_failure_key(src)
                if key is None:
                    key, small_src = {"part": "corpus", "clause": r["fails"][0]["clause"], "stmt": "unstable"}, ""
                verdict.failure(key, {"property": PROP, "key": key, "file": r["label"], "shrunk": small_src,
                                      "detail": r["fails"][:3]})
            if "trace" in r and not r["fails"]:
                k = sizes.index(min(sizes))
                handles[k].write(r["trace"] + "\n")
                sizes[k] += len(r["trace"])
                recorded[r["label"]] = r["path"]
                if len(expect_reject) < 2 and r["nodes"] > 50:
                    bad_line, want = corrupt_trace(r["trace"])
                    if bad_line:
                        handles[k].write(bad_line + "\n")
                        expect_reject["selftest:" + r["label"]] = want
        for h in handles:
            h.close()
        from concurrent.futures import ThreadPoolExecutor
        used = [p for p, n in zip(paths, sizes) if n]
        with ThreadPoolExecutor(max_workers=8) as ex:
            results = list(ex.map(run_region_tlc, used))
        seen_selftests = 0
        for (res, verdicts), path in zip(results, used):
            stats["tlc_states"] += res.distinct
            if not res.ok:
                verdict.machinery_failure("TLC RegionTree on %s: %s %s %s" % (os.path.basename(path), res.violated,
                                                                              res.error, res.tail[-300:]))
                continue
            lines = None
            for v in verdicts:
                if v["f"].startswith("selftest:"):
                    seen_selftests += 1
                    got = {}
                    for i, c in v["bad"]:
                        got.setdefault(i, set()).add(c)
                    for i, c in expect_reject.get(v["f"], {}).items():
                        if c not in got.get(i, ()):
                            verdict.machinery_failure("RegionTree accepted a corrupted trace (%s node %d %s)" % (
                                v["f"], i, c))
                    continue
                if not v["bad"]:
                    stats["accepted"] += 1
                    continue
                stats["rejected"] += 1
                if lines is None:
                    lines = {}
                    with open(path) as fh:
                        for line in fh:
                            tr = json.loads(line)
                            lines[tr["f"]] = tr
                tr = lines[v["f"]]
                src = read_source(recorded[v["f"]])
                for key, i in classify_corpus(src, tr["nodes"], v["bad"]):
                    nd = tr["nodes"][i - 1]
                    verdict.failure(key, {"property": PROP, "key": key, "file": v["f"], "node": nd,
                                          "region_text": src[max(nd[1], 0):max(nd[2], 0)][:200],
                                          "cpython_text": src[max(nd[7], 0):max(nd[8], 0)][:200]})
                if len(samples) < 2:
                    samples.append({"file": v["f"], "nodes": v["n"], "rejected_nodes": len({i for i, c in v["bad"]})})
        if seen_selftests != len(expect_reject) or not expect_reject:
            verdict.machinery_failure("self-test traces missing from the TLC verdicts (%d of %d)" % (
                seen_selftests, len(expect_reject)))
    finally:
        common.rmtree(out)
    return stats, samples


def main(tier):
    timer = common.Timer()
    verdict = common.Verdict(PROP)
    from concurrent.futures import ThreadPoolExecutor
    njobs, nsim = (4, 1500) if tier == "quick" else (8, 20000)
    if os.environ.get("C08_ONLY") == "corpus":
        njobs, nsim = 1, 50
    tlc_results = []
    seen = set()
    exported = [0]

    def producer(put):
        def put_new(b):
            exported[0] += 1
            d = common.digest([b["toks"], sorted(map(json.dumps, b["gaps"])), b["style"]])
            if d not in seen:
                seen.add(d)
                put(b)
        with ThreadPoolExecutor(max_workers=8) as ex:
            for res, _ in ex.map(lambda job: run_gen_tlc(job, put_new), [(k, nsim) for k in range(njobs)]):
                tlc_results.append(res)

    gen_checked = 0
    gen_nodes = 0
    samples = []
    unannotated = {}
    unvisited_ctx = set()
    pending = []
    for r in pt.stream_map(run_generated, producer, chunk=200):
        gen_checked += 1
        if "machinery" in r:
            verdict.machinery_failure(r["machinery"][:500])
            continue
        gen_nodes += r["nodes"]
        for k in r["unannotated"]:
            unannotated[k] = unannotated.get(k, 0) + 1
        if r["hole_unannotated"]:
            unvisited_ctx.add(r["desc"]["ctx"])
        if len(samples) < 3 and r["desc"]["gaps"] and gen_checked % 97 == 0:
            samples.append(r["desc"])
        if r["fails"]:
            pending.append(r)
    gen_states = 0
    for res in tlc_results:
        gen_states += res.generated
        if not res.ok:
            print("MACHINERY-FAILURE property=%s TLC PyLayout: %s %s\n%s" % (PROP, res.violated, res.error, res.tail))
            return 2
    print("TLC PyLayout: %d random behaviours in %d runs (%d distinct), %d states" % (
        exported[0], njobs, gen_checked, gen_states))
    if gen_checked == 0:
        verdict.machinery_failure("no decorated tree was generated")
    for r in pending:
        for f in r["fails"]:
            key = gen_key(f, r["desc"], unvisited_ctx)
            verdict.failure(key, {"property": PROP, "key": key, "case": r["desc"], "detail": f})
    if unannotated:
        print("NOTE nodes rope leaves without a region (not charged):", dict(sorted(unannotated.items())),
              "- contexts whose hole is never visited:", sorted(unvisited_ctx))
    cstats, csamples = ({}, []) if os.environ.get("C08_ONLY") == "generated" else corpus_part(tier, verdict)
    if cstats:
        print("corpus:", cstats)
    if verdict.machinery and not verdict.violations:
        pass
    code = verdict.finish()
    if verdict.violations and verdict.machinery:
        for m in verdict.machinery[:5]:
            print("MACHINERY-FAILURE (besides the violations) property=%s %s" % (PROP, m))
    common.write_evidence(PROP, tier, "exploration", {
        "evaluations": gen_checked + cstats.get("files", 0),
        "distinct_nontrivial": gen_checked + cstats.get("files", 0),
        "rule": "generated part: one evaluation per decorated tree drawn at random by TLC from spec/PyLayout.tla "
                "(context x plugged expression x parentheses x trailing comma x spacing style x <= 2 decorated "
                "gaps), all distinct; corpus part: one evaluation per source file, its annotated tree validated "
                "node by node by TLC against spec/RegionTree.tla",
        "samples": samples + csamples,
        "generated_trees": gen_checked,
        "generated_nodes_compared": gen_nodes,
        "tlc_states_PyLayout": gen_states,
        "traces_validated_against_impl": cstats.get("accepted", 0) + cstats.get("rejected", 0),
        "corpus": cstats,
        "nodes_left_unannotated_by_rope_generated": unannotated,
        "known_finding_hits": verdict.known_hits,
    }, timer.s(), violations=len(verdict.violations), assumptions=[
        "the generated part is a generator with a constructive oracle (token indexes), refereed by CPython's "
        "own positions on every rendered text; it is exploration, not model checking",
        "the corpus part says nothing about constructs the corpus does not contain",
        "nodes that rope leaves without a region are reported as a note, not charged",
    ])
    return code


if __name__ == "__main__":
    sys.exit(main(sys.argv[1] if len(sys.argv) > 1 else "quick"))
