"""C01 - rename preserves the program.

TLC explores spec/PyScope.tla with the Rename action enabled: for every well-formed
abstract program and every binding <<r, n>> with at least one token, Rename(r, n, zz)
rewrites exactly Occ(r, n).  The action property AlphaEq (post-state well-formed,
every token keeps its binding scope, tables of other names untouched) is checked on
the model; every Rename step is exported as (program before, request, program after).

Replay: the program before is rendered into a one-module rope project and, for
*every* token of the binding as the query offset,

    rope.refactor.rename.Rename(project, resource, offset).get_changes("zz"); project.do(..)

is run.  rope may refuse with a RopeError.  Otherwise the result must parse, the set T
of tokens that changed must be a union of whole binding classes of the spec that
contains the requested one (a partly renamed class, a missed token of the requested
binding, changed text in a string/comment are violations), and undo must restore the
text.  CPython keeps the oracle honest: the spec's own post-state is rendered and must
print what the pre-state prints; whenever the token-level verdict says "equivalent",
the symbol tables of rope's output must be those of the input up to the renaming and
executing rope's output must print the same - otherwise exit 2.
"""
import io
import json
import os
import symtable
import sys
import tokenize

from engine import common, replay
from bind import _pyscope as ps
from bind import c02

PROP = "C01"
NEW = "zz"

MAIN_GROUPS = ["core", "core2", "defnames", "targets", "comp", "calls", "decoys"]
FEATURE_GROUPS = ["params", "stmts", "walrus", "lambda"]

_ROOT = None
_PROJECT = None


def _project():
    global _PROJECT
    if _PROJECT is None:
        common.use_repo()
        from rope.base import project as project_mod
        root = os.path.join(_ROOT, "w%d" % os.getpid())
        os.makedirs(root, exist_ok=True)
        _PROJECT = project_mod.Project(root, ropefolder=None)
    return _PROJECT


LAYOUT = (tokenize.NL, tokenize.NEWLINE, tokenize.INDENT, tokenize.DEDENT, tokenize.ENDMARKER)


def tokens(src):
    """[(type, string, (line, col))] without layout tokens"""
    return [(t.type, t.string, t.start) for t in tokenize.generate_tokens(io.StringIO(src).readline)
            if t.type not in LAYOUT]


def table_shape(src):
    """symbol tables as nested plain data: [type, {name: flags}, children]"""
    def walk(t):
        syms = {}
        for s in t.get_symbols():
            flags = (s.is_local(), s.is_global(), s.is_free(), s.is_parameter(),
                     s.is_declared_global(), s.is_nonlocal(), s.is_assigned(),
                     s.is_referenced(), s.is_imported())
            if flags == (False, False, True, False, False, False, False, False, False):
                # a free variable merely passing through this block to a nested one: in a
                # class block it merges with a same-named class attribute, so whether it
                # shows up as a symbol of its own depends on the names, not on the bindings
                continue
            syms[s.get_name()] = flags
        return [t.get_type(), syms, [walk(c) for c in t.get_children()]]
    return walk(symtable.symtable(src, "<m>", "exec"))


def tables_iso(a, b, old, new):
    """b equals a up to renaming old -> new, decided per table"""
    if a[0] != b[0] or len(a[2]) != len(b[2]):
        return False
    sa, sb = a[1], b[1]
    if sa != sb:
        mapped = {(new if k == old else k): v for k, v in sa.items()}
        if mapped != sb or new in sa:
            return False
    return all(tables_iso(x, y, old, new) for x, y in zip(a[2], b[2]))


def rename_at(src, offset, new):
    """run the refactoring on the real project; returns dict(status=..., text=...)"""
    from rope.base import exceptions
    from rope.refactor import rename
    project = _project()
    res = project.get_file("mod.py")
    if not res.exists():
        res.create()
    if res.read() != src:
        res.write(src)
    try:
        changes = rename.Rename(project, res, offset).get_changes(new)
    except exceptions.RopeError as e:
        return {"status": "refused", "exc": type(e).__name__, "msg": str(e)[:100]}
    except Exception as e:  # noqa
        return {"status": "error", "exc": type(e).__name__, "msg": str(e)[:200], "when": "get_changes"}
    try:
        project.do(changes)
    except Exception as e:  # noqa
        return {"status": "error", "exc": type(e).__name__, "msg": str(e)[:200], "when": "do"}
    text = res.read()
    out = {"status": "changed" if text != src else "noop", "text": text,
           "others": sorted(f.path for f in project.get_python_files() if f.path != "mod.py")}
    try:
        project.history.undo()
        out["undone"] = res.read() == src
    except Exception as e:  # noqa
        out["undone"] = False
        out["undo_exc"] = type(e).__name__
    if res.read() != src:
        res.write(src)
    project.history.clear()
    return out


def judge(prog, r, q, res, pre_out, old, b):
    """failures of one rename request; [] if the program is preserved"""
    fails = []
    offs = r.offsets()
    key_at = {}
    for k, pos in r.tok.items():
        key_at[pos] = k
    by_key = {ps.ev_key(e): e for e in prog.events}

    def fail(clause, obs, t, detail):
        for c in c02.causes_for(prog, q, t):
            fails.append(({"clause": clause, "obs": obs, "cause": c, "query": q["op"], "token": t["op"]}, detail))
    if res["status"] == "error":
        t = q
        for m in prog.classes()[(b, old)]:
            if not c02.causes_for(prog, q, m)[0].startswith("by:"):
                t = m
                break
        fail("error", res["exc"], t, "%s raised %s: %s" % (res["when"], res["exc"], res["msg"]))
        return fails, None
    text = res["text"]
    if not res.get("undone", True):
        fail("undo", "", q, "undo after the rename does not restore the module text")
    if res.get("others"):
        fail("stray-file", "", q, "unexpected files %s" % res["others"])
    broken = None
    try:
        compile(text, "<renamed>", "exec")
    except SyntaxError as e:
        broken = str(e)
    before = tokens(r.src)
    try:
        after = tokens(text)
    except (tokenize.TokenError, SyntaxError, IndentationError) as e:
        fail("not-parsing", "", q, "result does not tokenize: %s" % e)
        return fails, None
    if len(before) != len(after):
        fail("garbled", "token-count", q, "token count changed from %d to %d" % (len(before), len(after)))
        return fails, None
    changed = set()      # event keys whose token changed
    for (t0, s0, p0), (t1, s1, p1) in zip(before, after):
        if s0 == s1 and t0 == t1:
            continue
        k = key_at.get(p0)
        if k is None or by_key[k]["op"] in ps.DECOYS or t0 != tokenize.NAME:
            # text that is not a name token of the program: comment, string, helper name
            inside = [kk for kk, pos in r.tok.items() if pos[0] == p0[0] and by_key[kk]["op"] in ps.DECOYS]
            if inside:
                fail("text", "decoy", by_key[inside[0]],
                     "text of a %s changed: %r -> %r" % (by_key[inside[0]]["op"], s0, s1))
            else:
                fail("garbled", "other-token", q, "token %r at %s became %r" % (s0, p0, s1))
            continue
        if s1 != NEW or s0 != old:
            fail("garbled", "wrong-text", by_key[k], "token %r at %s became %r" % (s0, p0, s1))
        changed.add(k)
    classes = prog.classes()
    want = {ps.ev_key(e) for e in classes[(b, old)]}
    for k in sorted(want - changed):
        fail("missing", "self" if k == ps.ev_key(q) else "other", by_key[k],
             "asked at %s: token %s of the renamed binding (scope %d) was not renamed" % (ps.ev_key(q), k, b))
    whole_others = []
    for (cb, cn), members in sorted(classes.items()):
        if cn != old or cb == b:
            continue
        keys = {ps.ev_key(e) for e in members}
        hit = keys & changed
        if hit and hit != keys:
            for k in sorted(hit):
                fail("captured", "partial-class", by_key[k],
                     "asked at %s (binding of scope %d): token %s of the binding of scope %d was renamed, "
                     "tokens %s of that binding were not" % (ps.ev_key(q), b, k, cb, sorted(keys - hit)))
        elif hit:
            whole_others.append(cb)
    if broken is not None:
        # attribute the syntax error to what the token analysis found
        culprits = [(k, d) for k, d in fails if k["clause"] in ("missing", "captured", "garbled", "text")]
        if culprits:
            for k, d in culprits[:]:
                fails.append((dict(k, clause="not-parsing", obs=""), "result does not compile: %s; %s" % (broken, d)))
        else:
            fail("not-parsing", "", q, "result does not compile: %s" % broken)
        return fails, None
    return fails, {"changed": sorted(changed), "whole_other_classes": whole_others}


def run_case(item):
    group, beh = item
    pre = ps.Program(beh["pre"])
    ren = beh["ren"]
    post = ps.Program(beh["post"], order_as={ren["new"]: ren["old"]})
    r = ps.render(pre)
    rp = ps.render(post)
    try:
        info = ps.cpython_check(pre, r)
        info_post = ps.cpython_check(post, rp)
    except ps.SpecMismatch as e:
        return {"machinery": "spec vs CPython: %s\n%s\n%s" % (e, ps.describe(pre), r.src)}
    if (info["out"], info["exc"]) != (info_post["out"], info_post["exc"]):
        return {"machinery": "the spec's Rename changes what the program prints:\n%s\n--- after Rename%s ---\n%s\n%s vs %s" % (
            r.src, ren, rp.src, info["out"], info_post["out"])}
    if [(t, s if s != NEW else ren["old"]) for t, s, _ in tokens(rp.src)] != [(t, s) for t, s, _ in tokens(r.src)]:
        return {"machinery": "the spec's Rename is not a pure token substitution:\n%s\n---\n%s" % (r.src, rp.src)}
    b, old = ren["scope"], ren["old"]
    members = pre.classes()[(b, old)]
    offs = r.offsets()
    shape_pre = table_shape(r.src)
    out = {"group": group, "fails": [], "requests": 0, "refused": 0, "noop": 0, "changed": 0, "exact": 0,
           "over": 0}
    fails_all = []
    results = {}
    for q in members:
        res = rename_at(r.src, offs[ps.ev_key(q)], NEW)
        out["requests"] += 1
        results[str(ps.ev_key(q))] = {k: v for k, v in res.items() if k != "text"}
        if res["status"] == "refused":
            out["refused"] += 1
            continue
        if res["status"] == "noop":
            out["noop"] += 1
            continue
        fails, summary = judge(pre, r, q, res, info["out"], old, b)
        if res["status"] == "changed":
            out["changed"] += 1
        if not fails and summary is not None:
            # token-level verdict: alpha-equivalent.  CPython must agree.
            try:
                iso = tables_iso(shape_pre, table_shape(res["text"]), old, NEW)
            except SyntaxError:
                iso = False
            o2, e2 = ps.execute(res["text"])
            if not iso or (o2, e2) != (info["out"], info["exc"]):
                return {"machinery": "token-level verdict says equivalent, CPython disagrees (tables iso=%s, output %s vs %s)\n%s\n---\n%s" % (
                    iso, info["out"], o2, r.src, res["text"])}
            if summary["whole_other_classes"]:
                out["over"] += 1
            elif res["text"] == rp.src:
                out["exact"] += 1
        if fails:
            results[str(ps.ev_key(q))]["text"] = res.get("text")
            try:
                o2, e2 = ps.execute(res["text"])
                results[str(ps.ev_key(q))]["prints_same"] = (o2, e2) == (info["out"], info["exc"])
            except Exception:  # noqa
                pass
        fails_all.extend(fails)
    if fails_all:
        out["fails"] = [{"key": k, "detail": d} for k, d in fails_all]
        out["program"] = ps.describe(pre)
        out["src"] = r.src
        out["expected"] = rp.src
        out["beh"] = beh
        out["results"] = results
    elif beh.get("_sample"):
        out["sample"] = {"program": ps.describe(pre), "rename": ren, "source": r.src, "spec_after": rp.src,
                         "rope": results}
    return out


def main(tier):
    global _ROOT
    timer = common.Timer()
    verdict = common.Verdict(PROP)
    rnd = common.rng("c01")
    groups = MAIN_GROUPS + FEATURE_GROUPS
    per_group_quick = 1500
    tlc_stats = {}
    items = []
    states = transitions = 0
    runs = ps.run_groups(groups, tier, export="ExportRename", rename=True, coverage=(tier == "quick"),
                         invariants=["TypeOK"], properties=["AlphaEq"])
    for g in groups:
        res, behs = runs[g]
        tlc_stats[g] = dict(res.summary(), rename_steps=len(behs))
        print("TLC PyScope+Rename[%s]: %s rename_steps=%d" % (g, res.summary(), len(behs)))
        if not res.ok:
            if res.violated:
                print("MACHINERY-FAILURE property=%s the spec's Rename violates %s in group %s\n%s" % (
                    PROP, res.violated, g, res.trace[:3000]))
            else:
                print("MACHINERY-FAILURE property=%s TLC: %s\n%s" % (PROP, res.error, res.tail))
            return 2
        if res.coverage and res.coverage.get("AnyRename", (1, 1))[1] == 0:
            verdict.machinery_failure("Rename never taken in group %s" % g)
        states += res.distinct
        transitions += res.generated
        behs.sort(key=lambda x: json.dumps(x, sort_keys=True))
        if tier == "quick" and len(behs) > per_group_quick:
            behs = rnd.sample(behs, per_group_quick)
        for k, p in enumerate(behs):
            if k % 397 == 11:
                p["_sample"] = True
            items.append((g, p))
    # sensitivity of the model: renaming to a name that is not fresh must break AlphaEq
    sens = None
    if tier == "thorough":
        r2, _ = ps.run_group("core2", "quick", export=None, rename=True, fresh_only=False,
                             invariants=["TypeOK"], properties=["AlphaEq"])
        sens = r2.violated
        if r2.violated != "AlphaEq":
            verdict.machinery_failure("model insensitive: Rename to a non-fresh name does not violate AlphaEq (%s)" % r2.violated)
    _ROOT = common.scratch("c01_")
    replayed = 0
    tot = {"requests": 0, "refused": 0, "noop": 0, "changed": 0, "exact": 0, "over": 0}
    by_group = {}
    samples = []
    try:
        for r in replay.pool_map(run_case, items, chunk=60):
            if "machinery" in r:
                verdict.machinery_failure(r["machinery"][:2500])
                continue
            replayed += 1
            for k in tot:
                tot[k] += r[k]
            g = by_group.setdefault(r["group"], {"behaviours": 0, "failing": 0, "requests": 0})
            g["behaviours"] += 1
            g["requests"] += r["requests"]
            if r["fails"]:
                g["failing"] += 1
            if "sample" in r and len(samples) < 4:
                samples.append(r["sample"])
            seen = set()
            for f in r["fails"]:
                ks = json.dumps(f["key"], sort_keys=True)
                if ks in seen:
                    continue
                seen.add(ks)
                verdict.failure(f["key"], {"property": PROP, "key": f["key"], "detail": f["detail"],
                                           "program": r["program"], "source": r["src"],
                                           "spec_rename": r["beh"]["ren"], "spec_after": r["expected"],
                                           "rope_results": r["results"], "behaviour": r["beh"]})
    finally:
        common.rmtree(_ROOT)
    if replayed == 0 or tot["changed"] == 0:
        verdict.machinery_failure("vacuous: %d behaviours, %d requests changed something" % (replayed, tot["changed"]))
    code = verdict.finish()
    common.write_evidence(PROP, tier, "model_checking", {
        "states": states, "transitions": transitions,
        "traces_validated_against_impl": replayed,
        "samples": samples or [{"note": "no sampled behaviour"}],
        "exhaustive": tier == "thorough",
        "distinct_nontrivial": tot["changed"],
        "rule": "one behaviour per Rename step of the TLC graph (program x binding); replayed with every token of "
                "the binding as the query offset; non-trivial = the request changed the module text",
        "rename_requests": tot,
        "tlc_by_group": tlc_stats,
        "replayed_by_group": by_group,
        "model_sensitivity_non_fresh_target": sens,
        "known_finding_hits": verdict.known_hits,
    }, timer.s(), violations=len(verdict.violations), assumptions=[
        "single-module part: <= 4 scopes, <= 5 name events, 1-2 identifiers; target name zz occurs nowhere",
        "default options of Rename.get_changes (docs=False, unsure=None, in_hierarchy=False)",
        "over-renaming whole other bindings keeps the program alpha-equivalent and is C02's concern, not C01's",
    ])
    return code


if __name__ == "__main__":
    sys.exit(main(sys.argv[1] if len(sys.argv) > 1 else "quick"))
