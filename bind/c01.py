"""C01 - rename preserves the program.

TLC explores spec/PyScope.tla with the Rename action enabled: for every well-formed
abstract program and every binding <<r, n>> with at least one token, Rename(r, n, zz)
rewrites exactly Occ(r, n).  The action property AlphaEq (post-state well-formed,
every token keeps its binding scope, tables of other names untouched) is checked on
the model; every Rename step is exported as (program before, request, program after).

Replay: the program before is rendered into a one-module rope project and, for
*every* token of the binding as the query offset,

    rope.refactor.rename.Rename(project, resource, offset).get_changes("zz"); project.do(..)

is run.  rope may refuse with a RopeError.  Otherwise the result must parse, the set T
of tokens that changed must be a union of whole binding classes of the spec that
contains the requested one (a partly renamed class, a missed token of the requested
binding, changed text in a string/comment are violations), and undo must restore the
text.  CPython keeps the oracle honest: the spec's own post-state is rendered and must
print what the pre-state prints; whenever the token-level verdict says "equivalent",
the symbol tables of rope's output must be those of the input up to the renaming and
executing rope's output must print the same - otherwise exit 2.
"""
import io
import json
import os
import symtable
import sys
import tokenize

from engine import common, replay
from bind import _pyscope as ps
from bind import c02

PROP = "C01"
NEW = "zz"

MAIN_GROUPS = ["core", "nest", "blocks", "methods", "decos", "attrs", "newattrs", "recall", "stars", "starmod", "core2", "defnames", "targets", "comp", "calls", "decoys", "modules"]
FEATURE_GROUPS = ["params", "stmts", "walrus", "lambda"]

_ROOT = None
_PROJECT = None


def _project():
    global _PROJECT
    if _PROJECT is None:
        common.use_repo()
        from rope.base import project as project_mod
        root = os.path.join(_ROOT, "w%d" % os.getpid())
        os.makedirs(root, exist_ok=True)
        _PROJECT = project_mod.Project(root, ropefolder=None)
    return _PROJECT


LAYOUT = (tokenize.NL, tokenize.NEWLINE, tokenize.INDENT, tokenize.DEDENT, tokenize.ENDMARKER)


def tokens(src):
    """[(type, string, (line, col))] without layout tokens"""
    return [(t.type, t.string, t.start) for t in tokenize.generate_tokens(io.StringIO(src).readline)
            if t.type not in LAYOUT]


def table_shape(src):
    """symbol tables as nested plain data: [type, {name: flags}, children]"""
    def walk(t):
        syms = {}
        for s in t.get_symbols():
            flags = (s.is_local(), s.is_global(), s.is_free(), s.is_parameter(),
                     s.is_declared_global(), s.is_nonlocal(), s.is_assigned(),
                     s.is_referenced(), s.is_imported())
            if flags == (False, False, True, False, False, False, False, False, False):
                # a free variable merely passing through this block to a nested one: in a
                # class block it merges with a same-named class attribute, so whether it
                # shows up as a symbol of its own depends on the names, not on the bindings
                continue
            syms[s.get_name()] = flags
        return [t.get_type(), syms, [walk(c) for c in t.get_children()]]
    return walk(symtable.symtable(src, "<m>", "exec"))


def brackets_after(r, text):
    """positions of the comprehension brackets in rope's output, through the token
    alignment with the rendered input"""
    before = tokens(r.src)
    after = tokens(text)
    index = {p: i for i, (_, _, p) in enumerate(before)}
    return [(after[index[o]][2], after[index[c]][2]) for (o, c) in r.brackets.values()]


def twin_text(r, text):
    """generator-expression twin (see _pyscope.genexp_twin) of rope's output"""
    if not r.brackets:
        return text
    lines = [list(l) for l in text.split("\n")]
    for (o, c) in brackets_after(r, text):
        for (ln, col), ch, rep in ((o, "[", "("), (c, "]", ")")):
            assert lines[ln - 1][col] == ch
            lines[ln - 1][col] = rep
    return "\n".join("".join(l) for l in lines)


def run_deinlined(r, files=None):
    """execute the program with every list comprehension written as [*(genexp)]; `files`:
    rope's output for the same program (brackets located by token alignment)"""
    if files is None:
        main = ps.deinline(r.src, list(r.brackets.values()))
        files = r.files
    else:
        main = ps.deinline(files[r.main], brackets_after(r, files[r.main]))
    if not r.multi:
        return ps.execute(main)
    return ps.execute_project(dict(files, **{r.main: main}), r.main, r.outside)


def tables_iso(a, b, old, new):
    """b equals a up to renaming old -> new, decided per table"""
    if a[0] != b[0] or len(a[2]) != len(b[2]):
        return False
    sa, sb = a[1], b[1]
    if sa != sb:
        mapped = {(new if k == old else k): v for k, v in sa.items()}
        if mapped != sb or new in sa:
            return False
    return all(tables_iso(x, y, old, new) for x, y in zip(a[2], b[2]))


def snapshot(project):
    return {f.path: f.read() for f in project.get_python_files()}


def rename_at(project, files, place, new):
    """run the refactoring on the real project; place = (path, offset | None: rename the resource)"""
    from rope.base import exceptions
    from rope.refactor import rename
    res = project.get_file(place[0])
    try:
        changes = rename.Rename(project, res, place[1]).get_changes(new)
    except exceptions.RopeError as e:
        return {"status": "refused", "exc": type(e).__name__, "msg": str(e)[:100]}
    except Exception as e:  # noqa
        return {"status": "error", "exc": type(e).__name__, "msg": str(e)[:200], "when": "get_changes"}
    try:
        project.do(changes)
    except Exception as e:  # noqa
        return {"status": "error", "exc": type(e).__name__, "msg": str(e)[:200], "when": "do"}
    after = snapshot(project)
    out = {"status": "changed" if after != files else "noop", "files": after}
    try:
        project.history.undo()
        out["undone"] = snapshot(project) == files
    except Exception as e:  # noqa
        out["undone"] = False
        out["undo_exc"] = type(e).__name__
    project.history.clear()
    return out


def judge(prog, r, rp, q, qdesc, res, ren):
    """failures of one rename request; ([], summary) if the program is preserved.
    q: the event asked at (None for a module token / the resource itself)"""
    fails = []
    old, new, kind = ren["old"], ren["new"], ren["kind"]
    by_key = {ps.ev_key(e): e for e in prog.events}
    classes = prog.classes()
    cls_key = ("sib" if kind == "sib" else "lib" if kind in ("lib", "external") else ren["scope"], old)
    anchor = q if q is not None else None

    def fail(clause, obs, t, detail):
        if kind == "module" or anchor is None:
            cause = "module-rename:%s" % prog.lib
            if prog.lib != "relative" and any(e["op"] == "asattr" and e["s"] != 1 for e in prog.events):
                cause = "aliased-import-in-indented-block"
            fails.append(({"clause": clause, "obs": obs, "cause": cause}, detail))
            return
        for c in c02.causes_for(prog, anchor, t if t is not None else anchor):
            fails.append(({"clause": clause, "obs": obs, "cause": c, "query": anchor["op"],
                           "token": (t or anchor)["op"]}, detail))
    if res["status"] == "error":
        t = anchor
        if anchor is not None and kind != "module":
            for m in classes[cls_key]:
                if not c02.causes_for(prog, anchor, m)[0].startswith("by:"):
                    t = m
                    break
        fail("error", res["exc"], t, "%s raised %s: %s" % (res["when"], res["exc"], res["msg"]))
        return fails, None
    after = res["files"]
    if not res.get("undone", True):
        fail("undo", "", anchor, "undo after the rename does not restore the project")
    want_files = rp.files
    # pair every file of the input with its text afterwards (the second module may move)
    pairs = {}
    for path in r.files:
        moved = rp.lib_path if path == r.lib_path else path
        if path in after and moved not in after:
            pairs[path] = path
        else:
            pairs[path] = moved
    if sorted(after) != sorted(want_files):
        fail("files", "missing" if set(after) < set(want_files) else "other", anchor,
             "files after the rename %s, expected %s" % (sorted(after), sorted(want_files)))
        if any(pairs[p_] not in after for p_ in pairs):
            return fails, None
    broken = None
    for path, text in after.items():
        try:
            compile(text, path, "exec")
        except SyntaxError as e:
            broken = "%s: %s" % (path, e)
    key_at = {}
    for k, pos in r.tok.items():
        key_at[(r.main, pos)] = k
    for k, pos in r.lib_tok.items():
        key_at[(r.lib_path, pos)] = k
    for k, pos in r.sib_tok.items():
        key_at[(r.sib_path, pos)] = k
    modtok_at = {(p_, (l, c)) for (p_, l, c) in r.mod_tokens}
    changed, changed_mod = set(), set()
    for path, apath in pairs.items():
        before = tokens(r.files[path])
        try:
            aft = tokens(after[apath])
        except (tokenize.TokenError, SyntaxError, IndentationError) as e:
            fail("not-parsing", "", anchor, "%s does not tokenize: %s" % (apath, e))
            return fails, None
        if len(before) != len(aft):
            fail("garbled", "token-count", anchor, "token count of %s changed from %d to %d" % (path, len(before), len(aft)))
            return fails, None
        for (t0, s0, p0), (t1, s1, p1) in zip(before, aft):
            if s0 == s1 and t0 == t1:
                continue
            if (path, p0) in modtok_at and t0 == tokenize.NAME:
                if s1 != (new if kind == "module" else s0):
                    fail("garbled", "module-token", anchor, "module token %r at %s:%s became %r" % (s0, path, p0, s1))
                changed_mod.add((path, p0))
                continue
            k = key_at.get((path, p0))
            if k is None or by_key[k]["op"] in ps.DECOYS or t0 != tokenize.NAME:
                inside = [kk for kk, pos in r.tok.items() if path == r.main and pos[0] == p0[0] and by_key[kk]["op"] in ps.DECOYS]
                if inside:
                    fail("text", "decoy", by_key[inside[0]],
                         "text of a %s changed: %r -> %r" % (by_key[inside[0]]["op"], s0, s1))
                else:
                    fail("garbled", "other-token", anchor, "token %r at %s:%s became %r" % (s0, path, p0, s1))
                continue
            if s1 != new or s0 != old or kind == "module":
                fail("garbled", "wrong-text", by_key[k], "token %r at %s:%s became %r" % (s0, path, p0, s1))
            changed.add(k)
    whole_others = []
    if kind == "module":
        for place in sorted(modtok_at - changed_mod):
            fail("missing", "module-token", None, "%s: the module token at %s:%s still names the old module" % (qdesc, place[0], place[1]))
    else:
        want = {ps.ev_key(e) for e in classes[cls_key]}
        for k in sorted(want - changed):
            fail("missing", "self" if q is not None and k == ps.ev_key(q) else "other", by_key[k],
                 "asked at %s: token %s of the renamed binding %s was not renamed" % (qdesc, k, cls_key))
        for k in sorted(changed):
            if not by_key[k]["det"] and by_key[k]["b"] == 0 and not by_key[k].get("lc") and not by_key[k].get("sc"):
                # an unbound / builtin name (it stands for any identifier defined outside the
                # program) is not a token of the renamed binding
                fail("captured", "undetermined", by_key[k],
                     "asked at %s (binding %s): the unbound name token %s was renamed too" % (qdesc, cls_key, k))
        for ck, members in sorted(classes.items(), key=lambda kv: (str(kv[0][0]), kv[0][1])):
            if ck[1] != old or ck == cls_key:
                continue
            keys = {ps.ev_key(e) for e in members}
            hit = keys & changed
            if hit and hit != keys:
                for k in sorted(hit):
                    # describe the deviation by the renamed token, or - when that only says
                    # "plain binding" / "same import merged" - by a token that was left behind
                    t_cause = by_key[k]
                    if anchor is not None:
                        generic = lambda cs: c02.generic_cause(cs[0])
                        if generic(c02.causes_for(prog, anchor, t_cause)):
                            for k2 in sorted(keys - hit):
                                if not generic(c02.causes_for(prog, anchor, by_key[k2])):
                                    t_cause = by_key[k2]
                                    break
                    fail("captured", "partial-class", t_cause,
                         "asked at %s (binding %s): token %s of the binding %s was renamed, tokens %s of that "
                         "binding were not" % (qdesc, cls_key, k, ck, sorted(keys - hit)))
            elif hit:
                whole_others.append(ck[0])
    if broken is not None:
        culprits = [(k, d) for k, d in fails if k["clause"] in ("missing", "captured", "garbled", "text")]
        if culprits:
            for k, d in culprits[:]:
                fails.append((dict(k, clause="not-parsing", obs=""), "result does not compile: %s; %s" % (broken, d)))
        else:
            fail("not-parsing", "", anchor, "result does not compile: %s" % broken)
        return fails, None
    return fails, {"changed": sorted(changed), "whole_other_classes": whole_others,
                   "main_after": after[pairs[r.main]]}


def run_case(item):
    group, beh = item
    ren = beh["ren"]
    pre = ps.Program(beh["pre"])
    post = ps.Program(beh["post"], order_as={ren["new"]: ren["old"]})
    post.sibname = pre.sibname       # a module rename does not move the sibling / second starred module
    r = ps.render(pre)
    rp = ps.render(post)
    try:
        info = ps.cpython_check(pre, r)
        info_post = ps.cpython_check(post, rp)
    except ps.SpecMismatch as e:
        return {"machinery": "spec vs CPython: %s\n%s\n%s" % (e, ps.describe(pre), r.files)}
    ref = (info["out"], info["exc"])
    inlining_bug = False
    if ref != (info_post["out"], info_post["exc"]) and r.brackets and run_deinlined(r) == run_deinlined(rp):
        # CPython 3.12.0/3.12.1 miscompile some inlined comprehensions (see _pyscope.deinline);
        # with generator expressions the two programs agree: compare in that form
        inlining_bug = True
        ref = run_deinlined(r)
    elif ref != (info_post["out"], info_post["exc"]):
        return {"machinery": "the spec's Rename changes what the program prints:\n%s\n--- after Rename%s ---\n%s\n%s vs %s" % (
            r.files, ren, rp.files, info["out"], info_post["out"])}
    if ren["kind"] != "module":
        for path in r.files:
            if [(t, s if s != NEW else ren["old"]) for t, s, _ in tokens(rp.files[path])] != \
                    [(t, s) for t, s, _ in tokens(r.files[path])]:
                return {"machinery": "the spec's Rename is not a pure token substitution:\n%s\n---\n%s" % (r.files, rp.files)}
    places = r.places()
    if ren["kind"] == "module":
        requests = [(None, "module token %s:%d" % pl, pl) for pl in r.module_places()]
        requests.append((None, "the resource %s" % r.lib_path, (r.lib_path, None)))
        new = ren["new"]
    else:
        cls_key = ("sib" if ren["kind"] == "sib" else "lib" if ren["kind"] in ("lib", "external") else ren["scope"],
                   ren["old"])
        requests = [(q, str(ps.ev_key(q)), places[ps.ev_key(q)]) for q in pre.classes()[cls_key]
                    if not places[ps.ev_key(q)][0].startswith("<outside>/")]
        new = NEW
    shape_pre = table_shape(ps.genexp_twin(r))
    out = {"group": group, "fails": [], "requests": 0, "refused": 0, "noop": 0, "changed": 0, "exact": 0,
           "over": 0, "kind": ren["kind"], "inlining_bug": 0}
    fails_all = []
    results = {}
    project, close = c02.open_project(r)
    files = dict((k, v) for k, v in r.files.items())
    try:
        if snapshot(project) != {k: v for k, v in files.items()}:
            return {"machinery": "project files differ from the rendering: %s" % sorted(snapshot(project))}
        for q, qdesc, place in requests:
            res = rename_at(project, files, place, new)
            out["requests"] += 1
            results[qdesc] = {k: v for k, v in res.items() if k != "files"}
            if snapshot(project) != files:      # undo failed: restore by hand for the next request
                return dict(out, machinery_soft=True, fails=[{"key": {"clause": "undo", "obs": "", "cause": "restore"},
                                                               "detail": "undo did not restore the project"}],
                            program=ps.describe(pre), files=r.files, expected=rp.files, beh=beh, results=results)
            if res["status"] == "refused":
                out["refused"] += 1
                continue
            if res["status"] == "noop":
                out["noop"] += 1
                continue
            out["changed"] += 1
            if ren["kind"] == "external":
                # the definition lies outside the project: no edit of the project can keep
                # the uses bound to it
                o2, e2 = ps.execute_project(res["files"], r.main, r.outside)
                fails_all.append(({"clause": "external", "obs": "prints-same" if (o2, e2) == (info["out"], info["exc"]) else "prints-differently",
                                   "cause": "name-defined-outside-the-project", "query": q["op"]},
                                  "asked at %s: the name is defined in %s outside the project, yet the project was "
                                  "edited; running it now gives %s/%s instead of %s/%s" % (
                                      qdesc, r.lib_path, o2, e2, info["out"], info["exc"])))
                results[qdesc]["files"] = res.get("files")
                continue
            fails, summary = judge(pre, r, rp, q, qdesc, res, ren)
            if not fails and summary is not None:
                # token-level verdict: alpha-equivalent.  CPython must agree.
                try:
                    iso = tables_iso(shape_pre, table_shape(twin_text(r, summary["main_after"])),
                                     ren["old"], new)
                except SyntaxError:
                    iso = False
                main_after = rp.main
                if not r.multi:
                    o2, e2 = ps.execute(summary["main_after"])
                else:
                    o2, e2 = ps.execute_project(res["files"], main_after, r.outside)
                if r.brackets and (inlining_bug or (o2, e2) != ref):
                    o2, e2 = run_deinlined(r, res["files"])
                    if not inlining_bug and (o2, e2) == run_deinlined(r):
                        inlining_bug = True
                        ref = (o2, e2)
                if not iso or (o2, e2) != ref:
                    return {"machinery": "token-level verdict says equivalent, CPython disagrees (tables iso=%s, output %s/%s vs %s/%s)\n%s\n---\n%s" % (
                        iso, info["out"], info["exc"], o2, e2, r.files, res["files"])}
                if summary["whole_other_classes"]:
                    out["over"] += 1
                elif res["files"] == rp.files:
                    out["exact"] += 1
            if fails:
                results[qdesc]["files"] = res.get("files")
            fails_all.extend(fails)
    finally:
        close()
    out["inlining_bug"] = int(inlining_bug)
    if fails_all:
        out["fails"] = [{"key": k, "detail": d} for k, d in fails_all]
        out["program"] = ps.describe(pre)
        out["files"] = r.files
        out["expected"] = rp.files
        out["beh"] = beh
        out["results"] = results
    elif beh.get("_sample"):
        out["sample"] = {"program": ps.describe(pre), "rename": ren, "files": r.files, "spec_after": rp.files,
                         "rope": results}
    return out


def main(tier):
    global _ROOT
    timer = common.Timer()
    verdict = common.Verdict(PROP)
    rnd = common.rng("c01")
    groups = MAIN_GROUPS + FEATURE_GROUPS
    per_group_cap = 700 if tier == "quick" else 6000      # thorough: a cap keeps the run inside its budget
    if os.environ.get("PYSCOPE_CAP"):      # development aid: replay everything / another cap
        per_group_cap = int(os.environ["PYSCOPE_CAP"])
    capped = []
    tlc_stats = {}
    items = []
    states = transitions = 0
    runs = ps.run_groups(groups, tier, export="ExportRename", rename=True, coverage=(tier == "quick"),
                         invariants=["TypeOK"], properties=["AlphaEq"])
    for g in groups:
        res, behs = runs[g]
        tlc_stats[g] = dict(res.summary(), rename_steps=len(behs))
        print("TLC PyScope+Rename[%s]: %s rename_steps=%d" % (g, res.summary(), len(behs)))
        if not res.ok:
            if res.violated:
                print("MACHINERY-FAILURE property=%s the spec's Rename violates %s in group %s\n%s" % (
                    PROP, res.violated, g, res.trace[:3000]))
            else:
                print("MACHINERY-FAILURE property=%s TLC: %s\n%s" % (PROP, res.error, res.tail))
            return 2
        if res.coverage and res.coverage.get("AnyRename", (1, 1))[1] == 0:
            verdict.machinery_failure("Rename never taken in group %s" % g)
        states += res.distinct
        transitions += res.generated
        behs.sort(key=lambda x: json.dumps(x, sort_keys=True))
        if len(behs) > per_group_cap and not (tier == "quick" and ps.GROUPS[g].get("replay_all")):
            capped.append("%s: %d of %d" % (g, per_group_cap, len(behs)))
            behs = rnd.sample(behs, per_group_cap)
        for k, p in enumerate(behs):
            if k % 397 == 11:
                p["_sample"] = True
            items.append((g, p))
    # sensitivity of the model: renaming to a name that is not fresh must break AlphaEq
    sens = None
    if tier == "thorough":
        r2, _ = ps.run_group("core2", "quick", export=None, rename=True, fresh_only=False,
                             invariants=["TypeOK"], properties=["AlphaEq"])
        sens = r2.violated
        if r2.violated != "AlphaEq":
            verdict.machinery_failure("model insensitive: Rename to a non-fresh name does not violate AlphaEq (%s)" % r2.violated)
    print("TLC done after %.0f s; replaying %d items" % (timer.s(), len(items)))
    _ROOT = common.scratch("c01_")
    c02._ROOT = _ROOT
    replayed = 0
    tot = {"requests": 0, "refused": 0, "noop": 0, "changed": 0, "exact": 0, "over": 0, "inlining_bug": 0}
    by_group = {}
    samples = []
    try:
        for r in replay.pool_map(run_case, items, chunk=60):
            if "machinery" in r:
                verdict.machinery_failure(r["machinery"][:2500])
                continue
            replayed += 1
            for k in tot:
                tot[k] += r[k]
            g = by_group.setdefault(r["group"], {"behaviours": 0, "failing": 0, "requests": 0})
            g["behaviours"] += 1
            g["requests"] += r["requests"]
            if r["fails"]:
                g["failing"] += 1
            if "sample" in r and len(samples) < 4:
                samples.append(r["sample"])
            seen = set()
            for f in r["fails"]:
                ks = json.dumps(f["key"], sort_keys=True)
                if ks in seen:
                    continue
                seen.add(ks)
                verdict.failure(f["key"], {"property": PROP, "key": f["key"], "detail": f["detail"],
                                           "program": r["program"], "files": r["files"],
                                           "spec_rename": r["beh"]["ren"], "spec_after": r["expected"],
                                           "rope_results": r["results"], "behaviour": r["beh"]})
    finally:
        common.rmtree(_ROOT)
    if replayed == 0 or tot["changed"] == 0:
        verdict.machinery_failure("vacuous: %d behaviours, %d requests changed something" % (replayed, tot["changed"]))
    code = verdict.finish()
    common.write_evidence(PROP, tier, "model_checking", {
        "states": states, "transitions": transitions,
        "traces_validated_against_impl": replayed,
        "samples": samples or [{"note": "no sampled behaviour"}],
        "exhaustive": tier == "thorough" and not capped,
        "sampled_groups": capped,
        "distinct_nontrivial": tot["changed"],
        "rule": "one behaviour per Rename step of the TLC graph (program x binding); replayed with every token of "
                "the binding as the query offset; non-trivial = the request changed the module text",
        "rename_requests": tot,
        "tlc_by_group": tlc_stats,
        "replayed_by_group": by_group,
        "model_sensitivity_non_fresh_target": sens,
        "known_finding_hits": verdict.known_hits,
    }, timer.s(), violations=len(verdict.violations), assumptions=[
        "single-module part: <= 4 scopes, <= 5 name events, 1-2 identifiers; target name zz occurs nowhere",
        "default options of Rename.get_changes (docs=False, unsure=None, in_hierarchy=False)",
        "over-renaming whole other bindings keeps the program alpha-equivalent and is C02's concern, not C01's",
    ])
    return code


if __name__ == "__main__":
    sys.exit(main(sys.argv[1] if len(sys.argv) > 1 else "quick"))
