"""C17 - the remaining class-level refactorings preserve behaviour or are refused.

TLC explores spec/PyClass.tla: every two-module project of the fragment (class
variants x client snippets from the usage-shape pools of the five families) x
every refactoring target.  On the model it checks ObsPreserved, RefusedUnchanged
and, for Encapsulate, WritesBecomeSetters / ReadsBecomeGetters, and prints one
behaviour per (program, request) carrying

  * the program as the spec's own token stream (this module only joins tokens),
    every identifier tagged with what it denotes; the sites of the request are
    token indices,
  * what each entry module prints according to the spec's store semantics,
  * whether the request has to be refused, the expected getter / setter counts,
  * the spec's own refactored program and its output.

Each behaviour is replayed on a real rope project: the spec's output prediction
is first cross-checked against CPython (disagreement = exit 2), then the real
refactoring is requested at a site; rope may refuse with a RopeError, otherwise
every module must compile and both entry modules must print what the spec says.
"""
import ast
import io
import json
import os
import sys
import tokenize

from engine import common, tlc, replay, runpy

PROP = "C17"
ALL_FEATURES = {"comment", "semi", "chain", "augprec", "collide", "impure", "livetemp"}
ALL_FAMILIES = {"enc", "fac", "mo", "ltf", "uf"}
INVARIANTS = ["TypeOK", "Prog0Runs", "ObsPreserved", "RefusedUnchanged", "WritesBecomeSetters",
              "ReadsBecomeGetters", "TargetHasSite"]
LAYOUT_TOKENS = ("NL", "IN", "DE", "#c", "NLC", "BSL", "DD")
KEYWORDS_SPACE = ("return", "import", "from", "in", "class", "def")


def constants(tier, families=None, guards=True, bounds=None):
    a, b, tot = bounds or ((1, 1, 2) if tier == "quick" else (2, 2, 2))
    return {"Families": set(families or ALL_FAMILIES), "MaxA": a, "MaxB": b, "MaxTotal": tot,
            "Features": set(ALL_FEATURES), "Guards": guards}


# ------------------------------------------------------------------ rendering
def render(tokens, layout=0):
    """Join the spec's token stream into source text.

    Returns (text, offsets) with offsets[i] = offset of token i in text (None for
    layout tokens).  layout: 0 = a blank line after every top-level definition,
    1 = no blank lines at all, 2 = two blank lines after definitions and one
    between methods, 3 = like 0 without the newline at the end of the file.
    """
    eof_newline = layout != 3
    if layout == 3:
        layout = 0
    lines = []
    offsets = [None] * len(tokens)
    cur = ""
    cur_toks = []          # (token index, column)
    indent = 0
    prev = None
    base = 0
    cont = False

    def flush():
        nonlocal cur, cur_toks, base, prev
        for i, col in cur_toks:
            offsets[i] = base + col
        lines.append(cur)
        base += len(cur) + 1
        cur, cur_toks, prev = "", [], None

    def blank(n):
        nonlocal base
        for _ in range(n):
            lines.append("")
            base += 1

    for i, tok in enumerate(tokens):
        t = tok["t"] if isinstance(tok, dict) else tok
        if t == "NL":
            flush()
            continue
        if t == "IN":
            indent += 4
            continue
        if t == "DE":
            indent -= 4
            if indent == 0:
                blank({0: 1, 1: 0, 2: 2}[layout])
            elif layout == 2:
                blank(1)
            continue
        if t == "DD":          # end of a one-line definition
            if indent == 0:
                blank({0: 1, 1: 0, 2: 2}[layout])
            continue
        if t == "#c":
            cur += "  # c"
            continue
        if t in ("NLC", "BSL"):      # line break inside brackets / backslash continuation
            if t == "BSL":
                cur += " \\"
            flush()
            cont = True
            continue
        if prev is None:
            cur = " " * (indent + (4 if cont else 0))
            cont = False
            sep = ""
        elif t in (")", ",", ".", ":", ";") or prev in ("(", ".", "@"):
            sep = ""
        elif t == "(" and (prev == ")" or (prev[0].isalpha() or prev[0] == "_") and prev not in KEYWORDS_SPACE):
            sep = ""
        else:
            sep = " "
        cur_toks.append((i, len(cur) + len(sep)))
        cur += sep + t
        prev = t
    if cur:
        flush()
    return "\n".join(lines) + ("\n" if eof_newline else ""), offsets


def check_render(text, tokens, offsets):
    """The rendered text, read back with CPython's tokenizer, is exactly the spec's
    token stream, at the offsets we computed.  Returns an error string or None."""
    want = [(t["t"] if isinstance(t, dict) else t, o) for t, o in zip(tokens, offsets)
            if (t["t"] if isinstance(t, dict) else t) not in LAYOUT_TOKENS]
    line_starts = [0]
    for ln in text.split("\n"):
        line_starts.append(line_starts[-1] + len(ln) + 1)
    got = []
    try:
        for tk in tokenize.generate_tokens(io.StringIO(text).readline):
            if tk.type in (tokenize.NAME, tokenize.NUMBER, tokenize.OP, tokenize.STRING):
                got.append((tk.string, line_starts[tk.start[0] - 1] + tk.start[1]))
    except (tokenize.TokenError, IndentationError, SyntaxError) as e:
        return "rendered text does not tokenize: %s" % e
    if got != want:
        for k, (g, w) in enumerate(zip(got, want)):
            if g != w:
                return "token %d: rendered %r, spec %r" % (k, g, w)
        return "token count: rendered %d, spec %d" % (len(got), len(want))
    return None


def obs_text(lines):
    return "".join(" ".join(l) + "\n" for l in lines)


# ------------------------------------------------------------------ running programs
_RUN_CACHE = {}

# both entry modules in ONE fresh interpreter (python -S -E -B, cwd = project root): run a.py as
# __main__, forget every project module, run b.py as __main__.  Same observable as two calls of
# engine.runpy.run_entry, half the process spawns.
_RUNNER2 = r"""
import sys, runpy, os, io, json, contextlib
sys.path.insert(0, os.getcwd())
res = {}
for mod in ("a", "b"):
    for m in ("a", "b"):
        sys.modules.pop(m, None)
    buf = io.StringIO()
    exc = None
    with contextlib.redirect_stdout(buf):
        try:
            runpy.run_path(mod + ".py", run_name="__main__")
        except BaseException as e:
            exc = type(e).__name__
    res[mod] = [buf.getvalue()[:20000], exc]
sys.stdout.write(json.dumps(res))
"""


def run_both_entries(root):
    import subprocess
    for timeout in (60, 600):      # programs run in milliseconds; a timeout means a starved machine: retry once
        try:
            p = subprocess.run([sys.executable, "-S", "-E", "-B", "-c", _RUNNER2], cwd=root, capture_output=True,
                               text=True, timeout=timeout, env={"PYTHONHASHSEED": "0", "PATH": "/usr/bin:/bin"})
            break
        except subprocess.TimeoutExpired:
            if timeout == 600:
                raise
    try:
        return json.loads(p.stdout)
    except ValueError:
        return {"a": ["", "exit%s:%s" % (p.returncode, p.stderr.strip()[-200:])],
                "b": ["", "exit%s:%s" % (p.returncode, p.stderr.strip()[-200:])]}


def run_files(files):
    """{'a.py': text, 'b.py': text} -> {'a': [stdout, exc], 'b': [stdout, exc], 'syntax': [...]}"""
    key = common.digest(files)
    hit = _RUN_CACHE.get(key)
    if hit is not None:
        return hit
    res = {"syntax": []}
    for name, src in sorted(files.items()):
        try:
            compile(src, name, "exec")
        except SyntaxError as e:
            res["syntax"].append([name, "%s line %s" % (e.msg, e.lineno)])
    if not res["syntax"]:
        root = common.scratch("c17r_")
        try:
            for name, src in files.items():
                with open(os.path.join(root, name), "w") as f:
                    f.write(src)
            res.update(run_both_entries(root))
        finally:
            common.rmtree(root)
    if len(_RUN_CACHE) > 4000:
        _RUN_CACHE.clear()
    _RUN_CACHE[key] = res
    return res


def count_calls(files, names):
    """number of calls  <expr>.<name>(...)  per name over all modules"""
    out = {n: 0 for n in names}
    for src in files.values():
        for node in ast.walk(ast.parse(src)):
            if isinstance(node, ast.Call) and isinstance(node.func, ast.Attribute) and node.func.attr in out:
                out[node.func.attr] += 1
    return out


# ------------------------------------------------------------------ replay of one behaviour at one site
def request_on_rope(project, req, resource, offset):
    from rope.refactor.encapsulate_field import EncapsulateField
    from rope.refactor.introduce_factory import IntroduceFactory
    from rope.refactor.method_object import MethodObject
    from rope.refactor.localtofield import LocalToField
    from rope.refactor.usefunction import UseFunction
    kind = req["kind"]
    if kind == "enc":
        return EncapsulateField(project, resource, offset).get_changes()
    if kind == "fac":
        return IntroduceFactory(project, resource, offset).get_changes(req["new"], global_factory=req["glob"])
    if kind == "mo":
        return MethodObject(project, resource, offset).get_changes(classname=req["new"])
    if kind == "ltf":
        return LocalToField(project, resource, offset).get_changes()
    if kind == "uf":
        return UseFunction(project, resource, offset).get_changes()
    if kind == "mm":      # MoveMethod family (part of property C05, driven by bind/_movemethod.py)
        from rope.refactor import move
        mover = move.create_move(project, resource, offset)
        if not isinstance(mover, move.MoveMethod):
            raise TypeError("create_move gave %s for a method" % type(mover).__name__)
        return mover.get_changes(req["attr"], req["new"])
    raise ValueError(kind)


def run_behaviour(item):
    beh, site, delta, layout = item
    common.use_repo()
    from rope.base import project as project_mod, exceptions

    req = beh["req"]
    scen = {"fam": beh["fam"], "variant": beh["variant"], "imp": beh["imp"], "sa": beh["sa"], "sb": beh["sb"],
            "feats": beh["feats"], "req": req, "site": site, "delta": delta, "layout": layout}
    # --- render and keep the renderer honest
    files, offs = {}, {}
    for mod, key in (("a", "toksA"), ("b", "toksB")):
        text, offsets = render(beh[key], layout)
        err = check_render(text, beh[key], offsets)
        if err:
            return {"machinery": "render %s: %s" % (mod, err), "scen": scen}
        files[mod + ".py"] = text
        offs[mod] = offsets
    tok = beh["toks" + site["mod"].upper()][site["idx"] - 1]
    if tok["d"] != req["tgt"]:
        return {"machinery": "site token %r does not denote %r" % (tok, req["tgt"]), "scen": scen}
    offset = offs[site["mod"]][site["idx"] - 1] + (delta % len(tok["t"]))
    # --- spec vs CPython on the original program
    want = {"a": obs_text(beh["obsA"]), "b": obs_text(beh["obsB"])}
    orig = run_files(files)
    if orig["syntax"] or any(orig[m] != [want[m], None] for m in ("a", "b")):
        return {"machinery": "spec Obs disagrees with CPython on the original program", "scen": scen,
                "files": files, "cpython": orig, "spec": want}
    # --- spec vs CPython on the spec's own refactored program
    files1 = {"a.py": render(beh["textA1"], layout)[0], "b.py": render(beh["textB1"], layout)[0]}
    want1 = {"a": obs_text(beh["obsA1"]), "b": obs_text(beh["obsB1"])}
    spec1 = run_files(files1)
    if spec1["syntax"] or any(spec1[m] != [want1[m], None] for m in ("a", "b")):
        return {"machinery": "spec Obs disagrees with CPython on the spec's refactored program", "scen": scen,
                "files": files1, "cpython": spec1, "spec": want1}
    if want1 != want:
        return {"machinery": "spec's refactoring does not preserve Obs (TLC should have said so)", "scen": scen}

    # --- the real refactoring
    root = common.scratch("c17_")
    obs = {"outcome": None}
    fails = []
    try:
        for name, src in files.items():
            with open(os.path.join(root, name), "w") as f:
                f.write(src)
        project = project_mod.Project(root, ropefolder=None)
        try:
            resource = project.get_file(site["mod"] + ".py")
            try:
                changes = request_on_rope(project, req, resource, offset)
                project.do(changes)
                obs["outcome"] = "performed"
            except exceptions.RopeError as e:
                obs["outcome"] = "refused"
                obs["refusal"] = "%s: %s" % (type(e).__name__, str(e)[:200])
            except Exception as e:  # noqa: an internal error of rope
                obs["outcome"] = "error"
                obs["exc"] = type(e).__name__
                obs["exc_msg"] = str(e)[:300]
                import traceback
                obs["trace"] = traceback.format_exc()[-1200:]
            after = {}
            for name in sorted(os.listdir(root)):
                if name.endswith(".py"):
                    with open(os.path.join(root, name)) as f:
                        after[name] = f.read()
            obs["after"] = after
            if obs["outcome"] == "performed" and after != files:
                try:
                    project.history.undo()
                    back = {n: open(os.path.join(root, n)).read() for n in sorted(os.listdir(root))
                            if n.endswith(".py")}
                    obs["undo_restores"] = back == files
                except Exception as e:  # noqa
                    obs["undo_restores"] = "%s: %s" % (type(e).__name__, e)
        finally:
            project.close()
    finally:
        common.rmtree(root)

    # --- judge on the observable
    if obs["outcome"] == "error":
        fails.append("InternalError")
    if obs["outcome"] in ("refused", "error") and obs["after"] != files:
        fails.append("RefusalLeavesProject")
    if obs["outcome"] == "performed":
        obs["changed"] = obs["after"] != files
        res = run_files(obs["after"])
        obs["run"] = res
        if set(obs["after"]) != set(files):
            fails.append("ObsPreserved")
            obs["deviation"] = "files"
            obs["where"] = ""
        elif res["syntax"]:
            fails.append("Parses")
            obs["deviation"] = "syntax"
            obs["where"] = ",".join(n for n, _ in res["syntax"])
        else:
            bad = [m for m in ("a", "b") if res[m] != [want[m], None]]
            if bad:
                fails.append("ObsPreserved")
                excs = sorted({res[m][1] for m in bad if res[m][1]})
                obs["deviation"] = ("exc:" + ",".join(excs)) if excs else "output"
                obs["where"] = "entry " + "+".join(bad)
            elif req["kind"] == "enc" and obs["changed"]:
                n = count_calls(obs["after"], [req["get"], req["set"]])
                obs["nget"], obs["nset"] = n[req["get"]], n[req["set"]]
                if n[req["set"]] != beh["nset"]:
                    fails.append("WritesBecomeSetters")
                if n[req["get"]] != beh["nget"]:
                    fails.append("ReadsBecomeGetters")
    return {"fails": fails, "scen": scen, "obs": obs, "files": files, "spec": {
        "obs": want, "refusable": beh["refusable"], "nget": beh["nget"], "nset": beh["nset"],
        "refactored_by_spec": files1}}


def key_of(r):
    """Specific description of a failure: the refactoring, the failing clauses, the
    class of deviation (syntax | output | exc:<Name> | <internal exception>) and the
    single optional known-problematic shape (spec feature) the program contains.
    The spec allows at most one featured element per program, and the same programs
    without it are explored too, so a failure of any other origin shows up unkeyed."""
    scen = r["scen"]
    feats = scen["feats"]
    return {
        "refactoring": scen["req"]["kind"],
        "clauses": sorted(r["fails"]),
        "feature": feats[0] if feats else None,
        "deviation": r["obs"].get("deviation") or r["obs"].get("exc"),
    }


# ------------------------------------------------------------------ main
def run_tlc(tier, families, guards=True, invariants=INVARIANTS, export=True, bounds=None, coverage=False, tag=""):
    cfg = os.path.join(common.SCRATCH_BASE, "c17_%d%s.cfg" % (os.getpid(), tag))
    tlc.write_cfg(cfg, constants=constants(tier, families, guards, bounds),
                  invariants=list(invariants) + (["Export"] if export else []))
    behs = []
    try:
        res = tlc.run("MC_PyClass", cfg, on_tagged=lambda t, v: behs.append(v), collect_tags=False,
                      coverage=coverage, timeout=3000, java_opts=("-Xmx4g",))
    finally:
        os.unlink(cfg)
    return res, behs


def pick_sites(beh, rnd, tier):
    """quick: one seeded site per behaviour; thorough: one seeded site, plus (every other
    behaviour) one more in the other module when the target occurs in both"""
    sites = sorted(beh["sites"], key=lambda s: (s["mod"], s["idx"]))
    first = sites[rnd.randrange(len(sites))]
    chosen = [first]
    if tier == "thorough" and rnd.random() < 0.5:
        other = [s for s in sites if s["mod"] != first["mod"]]
        if other:
            chosen.append(other[rnd.randrange(len(other))])
    return chosen


def main(tier):
    timer = common.Timer()
    verdict = common.Verdict(PROP)
    res, behs = run_tlc(tier, ALL_FAMILIES, coverage=False)
    print("TLC PyClass:", res.summary())
    if not res.ok:
        if res.violated:
            verdict.machinery_failure("TLC: %s violated on the model: the spec's own refactoring is not "
                                      "behaviour-preserving\n%s" % (res.violated, res.trace[-1500:]))
        else:
            verdict.machinery_failure("TLC: %s\n%s" % (res.error, res.tail[-1500:]))
        return verdict.finish()
    if res.coverage:
        for a in ("AddA", "AddB", "Request"):
            if a in res.coverage and res.coverage[a][1] == 0:
                verdict.machinery_failure("action %s never taken" % a)

    # sensitivity of the model: the naive refactorings (no refusal of a clashing
    # field name, impure arguments duplicated, live temporaries dropped) must break ObsPreserved
    sens = {}
    if tier == "thorough":
        for fam in ("ltf", "uf"):
            r2, _ = run_tlc("quick", {fam}, guards=False, invariants=["ObsPreserved"], export=False, tag=fam)
            sens[fam] = r2.violated
            if r2.violated != "ObsPreserved":
                verdict.machinery_failure("model insensitive: naive %s satisfies ObsPreserved (%s)" % (fam, r2.error))
        # deeper model-only run: three snippets per program (not replayed).  Without the
        # Encapsulate family: its pool of 24 snippets gives ~350 k request states at this depth,
        # each carrying the refactored program - more than the 12 GB heap takes.
        r3, _ = run_tlc("thorough", ALL_FAMILIES - {"enc"}, export=False, bounds=(2, 2, 3), tag="deep")
        sens["deep_model_only"] = r3.summary()
        if not r3.ok:
            verdict.machinery_failure("TLC deep run: %s %s" % (r3.violated, r3.error))

    rnd = common.rng("c17")
    behs.sort(key=lambda b: json.dumps([b["fam"], b["variant"], b["imp"], b["sa"], b["sb"], b["req"]], sort_keys=True))
    total = len(behs)
    by_fam = {}
    for b in behs:
        by_fam.setdefault(b["fam"], []).append(b)
    if tier == "quick":
        chosen = []
        for fam, lst in sorted(by_fam.items()):
            featured = [b for b in lst if b["feats"]]
            plain = [b for b in lst if not b["feats"]]
            rnd.shuffle(featured)
            # stratified: every (class variant, request target) stratum of the family gets its share,
            # so that rare targets (a function nested in a method ...) are always in the sample
            strata = {}
            for b in plain:
                strata.setdefault((b["variant"], json.dumps(b["req"]["tgt"]), b["req"]["glob"]), []).append(b)
            for k in sorted(strata):
                rnd.shuffle(strata[k])
            picked = []
            while len(picked) < 220 and any(strata.values()):
                for k in sorted(strata):
                    if strata[k] and len(picked) < 220:
                        picked.append(strata[k].pop())
            chosen += picked + featured[:50]
    else:
        # everything, except that the Encapsulate family (3/4 of all behaviours) is thinned to a
        # seeded 30 % of its plain programs; featured ones are all kept
        chosen = []
        for b in behs:
            if b["fam"] != "enc" or b["feats"] or rnd.random() < 0.3:
                chosen.append(b)
    items = []
    seen_in_stratum = {}
    for b in chosen:
        # the four layouts in turn within every (family, variant, target) stratum
        sk = json.dumps([b["fam"], b["variant"], b["req"]["tgt"], b["req"]["glob"]])
        j = seen_in_stratum.get(sk, rnd.randrange(0, 4))
        seen_in_stratum[sk] = j + 1
        for s in pick_sites(b, rnd, tier):
            items.append((b, s, rnd.randrange(0, 8), j % 4))
    # group by program so that a worker's run cache is hit
    items.sort(key=lambda it: json.dumps([it[0]["fam"], it[0]["variant"], it[0]["imp"], it[0]["sa"], it[0]["sb"],
                                          it[3]]))
    counts = {"performed": 0, "refused": 0, "error": 0}
    per_fam = {}
    nontrivial = set()
    samples = []
    notes = {"undo_not_restoring": 0, "refusable_refused": 0, "refusable_performed": 0, "noop": 0}
    replayed = 0
    for r in replay.pool_map(run_behaviour, items, chunk=24):
        replayed += 1
        if "machinery" in r:
            verdict.machinery_failure(json.dumps({k: r[k] for k in r if k != "item"}, default=str)[:1500])
            continue
        scen, obs = r["scen"], r["obs"]
        counts[obs["outcome"]] += 1
        pf = per_fam.setdefault(scen["fam"], {"performed": 0, "refused": 0, "error": 0, "changed": 0})
        pf[obs["outcome"]] += 1
        if obs["outcome"] == "performed":
            if obs.get("changed"):
                pf["changed"] += 1
                nontrivial.add(common.digest([scen["fam"], scen["variant"], scen["imp"], scen["sa"], scen["sb"],
                                              scen["req"]]))
            else:
                notes["noop"] += 1
            if obs.get("changed") and obs.get("undo_restores") is not True:
                notes["undo_not_restoring"] += 1
        if r["spec"]["refusable"]:
            notes["refusable_refused" if obs["outcome"] == "refused" else "refusable_performed"] += 1
        if len(samples) < 5 and obs["outcome"] == "performed" and obs.get("changed") and not r["fails"] \
                and scen["fam"] not in {s["fam"] for s in samples}:
            samples.append({"fam": scen["fam"], "request": scen["req"], "site": scen["site"],
                            "a.py": r["files"]["a.py"], "b.py": r["files"]["b.py"],
                            "spec_output": r["spec"]["obs"], "after_rope": obs["after"]})
        if r["fails"]:
            key = key_of(r)
            verdict.failure(key, {"property": PROP, "key": key, "scenario": scen, "files": r["files"],
                                  "spec": r["spec"], "observed": obs})
    # vacuity: every family must have produced real changes
    for fam in sorted(by_fam):
        if per_fam.get(fam, {}).get("changed", 0) == 0:
            verdict.machinery_failure("vacuous: rope changed nothing in family %s" % fam)
    if not samples and behs:
        samples.append({"fam": behs[0]["fam"], "request": behs[0]["req"]})
    if notes["undo_not_restoring"]:
        print("NOTE undo after the refactoring did not restore the files in %d replays (C11's subject)"
              % notes["undo_not_restoring"])
    code = verdict.finish()
    common.write_evidence(PROP, tier, "exploration", {
        "evaluations": replayed,
        "distinct_nontrivial": len(nontrivial),
        "rule": "one evaluation = one (program, refactoring target) pair exported by TLC, requested from the real "
                "refactoring class at one site (token that denotes the target) and offset inside the token; "
                "non-trivial = rope performed the refactoring and changed at least one file",
        "samples": samples,
        "states": res.distinct, "transitions": res.generated,
        "behaviours_from_tlc": total,
        "exhaustive": False,
        "outcomes": counts,
        "per_family": per_fam,
        "notes": notes,
        "model_sensitivity": sens,
        "tlc": res.summary(),
        "tlc_invariants": INVARIANTS,
        "known_finding_hits": verdict.known_hits,
    }, timer.s(), violations=len(verdict.violations), assumptions=[
        "fragment: class C (fields f, g, method m), holder class D, global functions, straight-line client "
        "statements in the defining module and one importing module; no loops, no inheritance",
        "the model theorem is thin: the spec is mostly a generator of usage shapes with a predicted output; "
        "what TLC proves is that the refactorings as specified preserve that output",
        "sites are sampled per behaviour (one seeded site; thorough: for half of the behaviours a second one in "
        "the other module); thorough replays every behaviour of fac/mo/ltf/uf and every featured one, and a "
        "seeded 30 % of the plain Encapsulate behaviours",
        "new names (get_f/set_f, create, MO) are fresh by construction",
    ])
    return code


if __name__ == "__main__":
    sys.exit(main(sys.argv[1] if len(sys.argv) > 1 else "quick"))
