"""C20 - completion and definition lookup are sound at every cursor position.

TLC explores spec/PyAssist.tla: small modules written as line sequences over
module / function / class scopes with bindings and uses.  On the model it checks
VisibleIsResolvable, LaterLocalsOnlyHides, CutOnlyShrinks, DefLineBinds and
CompleteSound (exhaustively up to a line bound, and on simulated longer programs)
and prints for every program, per line, the names visible there for both
later_locals settings, the same with the line itself ignored, the attribute names
after a dot, and per identifier the lines where its binding is defined.

For every exported program chosen for replay the spec's sets are first compared
with CPython (symtable with a probe statement in every scope, ast binding lines,
executing module prefixes, vars() of classes; disagreement = exit 2).  Then, at
EVERY offset of the rendered text, rope's code_assist / starting_offset are called
on the full text and on the text with the current line truncated at the cursor
(the fixsyntax path), for later_locals in {True, False} and maxfixes in {1, 3};
get_definition_location / findit.find_definition are called at every offset of
every identifier.
"""
import ast
import builtins as py_builtins
import contextlib
import io
import json
import keyword
import os
import re
import symtable
import sys

from engine import common, tlc, replay

PROP = "C20"
INVARIANTS = ["TypeOK", "VisibleIsResolvable", "LaterLocalsOnlyHides", "CutOnlyShrinks", "MustWithinVisible",
              "DefLineBinds", "CompleteSound"]
NAMES = ["va", "vb", "w"]
BUILTINS = set(dir(py_builtins))
KEYWORDS = set(keyword.kwlist)
OBJECT_ATTRS = set(dir(type("K", (), {})))
IDENT_TAIL = re.compile(r"[A-Za-z0-9_]*$")


# ------------------------------------------------------------------ rendering
WIDTH = 4      # indentation width of the program being rendered (4, or 2 for the two-space style)


def render_line(l):
    """-> (text, column of n or None, column of u or None)"""
    ind = " " * (WIDTH * l["d"])
    k, n, u = l["k"], l["n"], l["u"]
    i = len(ind)
    if k == "bind":
        return "%s%s = 1" % (ind, n), i, None
    if k == "bindu":
        return "%s%s = %s" % (ind, n, u), i, i + len(n) + 3
    if k == "use":
        return "%sprint(%s)" % (ind, u), None, i + 6
    if k == "def":
        return "%sdef %s(%s):" % (ind, n, u), i + 4, (i + 4 + len(n) + 1) if u else None
    if k == "class":
        return "%sclass %s:" % (ind, n), i + 6, None
    if k == "attr":
        return "%sprint(%s.%s)" % (ind, n, u), i + 6, i + 6 + len(n) + 1
    if k == "ret":
        return "%sreturn %s" % (ind, u), None, i + 7
    if k == "pass":
        return "%spass" % ind, None, None
    if k == "imp":
        return "%sfrom h import %s" % (ind, n), i + 14, None
    if k == "kw":
        return "%s%s(%s=1)" % (ind, n, u), i, i + len(n) + 1
    if k == "try":
        return "%stry:" % ind, None, None
    if k == "fin":
        return "%sfinally: pass" % ind, None, None
    if k == "if":
        return "%sif 1:" % ind, None, None
    if k == "els":
        return "%selse:" % ind, None, None
    if k == "tup":
        return "%s%s, %s" % (ind, n, u), i, i + len(n) + 2
    raise ValueError(k)


def render(lines):
    texts, starts, cols = [], [], []
    off = 0
    for l in lines:
        t, cn, cu = render_line(l)
        texts.append(t)
        starts.append(off)
        cols.append({"n": cn, "u": cu})
        off += len(t) + 1
    return "\n".join(texts) + "\n", starts, cols


def helper_source(beh):
    """h.py: hoff filler lines, then one definition per name of horder (the spec's HLine)"""
    return "_p = 0\n" * beh["hoff"] + "".join("%s = 1\n" % nm for nm in beh["horder"])


def fake_helper(beh):
    import types
    m = types.ModuleType("h")
    exec(helper_source(beh), m.__dict__)
    return m


# ------------------------------------------------------------------ spec vs CPython
def cpython_crosscheck(beh, src):
    """Returns an error string if the spec's scope tables disagree with CPython."""
    lines, info = beh["lines"], beh["info"]
    n = len(lines)
    try:
        compile(src, "<c20>", "exec")
    except SyntaxError as e:
        return "rendered program does not compile: %s" % e
    # (1) symtable with a probe  (va, vb, w)  as first body line of every scope and at module end
    probe = "(" + ", ".join(NAMES) + ")"
    out, newline_of = [], {}
    for i, l in enumerate(lines, 1):
        out.append(render_line(l)[0])
        newline_of[i] = len(out)
        if l["k"] in ("def", "class"):
            out.append(" " * (WIDTH * (l["d"] + 1)) + probe)
    out.append(probe)
    top = symtable.symtable("\n".join(out) + "\n", "<c20p>", "exec")
    tables = {0: top}
    parent_of = {}

    def walk(t):
        for c in t.get_children():
            tables[("L", c.get_lineno())] = c
            parent_of[id(c)] = t
            walk(c)
    walk(top)

    def bound_here(t, name):
        try:
            s = t.lookup(name)
        except KeyError:
            return False
        return s.is_assigned() or s.is_parameter() or s.is_namespace() or s.is_imported()

    for sc in beh["scopes"]:
        s = sc["s"]
        t = top if s == 0 else tables.get(("L", newline_of[s]))
        if t is None:
            return "no symtable for scope opened on line %d" % s
        bound = {nm for nm in NAMES if bound_here(t, nm)}
        if bound != set(sc["bound"]):
            return "Bound(scope %d): spec %s, symtable %s" % (s, sorted(sc["bound"]), sorted(bound))
        vis = set()
        for nm in NAMES:
            sym = t.lookup(nm)
            if bound_here(t, nm):
                vis.add(nm)
            elif s != 0 and sym.is_free():
                vis.add(nm)
            elif s != 0 and sym.is_global() and bound_here(top, nm):
                vis.add(nm)
        for i in range(1, n + 1):
            if info[i - 1]["scope"] == s and set(info[i - 1]["visT"]) != vis:
                return "Visible(line %d, later): spec %s, symtable %s" % (i, sorted(info[i - 1]["visT"]), sorted(vis))
            if info[i - 1]["scope"] == s and set(info[i - 1]["mustT"]) != vis:
                return "Must(line %d, later): spec %s, symtable %s" % (i, sorted(info[i - 1]["mustT"]), sorted(vis))
        # names bound in enclosing non-class scopes (what a shadowed outer name could refer to)
        up = set()
        a = parent_of.get(id(t))
        while a is not None:
            if a.get_type() != "class":
                up |= {nm for nm in NAMES if bound_here(a, nm)}
            a = parent_of.get(id(a))
        sc["_up"] = up
    # (2) later_locals = False from the ast: first binding line per scope
    tree = ast.parse(src)
    first = {}     # scope line -> {name: first binding line}

    def bindings(node, sline):
        d = first.setdefault(sline, {})

        def add(name, ln):
            d[name] = min(d.get(name, ln), ln)
        if isinstance(node, ast.FunctionDef):
            for a in node.args.args:
                add(a.arg, node.lineno)

        def stmts(body):
            for st in body:
                if isinstance(st, ast.Try):          # a block, not a scope
                    yield from stmts(st.body)
                    yield from stmts(st.finalbody)
                elif isinstance(st, ast.If):
                    yield from stmts(st.body)
                    yield from stmts(st.orelse)
                else:
                    yield st
        for st in stmts(node.body):
            if isinstance(st, ast.Assign):
                for tg in st.targets:
                    if isinstance(tg, ast.Name):
                        add(tg.id, st.lineno)
            elif isinstance(st, ast.ImportFrom):
                for al in st.names:
                    add(al.asname or al.name, st.lineno)
            elif isinstance(st, (ast.FunctionDef, ast.ClassDef)):
                add(st.name, st.lineno)
                bindings(st, st.lineno)
    bindings(tree, 0)
    for i in range(1, n + 1):
        s = info[i - 1]["scope"]
        hidden = {nm for nm, ln in first.get(s, {}).items() if ln >= i}
        must = set(info[i - 1]["visT"]) - hidden
        if set(info[i - 1]["mustF"]) != must:
            return "Must(line %d, not later): spec %s, ast %s" % (i, sorted(info[i - 1]["mustF"]), sorted(must))
        up = [sc["_up"] for sc in beh["scopes"] if sc["s"] == s][0]
        may = must | (hidden & up)
        if set(info[i - 1]["visF"]) != may:
            return "Visible(line %d, not later): spec %s, ast/symtable %s" % (i, sorted(info[i - 1]["visF"]), sorted(may))
    # (3) definition lines of determined identifiers bind that name (ast)
    for idn in beh["idents"]:
        if not idn["det"]:
            continue
        if idn["imported"]:
            hl = helper_source(beh).split("\n")
            if [hl[b - 1] for b in idn["deflines"]] != ["%s = 1" % idn["name"]]:
                return "HLine of %s: spec %s, h.py %r" % (idn["name"], idn["deflines"], hl)
            continue
        for b in idn["deflines"]:
            lb = lines[b - 1]
            ok = (lb["k"] in ("bind", "bindu", "def", "class") and lb["n"] == idn["name"]) or \
                 (lb["k"] == "def" and lb["u"] == idn["name"])
            if not ok:
                return "DefLines of %s: line %d does not bind it" % (idn, b)
    # (4) run module prefixes: what is really bound before each module-level line
    text_lines = src.split("\n")
    for i in range(1, n + 1):
        if lines[i - 1]["d"] != 0:
            continue
        g = {}
        sys.modules["h"] = fake_helper(beh)
        try:
            with contextlib.redirect_stdout(io.StringIO()):
                exec(compile("\n".join(text_lines[:i - 1]) + "\n", "<c20x>", "exec"), g)
        except BaseException:
            break          # a later prefix contains this one
        finally:
            sys.modules.pop("h", None)
        dyn = {nm for nm in NAMES if nm in g}
        if dyn != set(info[i - 1]["visF"]) or dyn != set(info[i - 1]["mustF"]):
            return "module line %d: really bound %s, spec visF %s mustF %s" % (
                i, sorted(dyn), sorted(info[i - 1]["visF"]), sorted(info[i - 1]["mustF"]))
    else:
        # the whole module ran: class attribute sets of module-level classes
        g = {}
        sys.modules["h"] = fake_helper(beh)
        try:
            with contextlib.redirect_stdout(io.StringIO()):
                exec(compile(src, "<c20x>", "exec"), g)
            ran = True
        except BaseException:
            ran = False
        finally:
            sys.modules.pop("h", None)
        if ran:
            for i in range(1, n + 1):
                inf = info[i - 1]
                if lines[i - 1]["k"] == "attr" and inf["attrDet"] and inf["scope"] == 0:
                    obj = g.get(lines[i - 1]["n"])
                    if isinstance(obj, type):
                        real = {a for a in vars(obj) if not a.startswith("__")}
                        if real != set(inf["attrs"]):
                            return "attrs of class %s: spec %s, vars() %s" % (lines[i - 1]["n"], inf["attrs"], real)
    return None


# ------------------------------------------------------------------ rope at every offset
def check_program(item):
    beh, seed = item
    common.use_repo()
    from rope.base import project as project_mod, exceptions
    from rope.contrib import codeassist, findit, fixsyntax

    global WIDTH
    lines, info = beh["lines"], beh["info"]
    # every third program in the two-space style.  There only the valid text is queried: fixsyntax
    # repairs with a hard-wired indentation of 4 and the truncated-line oracle would judge that
    two_space = seed % 3 == 2
    WIDTH = 2 if two_space else 4
    src, starts, cols = render(lines)
    err = cpython_crosscheck(beh, src)
    if err:
        return {"machinery": "spec vs CPython: " + err, "src": src}
    pfx = {}
    for rec in beh["pfx"]:
        pfx.setdefault("".join(rec["pre"]), set()).add(rec["name"])
    n = len(lines)
    root = common.scratch("c20_")
    fails = []          # (key dict, detail)
    stats = {"calls": 0, "offsets": len(src) + 1, "trunc_invalid": 0, "trunc_unrepaired_header": 0,
             "sound_checks": 0, "complete_checks": 0, "complete_names": 0, "def_checks": 0,
             "def_not_first": 0, "dotted_checks": 0, "trytail_def_checks": 0}

    bound_of = {sc["s"]: set(sc["bound"]) for sc in beh["scopes"]}
    bindlines = {(sc["s"], b["n"]): sorted(b["at"]) for sc in beh["scopes"] for b in sc["binds"]}

    def rebound_later(li, names):
        """every one of names is bound in the line's own scope both before line li+1 and on/after it
        (rope keeps one definition line per name - the last def/class - so later_locals=False hides it)"""
        s = info[li]["scope"]
        return bool(names) and all(
            any(b < li + 1 for b in bindlines.get((s, nm), ())) and any(b >= li + 1 for b in bindlines.get((s, nm), ()))
            for nm in names)

    def next_kind(li):
        """what follows line li: eof | header | stmt (same depth) | dedent"""
        if li + 1 >= n:
            return "eof"
        nx = lines[li + 1]
        if nx["k"] in ("def", "class"):
            return "header"
        return "stmt" if nx["d"] >= lines[li]["d"] else "dedent"

    def imported_later(li, names):
        """every one of names is bound in the line's own scope only on or after line li+1, and (also) by a
        from h import  line (rope never treats an imported name as defined after the cursor)"""
        s = info[li]["scope"]
        return bool(names) and all(
            bindlines.get((s, nm)) and all(b >= li + 1 for b in bindlines[(s, nm)])
            and any(b > 0 and lines[b - 1]["k"] == "imp" for b in bindlines[(s, nm)]) for nm in names)

    def param_scope_line(k, name):
        """line k (0-based) lies inside a def whose parameter is name"""
        sc = info[k]["scope"]
        while sc:
            if lines[sc - 1]["k"] == "def" and lines[sc - 1]["u"] == name:
                return True
            sc = info[sc - 1]["scope"]
        return False

    def fail(clause, mode, later, mf, off, li, detail):
        l = lines[li] if li is not None and li < n else None
        key = {"clause": clause, "mode": mode, "linekind": l["k"] if l else "eof",
               "scopekind": beh_scope_kind(beh, info[li]["scope"]) if l else "module"}
        if mode in ("trunc", "trytail") and l:
            # shape of the truncated line: nothing but indentation left, or part of the statement
            key["cut"] = "blank" if src[starts[li]:off].strip() == "" else "partial"
            key["next"] = next_kind(li)
            key["nextline"] = lines[li + 1]["k"] if li + 1 < n else "eof"
            if key["cut"] == "blank":
                key["shape"] = ("blank-line-before-header" if key["next"] == "header" else
                                "blank-last-line-of-block" if key["next"] in ("eof", "dedent") and l["d"] > 0 else
                                "blank-line")
        key.update({k: v for k, v in detail.items() if k in ("exc", "what", "selfshadow", "adjacent")})
        fails.append({"key": key, "off": off, "later": later, "maxfixes": mf, "line": (li + 1) if l else None,
                      "detail": detail})

    hsrc = helper_source(beh)

    def check_definition(code, off, idn, want, want_first, mode, li, name_text_of):
        """get_definition_location / find_definition at offset off of code against the lines `want`
        (in h.py when the binding is an import)"""
        stats["calls"] += 2
        try:
            res, lineno = codeassist.get_definition_location(project, code, off)
            loc = findit.find_definition(project, code, off)
        except Exception as e:  # noqa
            fail("NoInternalError", mode, None, 1, off, li, {"exc": type(e).__name__, "msg": str(e)[:160], "code": code})
            return
        if not idn["det"]:
            return
        stats["def_checks"] += 1
        shadow = any(lines[b - 1]["k"] == "class" and lines[b - 1]["n"] == idn["name"]
                     and idn["name"] in bound_of.get(b, ()) for b in idn["deflines"]) if not idn["imported"] else False
        where = "h.py" if idn["imported"] else None
        got_where = res.path if res is not None else None
        if lineno not in want or got_where != where:
            fail("DefLine", mode, None, 1, off, li,
                 {"what": "get_definition_location", "selfshadow": shadow, "got": [got_where, lineno],
                  "want": [where, sorted(want)], "ident": idn, "code": code})
        elif lineno != want_first:
            stats["def_not_first"] += 1
        text = hsrc if idn["imported"] else code
        loc_where = (loc.resource.path if loc is not None and loc.resource is not None else None)
        if loc is None or loc.lineno not in want or loc_where != where or \
                text[loc.region[0]:loc.region[1]] != idn["name"] or \
                text.count("\n", 0, loc.offset) + 1 != loc.lineno:
            fail("DefLine", mode, None, 1, off, li,
                 {"what": "find_definition", "selfshadow": shadow,
                  "got": None if loc is None else [loc_where, loc.lineno, list(loc.region)],
                  "want": [where, sorted(want)], "ident": idn, "code": code})

    try:
        with open(os.path.join(root, "h.py"), "w") as f:
            f.write(hsrc)
        project = project_mod.Project(root, ropefolder=None)
        try:
            for off in range(len(src) + 1):
                li = src.count("\n", 0, off)          # 0-based line index; == n at the very end
                at_eof = li >= n
                line_start = starts[li] if not at_eof else len(src)
                col = off - line_start
                prefix = IDENT_TAIL.search(src[line_start:off]).group()
                pstart = off - len(prefix)
                weak_prefix = prefix[:1].isdigit()
                dotted = pstart > line_start and src[pstart - 1] == "."
                l = lines[li] if not at_eof else None
                inf = info[li] if not at_eof else None
                header = bool(inf and inf["header"])
                line_end = src.find("\n", off) if not at_eof else len(src)
                # positions at which a name can be typed: inside the indentation, at the start of the
                # statement, or inside / at either end of an identifier of the line.  Elsewhere (after
                # a closing parenthesis, after "name ", around "=") only the no-exception clause applies.
                strong = False
                if not at_eof and not header and not weak_prefix:
                    text = src[line_start:line_end]
                    strong = col <= WIDTH * l["d"] or any(m.start() <= col <= m.end()
                                                      for m in re.finditer(r"[A-Za-z_]\w*", text))
                for mode in ("full", "trunc", "trytail"):
                    if mode == "trytail":
                        # the last line of a try: body, incomplete, and no handler written yet
                        if at_eof or two_space or not inf["tryTail"] or col < WIDTH * l["d"]:
                            continue
                        fin_end = src.find("\n", line_end + 1)
                        code = src[:off] + src[fin_end:]
                        try:
                            compile(code, "<t>", "exec")
                            invalid = False
                        except SyntaxError:
                            invalid = True
                        settings = [(True, 1), (False, 1)]
                    elif mode == "trunc":
                        if at_eof or two_space or col < WIDTH * l["d"]:
                            continue
                        code = src[:off] + src[line_end:]
                        try:
                            compile(code, "<t>", "exec")
                            invalid = False
                        except SyntaxError:
                            invalid = True
                            stats["trunc_invalid"] += 1
                        settings = [(lt, mf) for lt in (True, False) for mf in (1, 3)]
                    else:
                        code = src
                        invalid = False
                        settings = [(True, 1), (False, 1)] + ([(True, 3)] if (off + seed) % 4 == 0 else [])
                    for later, mf in settings:
                        stats["calls"] += 1
                        try:
                            props = codeassist.code_assist(project, code, off, maxfixes=mf, later_locals=later)
                            so = codeassist.starting_offset(code, off)
                        except exceptions.ModuleSyntaxError as e:
                            if mode == "trunc" and invalid and inf["handler"] and col > WIDTH * l["d"]:
                                # the incomplete line is the handler line of a try: with the line ignored the
                                # try needs a synthetic handler, nothing else is wrong
                                fail("RepairPossible", mode, later, mf, off, li,
                                     {"what": "handler-line", "msg": str(e)[:160], "code": code})
                            elif mode == "trunc" and invalid and header:
                                stats["trunc_unrepaired_header"] += 1
                            elif mode == "trytail" and invalid:
                                # two things are missing (rest of the line, the handler): may need more fixes
                                stats["trytail_unrepaired"] = stats.get("trytail_unrepaired", 0) + 1
                            elif mode == "trunc" and invalid:
                                fail("RepairPossible", mode, later, mf, off, li, {"msg": str(e)[:160], "code": code})
                            else:
                                fail("NoInternalError", mode, later, mf, off, li,
                                     {"exc": "ModuleSyntaxError", "msg": str(e)[:160], "code": code})
                            continue
                        except Exception as e:  # noqa
                            import traceback
                            fail("NoInternalError", mode, later, mf, off, li,
                                 {"exc": type(e).__name__, "msg": str(e)[:160], "code": code,
                                  "trace": traceback.format_exc()[-900:]})
                            continue
                        names = [p.name for p in props]
                        if not strong or mode == "trytail":     # trytail: completion semantics are covered by trunc
                            continue
                        if so != pstart:
                            fail("StartingOffset", mode, later, mf, off, li, {"got": so, "want": pstart, "code": code})
                        bad = sorted(x for x in names if not x.startswith(prefix))
                        if bad:
                            fail("ExtendsPrefix", mode, later, mf, off, li, {"prefix": prefix, "names": bad[:6], "code": code})
                        got = set(names)
                        if dotted:
                            if l["k"] != "attr" or not inf["attrDet"]:
                                continue
                            stats["dotted_checks"] += 1
                            attrs = set(inf["attrs"])
                            extra = sorted(got - attrs - OBJECT_ATTRS)
                            if extra:
                                fail("Soundness", mode, later, mf, off, li,
                                     {"what": "attribute", "prefix": prefix, "extra": extra[:6], "code": code})
                            missing = sorted((attrs & pfx.get(prefix, set())) - got)
                            if missing:
                                fail("Completeness", mode, later, mf, off, li,
                                     {"what": "attribute", "prefix": prefix, "missing": missing, "code": code})
                            continue
                        vis = set(inf["visT" if later else "visF"])
                        stats["sound_checks"] += 1
                        # keyword-argument proposals (name=) are only meaningful inside the brackets of a call
                        in_call = "(" in src[line_start:off]
                        extra = sorted(x for x in got - vis - BUILTINS - KEYWORDS if not (x.endswith("=") and in_call))
                        if extra:
                            what = "name-imported-later" if (not later and imported_later(li, extra)) else "name"
                            fail("Soundness", mode, later, mf, off, li,
                                 {"what": what, "prefix": prefix, "extra": extra[:6], "visible": sorted(vis), "code": code})
                        must = set(inf[("mustT" if later else "mustF") if mode == "full" else ("cutT" if later else "cutF")])
                        must &= pfx.get(prefix, set())
                        stats["complete_checks"] += 1
                        stats["complete_names"] += len(must)
                        missing = sorted(must - got)
                        if missing:
                            what = "name-rebound-later" if (not later and rebound_later(li, missing)) else "name"
                            fail("Completeness", mode, later, mf, off, li,
                                 {"what": what, "prefix": prefix, "missing": missing, "got_user": sorted(got & set(NAMES)),
                                  "code": code})
            # ---- definition lookup at every offset of every identifier
            for idn in sorted(beh["idents"], key=lambda d: (d["line"], d["role"])):
                li = idn["line"] - 1
                c = cols[li][idn["role"]]
                start = starts[li] + c
                assert src[start:start + len(idn["name"])] == idn["name"], (src, idn)
                for off in range(start, start + len(idn["name"])):
                    check_definition(src, off, idn, set(idn["deflines"]), idn["defline"], "definition", li, None)
            # ---- the same below an unfinished try: block (last body line incomplete, no handler yet):
            # the repaired text has lines inserted above the identifier
            for ti in range(n):
                if two_space or not info[ti]["tryTail"]:
                    continue
                t_start, t_end = starts[ti], starts[ti] + len(src[starts[ti]:].split("\n", 1)[0])
                fin_end = src.find("\n", t_end + 1)
                body_col = WIDTH * lines[ti]["d"]
                for cut in sorted({t_end, t_start + body_col + max(1, (t_end - t_start - body_col) // 2)}):
                    code = src[:cut] + src[fin_end:]
                    removed = fin_end - cut
                    for idn in sorted(info[ti]["below"], key=lambda d: (d["line"], d["role"])):
                        li = idn["line"] - 1
                        nm = idn["name"]
                        # only keyword arguments whose name means nothing as an expression anywhere outside
                        # the functions that have it as parameter: rope must map the offset into the
                        # repaired text (FixSyntax.pyname_at -> transferred_offset)
                        if not idn["det"] or param_scope_line(li, nm) or any(
                                nm in info[k]["visT"] and not param_scope_line(k, nm) for k in range(n)):
                            continue
                        start = starts[li] + cols[li][idn["role"]] - removed
                        assert code[start:start + len(nm)] == nm, (code, idn)
                        want = {b if b <= ti + 1 else b - 1 for b in idn["deflines"]}
                        for off in range(start, start + len(nm)):
                            stats["calls"] += 1
                            stats["trytail_def_checks"] += 1
                            try:
                                res, lineno = codeassist.get_definition_location(project, code, off)
                            except exceptions.ModuleSyntaxError:
                                stats["trytail_unrepaired"] = stats.get("trytail_unrepaired", 0) + 1
                                continue
                            except Exception as e:  # noqa
                                fail("NoInternalError", "trytail-definition", None, 1, off, ti,
                                     {"exc": type(e).__name__, "msg": str(e)[:160], "code": code,
                                      "adjacent": li == ti + 2})     # the identifier's line directly follows the block
                                continue
                            # which binding was found: the word findit.find_definition points at, read in
                            # the text rope repaired (its offsets refer to that text)
                            try:
                                loc = findit.find_definition(project, code, off)
                                fixed = fixsyntax.FixSyntax(project, code, None, 1).get_pymodule().source_code
                                word = None if loc is None else fixed[loc.region[0]:loc.region[1]]
                            except exceptions.ModuleSyntaxError:
                                word = nm
                            except Exception as e:  # noqa
                                word = "raised " + type(e).__name__
                            if word != nm:
                                fail("DefLine", "trytail-definition", None, 1, off, ti,
                                     {"adjacent": li == ti + 2, "what": "find_definition-word", "got": word,
                                      "want": nm, "ident": idn, "code": code})
                            if res is None and lineno in want:
                                continue
                            # rope answers with the line number of the REPAIRED text: two lines (finally: / pass)
                            # were inserted above every line below the try block
                            shifted = res is None and lineno is not None and (lineno - 2) in want and lineno - 2 > ti + 1
                            fail("DefLine", "trytail-definition", None, 1, off, ti,
                                 {"adjacent": li == ti + 2,
                                  "what": "line-of-repaired-text" if shifted else "get_definition_location",
                                  "got": [res.path if res is not None else None, lineno], "want": sorted(want),
                                  "ident": idn, "code": code})
        finally:
            project.close()
    finally:
        common.rmtree(root)
    return {"fails": fails, "stats": stats, "src": src, "lines": lines}


def beh_scope_kind(beh, s):
    for sc in beh["scopes"]:
        if sc["s"] == s:
            return sc["kind"]
    return "?"


# ------------------------------------------------------------------ main
def run_tlc(max_lines, max_depth, simulate=None, export=False, seed=None, depth=None, tag="", max_export=None,
            kinds="MCAllKinds", preludes="MCNoPrelude", hoffsets=(1, 4)):
    cfg = os.path.join(common.SCRATCH_BASE, "c20_%d%s.cfg" % (os.getpid(), tag))
    tlc.write_cfg(cfg, constants={"Names": tlc.Sub("MCNames"), "Chars": tlc.Sub("MCChars"),
                                  "MaxLines": max_lines, "MaxDepth": max_depth,
                                  "HOrder": tlc.Sub("MCHOrder"), "HOffsets": set(hoffsets), "Kinds": tlc.Sub(kinds),
                                  "Preludes": tlc.Sub(preludes)},
                  invariants=INVARIANTS + (["Export"] if export else []))
    behs = []
    try:
        res = tlc.run("MC_PyAssist", cfg, simulate=simulate, depth=depth, seed=seed,
                      on_tagged=lambda t, v: behs.append(v), collect_tags=False, timeout=3000,
                      java_opts=("-Xmx4g",))
    finally:
        os.unlink(cfg)
    return res, behs


def interesting(b):
    """programs worth the per-offset replay: some nesting or several lines"""
    ls = b["lines"]
    return len(ls) >= 3


def main(tier):
    timer = common.Timer()
    verdict = common.Verdict(PROP)
    quick = tier == "quick"
    # exhaustive model checking of the invariants (with export: these programs are replayed too)
    res1, behs1 = run_tlc(2 if quick else 3, 2, export=True, tag="x", hoffsets=(1, 4) if quick else (1,))
    print("TLC PyAssist exhaustive:", res1.summary())
    # simulated longer programs
    res2, behs2 = run_tlc(9, 3, simulate={"num": 20 if quick else 80}, depth=10, export=True,
                          seed=common.SEED + 1, tag="s")
    print("TLC PyAssist simulation:", res2.summary())
    # focus: imports competing with other bindings (simulated), and - exhaustively - what can follow a
    # function with a parameter and a try: block that is still open (unfinished try: blocks, keyword calls)
    res3, behs3 = run_tlc(9, 3, simulate={"num": 8 if quick else 40}, depth=10, export=True,
                          seed=common.SEED + 2, tag="i", kinds="MCImpKinds")
    print("TLC PyAssist simulation (imports):", res3.summary())
    res4, behs4 = run_tlc(7, 2, export=True, tag="t", kinds="MCTryFocusKinds", preludes="MCTryPreludes",
                          hoffsets=(1,))
    print("TLC PyAssist exhaustive (open try blocks):", res4.summary())
    res5, behs5 = run_tlc(6, 3, export=True, tag="f", kinds="MCIfFocusKinds", preludes="MCIfPreludes",
                          hoffsets=(1,))
    print("TLC PyAssist exhaustive (if/else last in a function):", res5.summary())
    res6, behs6 = run_tlc(5, 1, export=True, tag="u", kinds="MCTupFocusKinds", preludes="MCTupPreludes",
                          hoffsets=(1,))
    print("TLC PyAssist exhaustive (names without brackets after a callable):", res6.summary())
    for r in (res1, res2, res3, res4, res5, res6):
        if not r.ok:
            verdict.machinery_failure("TLC: %s %s\n%s" % (r.violated, r.error, (r.trace or r.tail)[-1500:]))
    if verdict.machinery:
        return verdict.finish()
    rnd = common.rng("c20")
    seen = set()

    def uniq(bs):
        out = []
        for b in bs:
            k = json.dumps([b["lines"], b["hoff"]], sort_keys=True)
            if k not in seen:
                seen.add(k)
                out.append(b)
        return out
    small = uniq(behs1)
    big = [b for b in uniq(behs2) if len(b["lines"]) >= 4]
    imps = [b for b in uniq(behs3) if len(b["lines"]) >= 4 and any(l["k"] == "imp" for l in b["lines"])]
    tries = [b for b in uniq(behs4) if any(i["below"] for i in b["info"])]
    nested = [b for b in behs4 if sum(l["k"] == "try" for l in b["lines"]) >= 2 and not any(i["below"] for i in b["info"])]
    ifs = [b for b in uniq(behs5) if any(l["k"] == "els" for l in b["lines"])]
    tups = [b for b in uniq(behs6) if any(l["k"] == "tup" for l in b["lines"])]
    for lst in (imps, tries, nested, ifs, tups):
        lst.sort(key=lambda b: json.dumps([b["lines"], b["hoff"]], sort_keys=True))
        rnd.shuffle(lst)
    small.sort(key=lambda b: json.dumps([b["lines"], b["hoff"]], sort_keys=True))
    big.sort(key=lambda b: json.dumps([b["lines"], b["hoff"]], sort_keys=True))
    rnd.shuffle(small)
    rnd.shuffle(big)
    # prefer programs with nesting
    nestd = [b for b in small if any(l["d"] > 0 for l in b["lines"])]
    flat = [b for b in small if not any(l["d"] > 0 for l in b["lines"])]
    if quick:
        chosen = nestd[:110] + flat[:30] + big[:160] + imps[:50] + tries[:60] + nested[:30] + ifs[:60] + tups[:40]
    else:
        chosen = nestd[:1600] + flat[:200] + big[:2000] + imps[:600] + tries[:800] + nested[:300] + ifs[:600] + tups[:200]
    items = [(b, k) for k, b in enumerate(chosen)]
    totals = {}
    replayed = 0
    nontrivial = 0
    samples = []
    for r in replay.pool_map(check_program, items, chunk=4):
        replayed += 1
        if "machinery" in r:
            verdict.machinery_failure(json.dumps({k: r[k] for k in r if k != "item"}, default=str)[:1200])
            continue
        for k, v in r["stats"].items():
            totals[k] = totals.get(k, 0) + v
        if r["stats"]["complete_names"] > 0:
            nontrivial += 1
        if len(samples) < 3 and len(r["lines"]) >= 5 and not r["fails"]:
            samples.append({"program": r["src"], "offsets": r["stats"]["offsets"], "calls": r["stats"]["calls"],
                            "names_required_by_completeness": r["stats"]["complete_names"]})
        for f in r["fails"]:
            verdict.failure(f["key"], {"property": PROP, "key": f["key"], "program": r["src"], "lines": r["lines"],
                                       "offset": f["off"], "later_locals": f["later"], "maxfixes": f["maxfixes"],
                                       "line": f["line"], "detail": f["detail"]})
    if replayed and totals.get("complete_names", 0) == 0:
        verdict.machinery_failure("vacuous: completeness never required a name")
    if replayed and totals.get("def_checks", 0) == 0:
        verdict.machinery_failure("vacuous: no definition lookup was checked")
    if not samples and chosen:
        samples.append({"program": render(chosen[0]["lines"])[0]})
    code = verdict.finish()
    common.write_evidence(PROP, tier, "model_checking", {
        "states": res1.distinct + res2.generated + res3.generated + res4.distinct + res5.distinct + res6.distinct,
        "transitions": res1.generated + res2.generated + res3.generated + res4.generated,
        "traces_validated_against_impl": replayed,
        "samples": samples,
        "distinct_nontrivial": nontrivial,
        "rule": "one replay = one program exported by TLC, rope queried at every offset (full text and current line "
                "truncated, later_locals x maxfixes) and at every identifier for its definition; non-trivial = "
                "completeness required at least one user-defined name at some offset",
        "exhaustive": False,
        "tlc_exhaustive": res1.summary(), "tlc_simulation": res2.summary(),
        "tlc_simulation_imports": res3.summary(), "tlc_exhaustive_open_try": res4.summary(),
        "tlc_exhaustive_if_else": res5.summary(),
        "programs_exported": {"exhaustive": len(behs1), "simulated": len(behs2), "simulated_imports": len(behs3),
                              "open_try": len(behs4)},
        "totals": totals,
        "known_finding_hits": verdict.known_hits,
    }, timer.s(), violations=len(verdict.violations), assumptions=[
        "fragment: assignments, def with at most one parameter, class, print(name), print(name.attr), return; "
        "no global/nonlocal, imports, comprehensions, lambdas",
        "on def/class header lines and at the end of the file only the no-exception, starting_offset and "
        "prefix-extension clauses are checked (which scope a header position belongs to is a matter of taste)",
        "truncated lines: soundness against the untruncated program, completeness for names bound on other lines "
        "(justified by the spec invariant CutOnlyShrinks); cursor positions inside the indentation are only "
        "checked on the full text",
        "go-to-definition may lead to any line that binds the name in the resolved scope (rope prefers def/class "
        "over assignments); how often it is not the first one is reported",
    ])
    return code


if __name__ == "__main__":
    sys.exit(main(sys.argv[1] if len(sys.argv) > 1 else "quick"))
