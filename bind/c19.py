"""C19 - pattern matching and restructuring rewrite exactly the real instances.

TLC explores spec/PyMatch.tla: every small module (built statement by
statement), every pattern obtained from the module itself by abstracting <= 2
sub-expressions of an expression / a run of statements into wildcards, a
layout variant, and - as derived values - the set of instances, the instances
inside every region, and the module after replacing every instance by each of
a dozen goals.  TLC checks the matching invariants on the model and prints one
behaviour per (module, pattern, layout).  Every behaviour is replayed on rope:

  SimilarFinder(pymodule).get_matches(pattern, args[, start, end])
  Restructure(project, pattern, goal, args).get_changes()
  restructure.replace(code, pattern, goal)

and judged at syntax-tree level against the spec's expectation; CPython (ast)
referees the spec's own token sequences first.
"""
import ast
import json
import os
import sys

from engine import common, tlc, replay
from bind import _pytree as pt

PROP = "C19"

INVARIANTS = ["TypeOK", "MatchesDerived", "InstanceExists", "SubstMatches", "MatcherAgrees",
              "IdentityGoal", "RewriteLocal", "MechAgrees", "RewriteIsASelection"]


BASE = {
    "Names": {"a", "b"}, "Nums": {"1"}, "Strs": set(),
    "BinOps": {"+", "*"}, "UnOps": {"-"}, "BoolOps": {"and"}, "CmpOps": {"<"},
    "Kinds": {"BinOp", "UnaryOp", "Call", "Attribute"},
    "MaxExprSize": 3, "InnerExprSize": 1,
    "StmtKindsOn": {"Expr", "Assign"},
    "MaxStmts": 1, "MaxModSize": 6, "MaxWild": 2,
    "DecoKinds": {"none"}, "FocusKinds": {"expr", "stmts"}, "Sim": False,
}
ALL_KINDS = {"BinOp", "UnaryOp", "Call", "Attribute", "Compare", "BoolOp", "Subscript", "Tuple", "IfExp",
             "Lambda", "Kw"}
ALL_DECO = {"focus", "focusbr", "bound", "boundbr"}
SIM = {"Kinds": {"BinOp", "UnaryOp", "Call", "Attribute", "Compare", "Subscript"}, "MaxExprSize": 4,
       "InnerExprSize": 2, "MaxStmts": 3, "MaxModSize": 30, "Sim": True,
       "StmtKindsOn": {"Expr", "Assign", "If", "IfElse", "Elif", "ElifElse", "While", "While2", "IfIf", "Def"},
       "DecoKinds": {"none"} | ALL_DECO}

# (name, overrides of BASE, number of random behaviours | None = exhaustive)
VARIANTS = {
    "quick": [
        # one statement, every expression of <= 3 nodes, <= 2 wildcards
        ("expr", {}, None),
        # two statements with if/elif/else nesting, statement patterns
        ("stmts", {"Names": {"a"}, "Kinds": set(), "MaxExprSize": 1, "MaxStmts": 2, "MaxModSize": 13, "MaxWild": 1,
                   "FocusKinds": {"stmts"}, "StmtKindsOn": {"Expr", "Assign", "If", "Elif", "IfIf"}}, None),
        # the other expression kinds
        ("kinds", {"Names": {"a"}, "Kinds": ALL_KINDS, "BinOps": {"+", "**"}, "UnOps": {"-", "not"}, "MaxWild": 1,
                   "StmtKindsOn": {"Assign"}, "MaxModSize": 7}, None),
        # nodes of one class that differ in which optional part is present: a[x:] a[:x] a[::x] a[x:y],
        # lambda *a / lambda **a; two statements, so that the complementary form is around
        ("optional", {"Names": {"a"}, "Nums": set(), "Kinds": {"Slice", "LambdaStar"}, "MaxStmts": 2, "MaxModSize": 14,
                      "MaxWild": 1, "StmtKindsOn": {"Expr"}, "FocusKinds": {"expr"}}, None),
        # numeric literals of equal value and different type (1 / 1.0) next to each other
        ("numtypes", {"Names": set(), "Nums": {"1", "1.0"}, "Kinds": {"BinOp"}, "BinOps": {"+"}, "MaxStmts": 2,
                      "MaxModSize": 10, "MaxWild": 2, "StmtKindsOn": {"Expr"}, "FocusKinds": {"expr"}}, None),
        # runs of up to four statements in which sliding windows of a two-statement pattern overlap
        ("runs", {"Names": {"a"}, "Kinds": set(), "MaxExprSize": 1, "MaxStmts": 4, "MaxModSize": 20, "MaxWild": 1,
                  "FocusKinds": {"stmts"}, "StmtKindsOn": {"Assign"}}, None),
        # redundant parentheses and line breaks around the instance / the bound code
        ("deco", {"Kinds": {"BinOp", "Call"}, "MaxWild": 1, "DecoKinds": ALL_DECO}, None),
    ],
    "thorough": [
        ("expr4", {"MaxExprSize": 4, "MaxModSize": 7}, None),
        ("expr2", {"Kinds": {"BinOp"}, "MaxStmts": 2, "MaxModSize": 10, "MaxWild": 1,
                   "FocusKinds": {"expr"}}, None),
        ("stmts", {"Names": {"a"}, "Kinds": set(), "MaxExprSize": 1, "MaxStmts": 2, "MaxModSize": 14, "MaxWild": 1,
                   "FocusKinds": {"stmts"},
                   "StmtKindsOn": {"Expr", "Assign", "If", "IfElse", "Elif", "ElifElse", "While", "While2", "IfIf",
                                   "Def"}}, None),
        ("kinds", {"Names": {"a"}, "Kinds": ALL_KINDS, "BinOps": {"+", "**"}, "UnOps": {"-", "not"}, "MaxWild": 2,
                   "StmtKindsOn": {"Expr", "Assign"}, "MaxModSize": 7}, None),
        ("deco", {"Kinds": {"BinOp", "Call", "UnaryOp", "Attribute"}, "MaxWild": 2, "DecoKinds": ALL_DECO}, None),
        ("optional", {"Names": {"a"}, "Kinds": {"Slice", "LambdaStar"}, "MaxStmts": 2, "MaxModSize": 14,
                      "MaxWild": 1, "StmtKindsOn": {"Expr"}, "FocusKinds": {"expr"}}, None),
        ("runs", {"Names": {"a"}, "Kinds": set(), "MaxExprSize": 1, "MaxStmts": 4, "MaxModSize": 20, "MaxWild": 2,
                  "FocusKinds": {"stmts"}, "StmtKindsOn": {"Assign", "Expr"}}, None),
        ("numtypes", {"Names": {"a"}, "Nums": {"1", "1.0"}, "Kinds": {"BinOp"}, "BinOps": {"+"}, "MaxStmts": 2,
                      "MaxModSize": 10, "MaxWild": 2, "StmtKindsOn": {"Expr"}, "FocusKinds": {"expr"}}, None),
    ] + [("sim%d" % k, SIM, 4000) for k in range(6)],
}


def constants(tier, variant):
    base = dict(BASE)
    base.update(variant)
    return base


# ------------------------------------------------------------------ worker state
_W = {}


def _project():
    """One scratch project per worker process (under the run's scratch root)."""
    if "project" not in _W:
        common.use_repo()
        from rope.base import project as project_mod
        root = os.path.join(_W_ROOT[0], "w%d" % os.getpid())
        os.makedirs(root, exist_ok=True)
        _W["project"] = project_mod.Project(root, ropefolder=None)
        _W["file"] = _W["project"].root.create_file("m.py")
    return _W["project"], _W["file"]


_W_ROOT = [None]


# ------------------------------------------------------------------ replay of one behaviour
def spec_checks(beh):
    """CPython referees the spec: the rendered texts parse back to the spec's trees."""
    src, _ = pt.render(beh["src"])
    src += "\n"
    problems = []
    try:
        mod_tree = pt.parse_tree(src)
    except SyntaxError as e:
        return None, ["module text does not parse: %r (%s)" % (src, e)]
    if pt.strip(mod_tree) != beh["mod"]:
        problems.append("module text %r parses to a different tree" % src)
    pat_text, _ = pt.render(beh["patsrc"])
    try:
        if pt.strip(pt.parse_pattern_tree(pat_text)) != beh["pat"]:
            problems.append("pattern text %r parses to a different tree" % pat_text)
    except SyntaxError as e:
        problems.append("pattern text %r does not parse (%s)" % (pat_text, e))
    goals = []
    for g in sorted(beh["goals"], key=lambda g: g["id"]):
        gtext, _ = pt.render(g["toks"])
        try:
            if pt.strip(pt.parse_pattern_tree(gtext, beh["stmtpat"])) != g["g"]:
                problems.append("goal text %r parses to a different tree" % gtext)
        except SyntaxError as e:
            problems.append("goal text %r does not parse (%s)" % (gtext, e))
        goals.append((g, gtext))
    return {"src": src, "tree": mod_tree, "pattern": pat_text, "goals": goals}, problems


def match_spans(offs, mod_tree, m):
    """CPython extent of spec match m = {bp, i, n}."""
    if m["n"] == 0:
        return pt.tree_span(offs, pt.at(mod_tree, m["bp"]))
    blk = pt.at(mod_tree, m["bp"])
    a = pt.tree_span(offs, blk["c"][m["i"] - 1])
    b = pt.tree_span(offs, blk["c"][m["i"] + m["n"] - 2])
    return (a[0], b[1])


def paren_edge(src, region, span, mod_tree, m):
    """Does rope's region differ from the instance's extent only by the parentheses around
    the expression of a first / last expression statement?  (C08: the region of an
    expression statement leaves them out.)"""
    if m["n"] == 0 or region == span:
        return False
    if not (span[0] <= region[0] <= region[1] <= span[1]):
        return False
    head, tail = src[span[0]:region[0]], src[region[1]:span[1]]
    if head.strip(" \t\n(") or tail.strip(" \t\n)"):
        return False
    blk = pt.at(mod_tree, m["bp"])
    first = blk["c"][m["i"] - 1]
    last = blk["c"][m["i"] + m["n"] - 2]
    if head and first["k"] != "Expr":
        return False
    if tail and last["k"] != "Expr":
        return False
    if m["n"] == 1 and head.count("(") != tail.count(")"):
        return False
    return head.count("(") + tail.count(")") > 0


def norm_dump(text):
    try:
        return ast.dump(ast.parse(text))
    except SyntaxError:
        return None


def outside_preserved(src, spans, result):
    """Is result = src with only the given (sorted, disjoint) spans rewritten?"""
    gaps = []
    pos = 0
    for s, e in spans:
        gaps.append(src[pos:s])
        pos = e
    gaps.append(src[pos:])
    if len(gaps) == 1:
        return result == src
    if not result.startswith(gaps[0]):
        return False
    at = len(gaps[0])
    for g in gaps[1:-1]:
        k = result.find(g, at)
        if k < 0:
            return False
        at = k + len(g)
    return result.endswith(gaps[-1]) and len(result) - len(gaps[-1]) >= at


def verbatim_substitution(src, offs, mod_tree, beh, goal_text, order, override=None):
    """Text obtained by pasting the bound source text into the goal text with no
    parentheses added (continuation lines indented like the instance's line) -
    only used to *classify* a failure, never as the oracle.  override: expected
    span -> the region rope reported for that instance."""
    import re
    override = override or {}
    pat = beh["pat"]
    matches = {(tuple(m["bp"]), m["i"]): m for m in beh["matches"]}

    def first_occ(t, path, acc):
        if t["k"] == "Wild":
            acc.setdefault(t["v"], path)
        for j, c in enumerate(t["c"], 1):
            first_occ(c, path + [j], acc)
        return acc

    occ = first_occ(pat, [], {})

    def abs_path(m, q):
        if m["n"] == 0:
            return list(m["bp"]) + q
        return list(m["bp"]) + [m["i"] + q[0] - 1] + q[1:]

    def text_of(path, top):
        """source text of node at path with inner matches replaced"""
        node = pt.at(mod_tree, path)
        s, e = pt.tree_span(offs, node)
        key = (tuple(path), 0)
        if key in matches and not top and not beh["stmtpat"]:
            return replaced(matches[key])
        return splice(path, s, e)

    def splice(path, s, e):
        node = pt.at(mod_tree, path)
        parts = []
        pos = s
        for j, c in enumerate(node["c"], 1):
            sp = pt.tree_span(offs, c)
            if sp is None:
                continue
            parts.append(src[pos:sp[0]])
            parts.append(text_of(path + [j], False))
            pos = sp[1]
        parts.append(src[pos:e])
        return "".join(parts)

    def replaced(m):
        bind = {}
        for w, q in occ.items():
            p = abs_path(m, q)
            if p == list(m["bp"]) and m["n"] == 0:
                s, e = pt.tree_span(offs, pt.at(mod_tree, p))
                bind[w] = splice(p, s, e)
            else:
                bind[w] = text_of(p, False)
        return re.sub(r"\$\{([^}]*)\}", lambda mm: bind[mm.group(1)], goal_text)

    out = []
    pos = 0
    for m in order:
        s, e = match_spans(offs, mod_tree, m)
        s, e = override.get((s, e), (s, e))
        if s < pos:
            continue
        out.append(src[pos:s])
        text = replaced(m)
        line_start = src.rfind("\n", 0, s) + 1
        indent = len(src[line_start:s]) - len(src[line_start:s].lstrip(" ")) if beh["stmtpat"] else \
            len(src[line_start:]) - len(src[line_start:].lstrip(" "))
        lines = text.split("\n")
        text = "\n".join([lines[0]] + [(" " * indent + ln if ln.strip() else ln) for ln in lines[1:]])
        out.append(text)
        pos = e
    out.append(src[pos:])
    return "".join(out)


def run_behaviour(beh):
    try:
        return pt.with_timeout(20, _run_behaviour, beh)
    except pt.Hang:
        src = pt.render(beh["src"])[0]
        return {"fails": [{"clause": "Hang"}], "stats": {"matches": 0, "regions": 0, "goals": 0, "changed": 0,
                                                          "refused": 0, "unjudged": 0},
                "src": src, "pattern": pt.render(beh["patsrc"])[0], "args": {}, "beh_digest": ""}


def _run_behaviour(beh):
    common.use_repo()
    from rope.base import exceptions
    from rope.refactor import restructure, similarfinder

    info, problems = spec_checks(beh)
    if problems:
        return {"machinery": "spec vs CPython: " + "; ".join(problems[:3])}
    src, mod_tree, pattern = info["src"], info["tree"], info["pattern"]
    offs = pt.Offsets(src)
    args = {w: "exact" for w in beh["exact"]}
    project, res = _project()
    res.write(src)
    fails = []
    stats = {"matches": len(beh["matches"]), "regions": 0, "goals": 0, "changed": 0, "refused": 0,
             "unjudged": 0}

    def fail(clause, **kw):
        d = {"clause": clause}
        d.update(kw)
        fails.append(d)

    expected = {}
    for m in beh["matches"]:
        expected[match_spans(offs, mod_tree, m)] = m

    # ---- matching: sound and complete, bindings
    try:
        pymodule = project.get_pymodule(res)
        finder = similarfinder.SimilarFinder(pymodule)
        found = list(finder.get_matches(pattern, args))
    except exceptions.RopeError as e:
        found = None
        fail("MatchRefused", exc=type(e).__name__)
    except Exception as e:  # noqa
        found = None
        fail("MatchCrash", exc=type(e).__name__, msg=str(e)[:120])
    override = {}
    if found is not None:
        got = {}
        for fm in found:
            reg = tuple(fm.get_region())
            for sp, m in expected.items():
                if paren_edge(src, reg, sp, mod_tree, m):
                    override[sp] = reg
                    fail("MatchRegion", cause="expr-statement-parentheses", region=list(reg), instance=list(sp))
                    reg = sp
                    break
            got[reg] = fm
        for sp in sorted(set(got) - set(expected)):
            fail("MatchSound", region=list(sp), text=src[sp[0]:sp[1]])
        for sp in sorted(set(expected) - set(got)):
            fail("MatchComplete", region=list(sp), text=src[sp[0]:sp[1]])
        for sp in sorted(set(got) & set(expected)):
            for w, tree in expected[sp]["sg"]:
                node = got[sp].get_ast(w)
                if node is None or pt.strip(pt.to_tree(node)) != tree:
                    fail("Binding", wildcard=w, region=list(sp))
        # ---- regions
        for r in beh["regions"]:
            rspan = pt.tree_span(offs, pt.at(mod_tree, r["r"]))
            want = sorted(match_spans(offs, mod_tree, m2) for m2 in
                          [dict(bp=x["bp"], i=x["i"], n=(0 if x["i"] == 0 else beh["focus"]["n"])) for x in r["ms"]])
            back = {v: k for k, v in override.items()}
            try:
                have = sorted(back.get(tuple(x.get_region()), tuple(x.get_region())) for x in
                              finder.get_matches(pattern, args, start=rspan[0], end=rspan[1]))
            except Exception as e:  # noqa
                fail("RegionCrash", exc=type(e).__name__)
                continue
            stats["regions"] += 1
            if have != want:
                # an instance whose reported region lost a leading parenthesis may fall in / out of the region
                lost = [sp for sp in override if (sp in want) != (sp in have)]
                if lost and sorted(set(have) ^ set(want)) == sorted(lost):
                    fail("Region", cause="expr-statement-parentheses", region=list(rspan))
                else:
                    fail("Region", region=list(rspan), want=want, have=have)

    # ---- restructuring
    def outer_first(m):
        a, b = match_spans(offs, mod_tree, m)
        return (a, -b)

    order = sorted(beh["matches"], key=outer_first)
    outer = []
    for m in order:
        sp = match_spans(offs, mod_tree, m)
        if outer and sp[0] < outer[-1][1]:
            continue
        outer.append(sp)
    src_dump = norm_dump(src)
    fresh = {}
    for g, gtext in info["goals"]:
        if not g["legal"]:
            stats["unjudged"] += 1
            continue
        apis = ["Restructure"] + (["replace"] if not beh["exact"] else [])
        for api in apis:
            stats["goals"] += 1
            try:
                if api == "Restructure":
                    changes = restructure.Restructure(project, pattern, gtext, args).get_changes()
                    result = src
                    for c in changes.changes:
                        result = c.new_contents
                else:
                    result = restructure.replace(src, pattern, gtext)
            except exceptions.RopeError:
                stats["refused"] += 1
                continue
            except Exception as e:  # noqa
                fail("RestructureCrash", api=api, goal=g["id"], exc=type(e).__name__, msg=str(e)[:120])
                continue
            if result != src:
                stats["changed"] += 1
            if api == "Restructure":
                fresh[g["id"]] = (gtext, result)
            try:
                rtree = pt.strip(pt.parse_tree(result))
            except SyntaxError:
                rtree = None
            ok = rtree == g["res"]
            if beh["ambiguous"]:
                stats["ambiguous_agree" if ok else "ambiguous_differ"] = \
                    stats.get("ambiguous_agree" if ok else "ambiguous_differ", 0) + 1
            if not ok and beh["ambiguous"] and beh["stmtpat"] and rtree is not None and rtree in g["alts"]:
                stats["ambiguous_other_selection"] = stats.get("ambiguous_other_selection", 0) + 1
                continue                   # another maximal set of disjoint instances was replaced
            if not ok and beh["ambiguous"] and not beh["stmtpat"] and rtree is not None:
                stats["unjudged"] += 1     # overlapping expression instances: no order is prescribed
                continue
            if ok:
                if g["id"] == "same" and norm_dump(result) != src_dump:
                    fail("Identity", api=api)
                if not outside_preserved(src, outer, result):
                    fail("OutsideText", api=api, goal=g["id"], result=result)
                continue
            # classify the deviation (the key of a finding must name its cause): the result is
            # explained when it is what pasting the bound text verbatim gives - for all instances
            # (expression patterns) or for the instances the spec's model of rope's statement
            # mechanism applies - and the spec's flags say why that differs from Rewrite
            causes = set()
            if beh["stmtpat"] and rtree is not None and rtree == g["mech"] and (beh["orderskip"] or beh["elifhit"]):
                causes |= {n for n, on in (("instance-skipped-by-visiting-order", beh["orderskip"]),
                                           ("elif-arm-detached", beh["elifhit"])) if on}
            elif result == src and g["res"] != beh["mod"] and not beh["stmtpat"]:
                causes.add("not-replaced-at-all")
            else:
                acc = {(tuple(x["bp"]), x["i"]) for x in beh["accepted"]}
                mech_order = [m for m in order if (tuple(m["bp"]), m["i"]) in acc] if beh["stmtpat"] else order
                rd = norm_dump(result)
                for use_override in ((False, True) if override else (False,)):
                    vt = verbatim_substitution(src, offs, mod_tree, beh, gtext, mech_order,
                                               override if use_override else None)
                    if result == vt or (rd is not None and rd == norm_dump(vt)):
                        if beh["stmtpat"] and beh["orderskip"]:
                            causes.add("instance-skipped-by-visiting-order")
                        if beh["stmtpat"] and beh["elifhit"]:
                            causes.add("elif-arm-detached")
                        if g["bpar"] or g["gpar"]:
                            causes.add("pasted-without-parentheses")
                        if beh["mlb"]:
                            causes.add("multiline-binding-pasted-without-its-parentheses")
                        if use_override:
                            causes.add("expr-statement-parentheses")
                        break
            for cause in sorted(causes) or ["other"]:
                fail("Meaning" if rtree is not None else "Parses", api=api, goal=g["id"], cause=cause,
                     stmtpat=beh["stmtpat"], result=result,
                     bpar=sorted(map(tuple, g["bpar"])), gpar=sorted(map(tuple, g["gpar"])))
    # ---- histories: the same Restructure object, asked about an earlier text of the module first,
    # must compute for the current text what a fresh object computes (the spec: the result depends on
    # the current text only; the fresh result was judged against the spec above)
    for gid in ("log", "call", "same"):
        if gid in fresh:
            gtext, want = fresh[gid]
            for pre in sorted(beh["earlier"], key=json.dumps):
                pre_src = pt.render(pre)[0] + "\n"
                stats["histories"] = stats.get("histories", 0) + 1
                try:
                    res.write(pre_src)
                    r = restructure.Restructure(project, pattern, gtext, args)
                    try:
                        r.get_changes()
                    except exceptions.RopeError:
                        pass
                    res.write(src)
                    got = src
                    for ch in r.get_changes().changes:
                        got = ch.new_contents
                except exceptions.RopeError:
                    res.write(src)
                    continue
                except pt.Hang:
                    raise
                except Exception as e:  # noqa
                    res.write(src)
                    fail("HistoryCrash", goal=gid, exc=type(e).__name__, earlier=pre_src)
                    continue
                if got != want:
                    fail("History", goal=gid, earlier=pre_src, result=got, fresh=want)
            break
    return {"fails": fails, "stats": stats, "src": src, "pattern": pattern,
            "args": args, "beh_digest": common.digest([beh["mod"], beh["pat"], beh["deco"]])}


def key_of(f):
    k = {"clause": f["clause"]}
    for name in ("api", "cause", "stmtpat", "exc"):
        if name in f:
            k[name] = f[name]
    if f["clause"] in ("Meaning", "Parses") and f.get("cause") == "other":
        k["goal"] = f.get("goal")
    return k


def run_tlc(job, put):
    tier, k, (name, variant, nsim) = job
    count = [0]

    def on_beh(tag, value):
        count[0] += 1
        put(value)

    cfg = os.path.join(common.SCRATCH_BASE, "c19_%s_%d.cfg" % (name, os.getpid()))
    tlc.write_cfg(cfg, spec=("SimSpec" if nsim else "Spec"), constants=constants(tier, variant),
                  invariants=INVARIANTS + ["Export"])
    res = tlc.run("MC_PyMatch", cfg, on_tagged=on_beh, collect_tags=False,
                  workers=(1 if nsim else 4), simulate=({"num": nsim} if nsim else None),
                  depth=(6 if nsim else None), seed=(1000 * common.SEED + k + 1 if nsim else None),
                  java_opts=("-Xmx4g",))
    os.unlink(cfg)
    return name, res, count[0]


def sensitivity():
    """The model of rope's statement replacement is not Rewrite: TLC must refute MechIsRewrite."""
    cfg = os.path.join(common.SCRATCH_BASE, "c19_sens_%d.cfg" % os.getpid())
    variant = dict(VARIANTS["quick"][1][1])
    tlc.write_cfg(cfg, constants=constants("quick", variant), invariants=["MechIsRewrite"])
    res = tlc.run("MC_PyMatch", cfg, workers=4, java_opts=("-Xmx4g",))
    os.unlink(cfg)
    return res.violated


def main(tier):
    timer = common.Timer()
    verdict = common.Verdict(PROP)
    runs = {}
    variants = VARIANTS[tier]
    if os.environ.get("C19_ONLY"):
        variants = [v for v in variants if v[0] in os.environ["C19_ONLY"].split(",")]
    tlc_results = []
    seen = set()

    def producer(put):
        # the same (module, pattern, layout) may be reached by several runs: replay it once
        def put_new(b):
            d = common.digest([b["mod"], b["pat"], b["deco"], b["exact"]])
            if d not in seen:
                seen.add(d)
                put(b)
        from concurrent.futures import ThreadPoolExecutor
        with ThreadPoolExecutor(max_workers=4) as ex:
            for r in ex.map(lambda job: run_tlc(job, put_new), [(tier, k, v) for k, v in enumerate(variants)]):
                tlc_results.append(r)

    root = common.scratch("c19_")
    _W_ROOT[0] = root
    totals = {}
    replayed = 0
    nontrivial = 0
    samples = []
    first = None
    try:
        for r in pt.stream_map(run_behaviour, producer, chunk=100):
            replayed += 1
            if "machinery" in r:
                verdict.machinery_failure(r["machinery"][:600])
                continue
            if first is None:
                first = r
            for k, v in r["stats"].items():
                totals[k] = totals.get(k, 0) + v
            if r["stats"]["changed"]:
                nontrivial += 1
            if len(samples) < 4 and r["stats"]["matches"] >= 2 and replayed % 11 == 0:
                samples.append({"module": r["src"], "pattern": r["pattern"], "args": r["args"],
                                "instances": r["stats"]["matches"], "goals_checked": r["stats"]["goals"]})
            for f in r["fails"]:
                verdict.failure(key_of(f), {"property": PROP, "key": key_of(f), "module": r["src"],
                                            "pattern": r["pattern"], "args": r["args"], "detail": f})
    finally:
        common.rmtree(root)
    for name, res, nb in tlc_results:
        runs[name] = res.summary()
        runs[name]["behaviours"] = nb
        print("TLC PyMatch[%s]:" % name, res.summary(), "behaviours", nb)
        if not res.ok:
            if res.violated:
                path = common.write_replay(PROP, {"kind": "tlc-counterexample", "invariant": res.violated,
                                                  "trace": res.trace})
                print("MACHINERY-FAILURE property=%s spec invariant %s violated on the model (%s)" % (
                    PROP, res.violated, path))
                return 2
            print("MACHINERY-FAILURE property=%s TLC: %s\n%s" % (PROP, res.error, res.tail))
            return 2
        if nb == 0:      # vacuity guard: every run must reach Abstract (which needs AddStmt before it)
            verdict.machinery_failure("TLC run %s exported no behaviour" % name)
    sens = None
    if tier == "thorough":
        sens = sensitivity()
        if sens != "MechIsRewrite":
            verdict.machinery_failure("model insensitive: MechIsRewrite not refuted (%s)" % sens)
    if first is not None and not samples:
        samples.append({"module": first["src"], "pattern": first["pattern"]})
    if replayed == 0:
        verdict.machinery_failure("no behaviours exported")
    code = verdict.finish()
    common.write_evidence(PROP, tier, "model_checking", {
        "states": sum(r["distinct"] for r in runs.values()),
        "transitions": sum(r["generated"] for r in runs.values()),
        "traces_validated_against_impl": replayed,
        "samples": samples,
        "exhaustive": False,
        "exhaustive_within": [n for n, v, k in variants if not k],
        "random_behaviours": [n for n, v, k in variants if k],
        "distinct_nontrivial": nontrivial,
        "rule": "one behaviour per (module, pattern, layout) terminal state of the TLC graph; each is replayed "
                "against get_matches (whole module and every node region) and, per legal goal, Restructure and "
                "restructure.replace; non-trivial = at least one goal changed the module text",
        "replay_totals": totals,
        "tlc_runs": runs,
        "model_sensitivity": {"MechIsRewrite refuted by TLC": sens},
        "known_finding_hits": verdict.known_hits,
    }, timer.s(), violations=len(verdict.violations), assumptions=[
        "wildcards stand for expressions only; `${x}` and `${?x}` match any expression, `${n}` with "
        "args n=exact only the name n (docs/overview.rst)",
        "instances that overlap outside wildcard bindings are replaced outermost/leftmost first; a result "
        "that differs from that order is not judged",
        "a goal is only charged where every replaced assignment target stays assignable",
    ])
    return code


if __name__ == "__main__":
    sys.exit(main(sys.argv[1] if len(sys.argv) > 1 else "quick"))
