"""C12 - closing and reopening a project loses nothing it promised to keep.

(a) History: spec/RopeHistory.tla with the Reopen action enabled (close the
    project, open a new Project on the same directory).  In the spec Reopen
    changes nothing; every exported behaviour is replayed on a real project
    that saves its history, with unicode / multi-line contents, and after the
    reopen (at any position of the history, also repeatedly) the reloaded lists
    must equal the saved ones (order, descriptions, contents) and every later
    undo / redo / selective undo must still produce the spec's trees.
(b) Object information: a module is analysed so that the object db is
    non-empty; after close/reopen the stored mapping must be equal.
(c) Serializer: spec/Serial.tla transcribes python_to_json / json_to_python;
    TLC checks RoundTrip / EncodedIsJson / NoKeyCollision on the transcription
    for every value of the bounded universe, and each value is pushed through
    the real encoder, json text and the real decoder (and through
    ScopeInfo.__getstate__/__setstate__).
"""
import json
import os
import sys

from engine import common, tlc, replay
from bind import c10, c11

PROP = "C12"


def hist_configs(tier):
    out = []
    c = c11.base_constants()
    c.update({"AllowReopen": True, "MaxDo": 2, "MaxSteps": 5, "LeafKinds": {"W", "CF", "CD", "MV"},
              "Limits": {100}})
    out.append(("reopen-exhaustive-2do-5calls", c, "export", None))
    cf = c11.base_constants()
    cf.update({"AllowReopen": True, "AllowSelective": False, "FileNames": {"x", "n"}, "RootOnly": {"n"},
               "ExclusivePairs": tlc.Sub("MCExclusivePairs"), "InitTreesH": tlc.Sub("MCInitTreesH4"),
               "DirNames": {"e"}, "LeafKinds": {"CF", "CD", "MV"}, "MaxDo": 4, "MaxSteps": 5, "Limits": {100}})
    out.append(("reopen-file-then-folder-same-path", cf, "export", None))
    cs = c11.base_constants()
    cs.update({"AllowReopen": True, "AllowPairs": True, "MaxDo": 5, "MaxSteps": 10, "Limits": {3, 100},
               "InitTreesH": tlc.Sub("MCInitTreesH")})
    out.append(("reopen-simulation-10calls", cs, "sim", 1500 if tier == "quick" else 15000))
    if tier == "thorough":
        c2 = c11.base_constants()
        c2.update({"AllowReopen": True, "MaxDo": 3, "MaxSteps": 5, "Limits": {2, 100}})
        out.append(("reopen-exhaustive-3do-5calls", c2, "export", None))
    return out


def run_hist(beh):
    """ReopenTransparent: a failure counts for C12 only if the same history without the
    reopen steps (the twin) does not fail the same way."""
    c10.RICH = True
    r = c11.replay_history(beh, persist=True)
    if r.get("fails") and r["key"].get("act") != "reopen":
        twin = dict(beh)
        twin["trail"] = [s for s in beh["trail"] if s["act"] not in ("reopen", "sync")]
        r2 = c11.replay_history(twin, persist=True)
        if r2.get("fails") and r2["key"] == r["key"]:
            return {"fails": [], "steps": r.get("steps", 0), "beh": beh, "same_without_reopen": r["key"]}
    return r


# ------------------------------------------------------------------ objectdb
OI_SRC = '''class C:
    def m(self, x):
        return x

def f(a, b):
    return a

def g(p):
    return [p]

r1 = f(1, "s")
r2 = f(C(), None)
r3 = g((1, 2))
c = C()
r4 = c.m({"k": 1})
'''


def objectdb_case(n):
    """analyse a module, close, reopen: the stored object information must be equal"""
    common.use_repo()
    from rope.base import project as project_mod, libutils

    root = common.scratch("c12oi_")
    try:
        with open(os.path.join(root, "mod.py"), "w") as f:
            f.write(OI_SRC + "\n" * n + "r5 = f(%d, [%d])\n" % (n, n))
        p = project_mod.Project(root, save_history=True, save_objectdb=True)
        res = p.get_resource("mod.py")
        p.pycore.run_module(res).wait_process()
        p.pycore.analyze_module(res)
        db = p.pycore.object_info.objectdb.db

        def dump(d):
            return {path: {key: (dict(scope.call_info), dict(scope.per_name))
                           for key, scope in d._files[path].items()} for path in d._files}
        before = dump(db)
        p.close()
        p2 = project_mod.Project(root, save_history=True, save_objectdb=True)
        after = dump(p2.pycore.object_info.objectdb.db)
        # second session: more information about a module the db already knows (no new file entry)
        res2 = p2.get_resource("mod.py")
        res2.write(res2.read() + "r6 = f(C(), %d)\nr7 = g('x%d')\n" % (n, n))
        p2.pycore.run_module(res2).wait_process()
        p2.pycore.analyze_module(res2)
        before2 = dump(p2.pycore.object_info.objectdb.db)
        p2.close()
        p3 = project_mod.Project(root, save_history=True, save_objectdb=True)
        again = dump(p3.pycore.object_info.objectdb.db)
        if before2 == after:
            return {"machinery": "second session added no object information", "item": n}
        ok = (before == after) and (before2 == again)
        entries = sum(len(ci) + len(pn) for f_ in before.values() for ci, pn in f_.values())
        return {"equal": ok, "entries": entries,
                "before": repr(before2 if before == after else before)[:1500],
                "after": repr(again if before == after else after)[:1500]}
    finally:
        common.rmtree(root)


# ------------------------------------------------------------------ serializer
def to_py(x, hashable=False):
    t = x["t"]
    if t == "s":
        return x["v"]
    if t == "i":
        return int(x["v"])
    if t == "n":
        return None
    if t == "T":
        return tuple(to_py(i) for i in x["items"])
    if t == "L":
        return [to_py(i) for i in x["items"]]
    if t == "D":
        return {to_py(k): to_py(v) for k, v in x["items"]}
    raise ValueError(t)


def json_of(j):
    t = j["t"]
    if t == "s":
        return j["v"]
    if t == "i":
        return int(j["v"])
    if t == "n":
        return None
    if t == "a":
        return [json_of(i) for i in j["items"]]
    if t == "o":
        return {k: json_of(v) for k, v in j["items"]}
    raise ValueError(t)


def typed_equal(a, b):
    if type(a) is not type(b):
        return False
    if isinstance(a, (list, tuple)):
        return len(a) == len(b) and all(typed_equal(x, y) for x, y in zip(a, b))
    if isinstance(a, dict):
        if len(a) != len(b):
            return False
        for k, v in a.items():
            match = [k2 for k2 in b if typed_equal(k, k2)]
            if len(match) != 1 or not typed_equal(v, b[match[0]]):
                return False
        return True
    return a == b


def run_serial(beh):
    common.use_repo()
    from rope.base import serializer
    from rope.base.oi import memorydb

    val = to_py(beh["val"])
    ver = beh["ver"]
    if not beh["accepts"]:
        try:
            serializer.python_to_json(val, version=ver)
        except ValueError:
            return {"fails": []}
        return {"fails": ["RefusesReserved"], "key": {"clauses": ["RefusesReserved"]}, "beh": beh, "obs": {}}
    try:
        enc = serializer.python_to_json(val, version=ver)
        text = json.dumps(enc)
        dec = json.loads(text)
        back = serializer.json_to_python(dec)
    except BaseException as e:  # noqa
        return {"fails": ["RoundTrip"], "key": {"clauses": ["RoundTrip"], "exc": type(e).__name__},
                "beh": beh, "obs": {"exc": repr(e)[:300]}}
    fails = []
    conf = []
    if not typed_equal(back, val):
        fails.append("RoundTrip")
    if dec != enc:
        fails.append("EncodedIsJson")
    spec_enc = {"v": beh["encoded"]["v"], "data": json_of(beh["encoded"]["data"])}
    refs = [json_of(r) for r in beh["encoded"]["references"]]
    if refs:
        spec_enc["references"] = refs
    if spec_enc != enc:
        conf.append("encoding-differs-from-transcription")
    # the object db stores (call_info, per_name) through ScopeInfo's state hooks
    if ver == 2 and isinstance(val, dict):
        s = memorydb.ScopeInfo()
        s.call_info = val
        s.per_name = {"n": val}
        s2 = memorydb.ScopeInfo()
        try:
            s2.__setstate__(json.loads(json.dumps(s.__getstate__())))
            if not (typed_equal(s2.call_info, val) and typed_equal(s2.per_name, {"n": val})):
                fails.append("ScopeInfoState")
        except BaseException as e:  # noqa
            fails.append("ScopeInfoState")
    r = {"fails": fails, "conf": conf}
    if fails:
        r.update({"key": {"clauses": sorted(fails)}, "beh": beh,
                  "obs": {"encoded": enc, "decoded_back": repr(back)[:500], "value": repr(val)[:500]}})
    return r


def main(tier):
    timer = common.Timer()
    verdict = common.Verdict(PROP)
    runs = []
    total_states = total_trans = 0
    behs = []
    seen = set()
    for name, consts, mode, num in hist_configs(tier):
        cfg = os.path.join(common.SCRATCH_BASE, "c12_%d.cfg" % os.getpid())
        got = []
        if mode == "export":
            tlc.write_cfg(cfg, constants=consts, invariants=c11.INVARIANTS + ["Export"])
            res = tlc.run("MC_RopeHistory", cfg, on_tagged=lambda t, v, got=got: got.append(v), collect_tags=False)
        else:
            tlc.write_cfg(cfg, constants=consts, invariants=c11.INVARIANTS + ["Export"])
            res = tlc.run("MC_RopeHistory", cfg, simulate={"num": max(1, num // 16)}, depth=32, seed=common.SEED + 12,
                          on_tagged=lambda t, v, got=got: got.append(v), collect_tags=False)
        os.unlink(cfg)
        print("TLC RopeHistory[%s]:" % name, res.summary(), "behaviours:", len(got))
        runs.append({"config": name, "mode": mode, **res.summary(), "behaviours": len(got)})
        if not res.ok:
            if res.violated:
                path = common.write_replay(PROP, {"kind": "tlc-counterexample", "config": name,
                                                  "invariant": res.violated, "trace": res.trace})
                print("VIOLATION property=%s replay=%s" % (PROP, path))
                return 1
            print("MACHINERY-FAILURE property=%s TLC[%s]: %s\n%s" % (PROP, name, res.error, res.tail))
            return 2
        if mode != "sim":
            total_states += res.distinct
            total_trans += res.generated
        for b in got:
            if not any(s["act"] == "reopen" for s in b["trail"]):
                continue
            # a trailing sync without a later reopen checks nothing: drop it

            d = common.digest(b)
            if d not in seen:
                seen.add(d)
                behs.append(b)
    behs.sort(key=lambda b: json.dumps(b, sort_keys=True))
    if tier == "quick" and len(behs) > 40000:
        rnd = common.rng("c12")
        rnd.shuffle(behs)
        behs = behs[:40000]
    replayed = 0
    not_reopen_related = 0
    reopen_then_undo = 0
    samples = []
    for r in replay.pool_map(run_hist, behs, chunk=200):
        replayed += 1
        if "machinery" in r:
            verdict.machinery_failure(r["machinery"][:800])
            continue
        beh = r["beh"]
        acts = [s["act"] for s in beh["trail"]]
        k = acts.index("reopen")
        if any(a in ("undo", "redo") for a in acts[k + 1:]):
            reopen_then_undo += 1
            if len(samples) < 2 and replayed % 13 == 0:
                samples.append({"history": [{"act": s["act"], "arg": s["arg"]} for s in beh["trail"]]})
        if r.get("same_without_reopen"):
            not_reopen_related += 1
        if r["fails"]:
            folder_move = any(l["k"] == "MV" and l["p"][-1] in ("d", "e") for s2 in beh["trail"]
                              if s2["act"] == "do" for l in s2["arg"]["leaves"])
            key = dict(r["key"])
            key["part"] = "history"
            key["folder_move_in_history"] = folder_move
            verdict.failure(key, {"property": PROP, "key": key, "behaviour": beh, "step": r["step"],
                                  "observed": r["obs"], "expected": r["expected"]})

    # (b) object information
    oi_cases = 0
    oi_entries = 0
    for r in replay.pool_map(objectdb_case, list(range(4 if tier == "quick" else 16)), chunk=1):
        if "machinery" in r:
            verdict.machinery_failure(r["machinery"][:800])
            continue
        oi_cases += 1
        oi_entries += r["entries"]
        if r["entries"] == 0:
            verdict.machinery_failure("object db empty: the objectdb case is vacuous")
        if not r["equal"]:
            verdict.failure({"part": "objectdb", "clauses": ["ObjectInfoKept"]},
                            {"property": PROP, "part": "objectdb", "before": r["before"], "after": r["after"]})

    # (c) serializer
    cfg = os.path.join(common.SCRATCH_BASE, "c12s_%d.cfg" % os.getpid())
    svals = []
    tlc.write_cfg(cfg, constants={"MaxWraps": 1 if tier == "quick" else 2, "Versions": {1, 2}},
                  invariants=["RoundTrip", "EncodedIsJson", "NoKeyCollision", "Export"])
    sres = tlc.run("MC_Serial", cfg, on_tagged=lambda t, v: svals.append(v), collect_tags=False)
    os.unlink(cfg)
    print("TLC Serial:", sres.summary(), "values:", len(svals))
    runs.append({"config": "serial", "mode": "export", **sres.summary(), "behaviours": len(svals)})
    if not sres.ok:
        if sres.violated:
            path = common.write_replay(PROP, {"kind": "tlc-counterexample", "config": "serial",
                                              "invariant": sres.violated, "trace": sres.trace})
            print("VIOLATION property=%s replay=%s" % (PROP, path))
            return 1
        print("MACHINERY-FAILURE property=%s TLC[serial]: %s\n%s" % (PROP, sres.error, sres.tail))
        return 2
    total_states += sres.distinct
    total_trans += sres.generated
    ser_checked = 0
    conf_diff = 0
    refused = 0
    for r in replay.pool_map(run_serial, svals, chunk=2000):
        if "machinery" in r:
            verdict.machinery_failure(r["machinery"][:800])
            continue
        ser_checked += 1
        conf_diff += 1 if r.get("conf") else 0
        if r["fails"]:
            key = dict(r["key"])
            key["part"] = "serializer"
            verdict.failure(key, {"property": PROP, "key": key, "value": r["beh"], "observed": r["obs"]})
    if svals:
        samples.append({"serializer_value": svals[len(svals) // 3]["val"], "version": svals[len(svals) // 3]["ver"]})
    if conf_diff:
        print("NOTE %d values: real encoding differs from the transcription (round trip still judged on its own)"
              % conf_diff)
    code = verdict.finish()
    common.write_evidence(PROP, tier, "model_checking", {
        "states": total_states, "transitions": total_trans,
        "traces_validated_against_impl": replayed + ser_checked + oi_cases,
        "history_behaviours_replayed": replayed,
        "history_behaviours_with_undo_or_redo_after_reopen": reopen_then_undo,
        "history_failures_identical_without_reopen_left_to_C11": not_reopen_related,
        "serializer_values_round_tripped": ser_checked,
        "serializer_encoding_differs_from_transcription": conf_diff,
        "objectdb_cases": oi_cases, "objectdb_entries_compared": oi_entries,
        "distinct_nontrivial": reopen_then_undo + ser_checked,
        "samples": samples,
        "exhaustive": False,
        "rule": "history: distinct RopeHistory behaviours containing at least one reopen (non-trivial: an undo/redo "
                "follows the reopen); serializer: every value TLC enumerates (depth-1 universe wrapped MaxWraps times, "
                "both versions); objectdb: analysed modules",
        "tlc_runs": runs,
        "known_finding_hits": verdict.known_hits,
    }, timer.s(), violations=len(verdict.violations), assumptions=[
        "save_history / save_objectdb enabled; the process is not interrupted while saving (C18 covers that)",
        "dict keys limited to str/int/None/tuples thereof (what the serializer's doc promises)",
    ])
    return code


if __name__ == "__main__":
    sys.exit(main(sys.argv[1] if len(sys.argv) > 1 else "quick"))
