"""C09 - computing changes is pure; performing them touches only what was announced.

spec/RopeEffects.tla states the contract of a refactoring request over a disk
partitioned into project / ignored / outside regions (TLC checks it is
consistent: a well-behaved implementation exists and satisfies every clause).
This driver issues every refactoring kind at *every offset* of every module of
a fixture project that imports a module located outside the project root and
contains an ignored module, with and without the resources= restriction, and
records one effect trace per request (snapshot / compute / perform or refuse,
with the sets of files that changed, were announced, and were written with a
content other than the previewed one).  TLC validates all traces against
spec/TraceEffects.tla, whose invariants are the clauses of the contract.
"""
import json
import os
import shutil
import sys

from engine import common, tlc, replay

PROP = "C09"

A_SRC = '''import outmod


class A:
    def __init__(self):
        self.attr = 1
        self.helper = outmod.Out()

    def meth(self, x, y=2):
        z = x + y
        return z


def func(p, q=1):
    r = p * q
    return r


def twice(p):
    return p * 2


var = func(1, 2)
'''
B_SRC = '''import sys
import a
import outmod
from pkg import c

o = a.A()
v = o.meth(1)
w = a.func(3)
u = outmod.outfunc(w)
t = c.cfunc()
o.attr = v + 1
n = sys.maxsize
d = w * 2
'''
C_SRC = '''import a


def cfunc():
    k = a.func(1)
    return k * 2
'''
IG_SRC = '''import a
x = a.func(5)
y = a.A().meth(2)
'''
OUT_SRC = '''def outfunc(x):
    return x


class Out:
    def om(self):
        return 1
'''

MODULES = ["a.py", "b.py", "pkg/c.py"]
PK2_SRC = "def helper():\n    return 1\n\n\nVALUE = helper()\n"
# requests of these kinds cannot be honoured whatever the offset: the destination of a move is the
# defining module itself (addressed as file, dotted name or package folder), does not exist, or is a
# plain folder.  Only a refusal is accepted for them (RefusesImpossible).
IMPOSSIBLE_KINDS = ["move_same_file", "move_same_dotted", "move_same_pkgfolder", "move_to_missing",
                    "move_to_plain_folder"]


def make_fixture(base):
    root = os.path.join(base, "proj")
    sib = os.path.join(base, "sibling")
    os.makedirs(os.path.join(root, "pkg"))
    os.makedirs(os.path.join(root, "ign"))
    os.makedirs(os.path.join(root, "pk2"))
    os.makedirs(os.path.join(root, "stale", "__pycache__"))
    os.makedirs(sib)
    with open(os.path.join(root, "stale", "__pycache__", "old.txt"), "w") as f:
        f.write("left over\n")
    for rel, text in (("a.py", A_SRC), ("b.py", B_SRC), ("pkg/__init__.py", ""), ("pkg/c.py", C_SRC),
                      ("ign/ig.py", IG_SRC), ("pk2/__init__.py", PK2_SRC)):
        with open(os.path.join(root, rel), "w") as f:
            f.write(text)
    with open(os.path.join(sib, "outmod.py"), "w") as f:
        f.write(OUT_SRC)
    # generated code excluded with a `//` pattern ("gen//*.py": any number of folders, including none)
    for rel in ("gen/api.py", "gen/v1/models.py", "gen/v1/internal/tables.py"):
        os.makedirs(os.path.dirname(os.path.join(root, rel)), exist_ok=True)
        with open(os.path.join(root, rel), "w") as f:
            f.write(IG_SRC)
    return root, sib


def snap(base):
    """{relative path: (bytes | None for dirs, mtime_ns)} for project and sibling; .ropeproject skipped"""
    out = {}
    for dirpath, dirnames, filenames in os.walk(base):
        dirnames[:] = sorted(d for d in dirnames if d not in (".ropeproject", "__pycache__"))
        rel = os.path.relpath(dirpath, base)
        for d in dirnames:
            out[os.path.normpath(os.path.join(rel, d))] = (None, 0)
        for f in sorted(filenames):
            p = os.path.join(dirpath, f)
            with open(p, "rb") as h:
                out[os.path.normpath(os.path.join(rel, f))] = (h.read(), os.stat(p).st_mtime_ns)
    return out


def region(rel):
    parts = rel.split(os.sep)
    if parts[0] == "sibling":
        return "outside"
    if parts[0] == "proj":
        if len(parts) > 1 and parts[1] in ("ign", ".ropeproject"):
            return "ignored"
        if len(parts) > 1 and parts[1] == "gen" and parts[-1].endswith(".py"):
            return "ignored"
        return "project"
    return "outside"


def changed_files(s1, s2, with_mtime):
    out = []
    for k in sorted(set(s1) | set(s2)):
        a, b = s1.get(k), s2.get(k)
        if a is None or b is None or a[0] != b[0] or (with_mtime and a[1] != b[1]):
            out.append({"id": k, "region": region(k)})
    return out


def token_class(src, off):
    import io
    import keyword
    import tokenize
    try:
        lines = [0]
        for ln in src.splitlines(True):
            lines.append(lines[-1] + len(ln))
        for tok in tokenize.generate_tokens(io.StringIO(src).readline):
            s = lines[tok.start[0] - 1] + tok.start[1]
            e = lines[tok.end[0] - 1] + tok.end[1]
            if s <= off < e or (s == e == off):
                if tok.type == tokenize.NAME:
                    return "keyword" if keyword.iskeyword(tok.string) else "name"
                return tokenize.tok_name[tok.type].lower()
    except tokenize.TokenError:
        pass
    return "space"


KINDS = ["rename", "rename_restricted", "use_function_restricted", "inline_restricted", "inline", "move", "move_method", "change_signature", "encapsulate_field",
         "introduce_factory", "local_to_field", "method_object", "introduce_parameter", "use_function",
         "extract_method", "extract_variable"]
MODULE_KINDS = ["rename_package_onto_existing_dir", "organize_imports", "expand_star", "froms_to_imports", "relatives_to_absolutes",
                "handle_long_imports", "rename_module", "module_to_package", "restructure", "move_module"]


def build_request(project, kind, res, off):
    """returns a callable computing the changes (constructor included)"""
    from rope.refactor import (rename, inline, move, change_signature, encapsulate_field, introduce_factory,
                               localtofield, method_object, introduce_parameter, usefunction, extract,
                               importutils, topackage, restructure)
    if kind == "rename":
        return lambda: rename.Rename(project, res, off).get_changes("zz_new")
    if kind == "rename_restricted":
        return lambda: rename.Rename(project, res, off).get_changes("zz_new", resources=[res])
    if kind == "use_function_restricted":
        # restricted to the module under the cursor: nothing else may be announced or touched
        return lambda: usefunction.UseFunction(project, res, off).get_changes(resources=[res])
    if kind == "inline_restricted":
        return lambda: inline.create_inline(project, res, off).get_changes(resources=[res])
    if kind == "inline":
        return lambda: inline.create_inline(project, res, off).get_changes()
    if kind == "move":
        dest = project.get_resource("b.py") if res.path != "b.py" else project.get_resource("a.py")
        return lambda: move.create_move(project, res, off).get_changes(dest)
    if kind in IMPOSSIBLE_KINDS:
        def req_impossible():
            mover = move.create_move(project, res, off)
            if not isinstance(mover, move.MoveGlobal):
                return None
            # the module that defines the element under the cursor (not necessarily the one being edited)
            src_mod = mover.source
            if src_mod is None:
                return None
            if kind == "move_same_file":
                dest = src_mod
            elif kind == "move_same_dotted":
                from rope.base import libutils
                dest = libutils.modname(src_mod)
            elif kind == "move_same_pkgfolder":
                if src_mod.name != "__init__.py":
                    return None
                dest = src_mod.parent
            elif kind == "move_to_missing":
                dest = "nosuch.module"
            else:
                dest = project.get_resource("stale")
            return mover.get_changes(dest)
        return req_impossible
    if kind == "move_method":
        def req():
            mover = move.create_move(project, res, off)
            if isinstance(mover, move.MoveMethod):
                return mover.get_changes("helper", "moved_meth")
            return None
        return req
    if kind == "change_signature":
        return lambda: change_signature.ChangeSignature(project, res, off).get_changes(
            [change_signature.ArgumentNormalizer()])
    if kind == "encapsulate_field":
        return lambda: encapsulate_field.EncapsulateField(project, res, off).get_changes()
    if kind == "introduce_factory":
        return lambda: introduce_factory.IntroduceFactory(project, res, off).get_changes("create")
    if kind == "local_to_field":
        return lambda: localtofield.LocalToField(project, res, off).get_changes()
    if kind == "method_object":
        return lambda: method_object.MethodObject(project, res, off).get_changes("NewC")
    if kind == "introduce_parameter":
        return lambda: introduce_parameter.IntroduceParameter(project, res, off).get_changes("np")
    if kind == "use_function":
        return lambda: usefunction.UseFunction(project, res, off).get_changes()
    if kind == "extract_method":
        return lambda: extract.ExtractMethod(project, res, off, off + 5).get_changes("ext_m")
    if kind == "extract_variable":
        return lambda: extract.ExtractVariable(project, res, off, off + 5).get_changes("ext_v")
    org = importutils.ImportOrganizer(project)
    if kind == "organize_imports":
        return lambda: org.organize_imports(res)
    if kind == "expand_star":
        return lambda: org.expand_star_imports(res)
    if kind == "froms_to_imports":
        return lambda: org.froms_to_imports(res)
    if kind == "relatives_to_absolutes":
        return lambda: org.relatives_to_absolutes(res)
    if kind == "handle_long_imports":
        return lambda: org.handle_long_imports(res)
    if kind == "rename_package_onto_existing_dir":
        # the new name already exists as a plain directory: shutil.move puts the package inside it;
        # whatever rope announces must be what happens
        return lambda: rename.Rename(project, project.get_resource("pkg")).get_changes("stale")
    if kind == "rename_module":
        return lambda: rename.Rename(project, res).get_changes("zz_mod")
    if kind == "module_to_package":
        return lambda: topackage.ModuleToPackage(project, res).get_changes()
    if kind == "move_module":
        return lambda: move.create_move(project, res).get_changes(project.get_resource("pkg"))
    if kind == "restructure":
        return lambda: restructure.Restructure(project, "${f}(1)", "${f}(1 + 0)").get_changes()
    raise ValueError(kind)


def leaves(change):
    from rope.base import change as change_mod
    if isinstance(change, change_mod.ChangeSet):
        for c in change.changes:
            yield from leaves(c)
    else:
        yield change


def run_batch(arg):
    """all offsets of one (module, kind) on one fixture copy (rebuilt whenever a perform cannot be undone)"""
    modrel, kind, offsets = arg[:3]
    variant = arg[3] if len(arg) > 3 else "plain"
    common.use_repo()
    from rope.base import project as project_mod, exceptions, change as change_mod

    base = common.scratch("c09_")
    traces = []
    try:
        state = {}

        def fresh():
            if state.get("project") is not None:
                try:
                    state["project"].close()
                except Exception:
                    pass
            for n in os.listdir(base):
                shutil.rmtree(os.path.join(base, n))
            root, sib = make_fixture(base)
            if variant == "moved-into-ignored":
                with open(os.path.join(root, "ign", "__init__.py"), "w") as f:
                    f.write("")
            state["project"] = project_mod.Project(root, python_path=[sib], ignored_resources=["ign", ".ropeproject", "gen//*.py"])
            if variant == "moved-into-ignored":
                # a history before the request: the file list is cached, then a module that uses a.func
                # is moved by rope into the ignored package; later requests must leave it alone
                from rope.refactor import move
                pr = state["project"]
                pr.get_files()
                pr.do(move.create_move(pr, pr.get_resource("pkg/c.py")).get_changes(pr.get_resource("ign")))
            state["snap"] = snap(base)

        fresh()
        for off in offsets:
            project = state["project"]
            res = project.get_resource(modrel)
            before = state["snap"]
            src = before[os.path.join("proj", modrel.replace("/", os.sep))][0].decode()
            tc = token_class(src, off) if off is not None else "module"
            tr = {"kind": kind, "module": modrel, "offset": off, "token": tc, "variant": variant, "events": [],
                  "impossible": kind in IMPOSSIBLE_KINDS}
            changes = None
            exc = None
            try:
                changes = build_request(project, kind, res, off)()
            except BaseException as e:  # noqa
                exc = e
            after_compute = snap(base)
            if exc is not None or changes is None:
                ch = changed_files(before, after_compute, True)
                if exc is None:
                    # "nothing to do" (None) is a refusal without error
                    tr["events"].append({"ev": "refuse", "changed": ch, "err": "rope", "exc": None})
                else:
                    is_rope = isinstance(exc, exceptions.RopeError)
                    tr["events"].append({"ev": "refuse", "changed": ch, "err": "rope" if is_rope else "internal",
                                         "exc": type(exc).__name__, "msg": str(exc)[:160]})
                if ch:
                    fresh()
                traces.append(tr)
                continue
            announced = []
            for r in changes.get_changed_resources():
                rel = os.path.relpath(r.real_path, base)
                reg = region(rel)
                if reg == "project" and project.is_ignored(r):
                    reg = "ignored"
                if kind.endswith("_restricted") and reg == "project" and os.path.normpath(r.real_path) != \
                        os.path.normpath(res.real_path):
                    reg = "excluded-by-resources"      # the request was restricted to resources=[res]
                announced.append({"id": os.path.normpath(rel), "region": reg})
            # a listed folder stands for everything below it (moving / removing a folder)
            folder_ids = []
            for a in announced:
                for sn in (before, after_compute):
                    if a["id"] in sn and sn[a["id"]][0] is None:
                        folder_ids.append(a["id"])
            description = changes.get_description()
            tr["events"].append({"ev": "compute", "changed": changed_files(before, after_compute, True),
                                 "announced": sorted(announced, key=lambda a: a["id"])})
            perr = None
            try:
                project.do(changes)
            except BaseException as e:  # noqa
                perr = e
            after = snap(base)
            ch = changed_files(before, after, False)
            for a in announced:
                if a["id"] in after and after[a["id"]][0] is None and a["id"] not in folder_ids:
                    folder_ids.append(a["id"])
            ch = [c for c in ch if not any(c["id"].startswith(fid + os.sep) for fid in folder_ids)]
            unprev = []
            # follow moves inside the change set: where does the file a leaf wrote end up?
            moved = {}
            for lf in leaves(changes):
                if isinstance(lf, change_mod.MoveResource):
                    moved[os.path.normpath(os.path.relpath(lf.resource.real_path, base))] = \
                        os.path.normpath(os.path.relpath(lf.new_resource.real_path, base))
            if perr is not None:
                unprev.append({"id": "perform-raised:" + type(perr).__name__, "region": "project"})
            for lf in leaves(changes):
                if isinstance(lf, change_mod.ChangeContents):
                    rel = os.path.normpath(os.path.relpath(lf.resource.real_path, base))
                    hops = 0
                    while rel not in after and hops < 5:
                        nxt = moved.get(rel)
                        if nxt is None:
                            nxt = next((v + rel[len(k):] for k, v in moved.items() if rel.startswith(k + os.sep)), None)
                        if nxt is None:
                            break
                        rel, hops = nxt, hops + 1
                    data = after.get(rel)
                    if data is None or data[0] is None or \
                            data[0].decode("utf-8", "replace").replace("\r\n", "\n") != lf.new_contents.replace("\r\n", "\n"):
                        unprev.append({"id": rel, "region": region(rel)})
                    elif before.get(rel) is not None and before[rel][0] != data[0] and \
                            ("b/" + lf.resource.path) not in description:
                        unprev.append({"id": rel, "region": region(rel)})
            tr["events"].append({"ev": "perform", "changed": ch, "unpreviewed": unprev})
            traces.append(tr)
            # restore for the next offset
            ok = False
            if perr is None:
                try:
                    project.history.undo()
                    s3 = snap(base)
                    ok = not changed_files(before, s3, False)
                    if ok:
                        state["snap"] = s3
                except BaseException:  # noqa
                    ok = False
            if not ok:
                fresh()
        return {"traces": traces}
    finally:
        if state.get("project") is not None:
            try:
                state["project"].close()
            except Exception:
                pass
        common.rmtree(base)


def run_multiproject(arg):
    """Cross-project refactorings (rope.refactor.multiproject): each project's change set may announce and
    touch only files of that project.  Two projects with a module at the same relative path."""
    which = arg
    common.use_repo()
    from rope.base import project as project_mod, exceptions
    from rope.refactor import move, rename, multiproject
    base = common.scratch("c09mp_")
    traces = []
    try:
        lib = project_mod.Project(os.path.join(base, "lib"), ropefolder=None)
        app = project_mod.Project(os.path.join(base, "app"), ropefolder=None)
        for root, rel, text in ((lib, "core.py", "def helper():\n    return 1\n\n\nvalue = helper()\n"),
                                (lib, "util.py", "# lib utilities\n"),
                                (app, "util.py", "import core\n\n\ndef run():\n    return core.helper()\n"),
                                (app, "main.py", "import core\nvalue = core.helper()\n")):
            with open(os.path.join(root.address, rel), "w") as f:
                f.write(text)
        app.prefs.set("python_path", [lib.address])
        core = lib.get_resource("core.py")
        off = core.read().index("helper")

        def reg_for(project):
            def region_of(rel):
                full = os.path.join(base, rel)
                return "project" if full.startswith(project.address + os.sep) else "outside"
            return region_of

        before = snap(base)
        exc = None
        try:
            if which == "move":
                ref = multiproject.MultiProjectRefactoring(move.create_move, [app])(lib, core, off)
                pcs = ref.get_all_changes(lib.get_resource("util.py"))
            else:
                ref = multiproject.MultiProjectRefactoring(rename.Rename, [app])(lib, core, off)
                pcs = ref.get_all_changes("assist")
        except BaseException as e:  # noqa
            exc = e
        after_compute = snap(base)
        if exc is not None:
            ch = [{"id": k, "region": "project"} for k in sorted(set(before) | set(after_compute))
                  if before.get(k) != after_compute.get(k)]
            traces.append({"kind": "multiproject_" + which, "module": "lib/core.py", "offset": off, "token": "name",
                           "variant": "multiproject",
                           "events": [{"ev": "refuse", "changed": ch, "exc": type(exc).__name__,
                                       "err": "rope" if isinstance(exc, exceptions.RopeError) else "internal"}]})
            return {"traces": traces}
        first = True
        for project, changes in pcs:
            region_of = reg_for(project)
            announced = [{"id": os.path.normpath(os.path.relpath(r.real_path, base)),
                          "region": region_of(os.path.relpath(r.real_path, base))}
                         for r in changes.get_changed_resources()]
            tr = {"kind": "multiproject_" + which, "module": os.path.basename(project.address), "offset": off,
                  "token": "name", "variant": "multiproject", "events": []}
            cch = [{"id": k, "region": region_of(k)} for k in sorted(set(before) | set(after_compute))
                   if before.get(k) is None or after_compute.get(k) is None or before[k][0] != after_compute[k][0]
                   or before[k][1] != after_compute[k][1]] if first else []
            first = False
            tr["events"].append({"ev": "compute", "changed": cch, "announced": sorted(announced, key=lambda a: a["id"])})
            pre = snap(base)
            perr = None
            try:
                project.do(changes)
            except BaseException as e:  # noqa
                perr = e
            post = snap(base)
            ch = [{"id": k, "region": region_of(k)} for k in sorted(set(pre) | set(post))
                  if pre.get(k) is None or post.get(k) is None or pre[k][0] != post[k][0]]
            unprev = [{"id": "perform-raised:" + type(perr).__name__, "region": "project"}] if perr else []
            tr["events"].append({"ev": "perform", "changed": ch, "unpreviewed": unprev})
            traces.append(tr)
        return {"traces": traces}
    finally:
        common.rmtree(base)


def main(tier):
    timer = common.Timer()
    verdict = common.Verdict(PROP)
    runs = []
    # the contract itself
    cfg = os.path.join(common.SCRATCH_BASE, "c09_%d.cfg" % os.getpid())
    tlc.write_cfg(cfg, constants={"Files": tlc.Sub("MCFiles"), "RegionOf": tlc.Sub("MCRegion"),
                                  "ErrClasses": {"rope", "internal"}},
                  invariants=["InsideProject", "RefusesImpossible"],
                  properties=["PureCompute", "OnlyAnnounced", "PreviewMatches", "RefusalClean"])
    res = tlc.run("MC_RopeEffects", cfg, workers=2)
    os.unlink(cfg)
    print("TLC RopeEffects:", res.summary())
    runs.append({"config": "contract", **res.summary()})
    if not res.ok:
        print("MACHINERY-FAILURE property=%s TLC RopeEffects: %s %s\n%s" % (PROP, res.violated, res.error, res.tail))
        return 2
    states, trans = res.distinct, res.generated
    srcs = {"a.py": A_SRC, "b.py": B_SRC, "pkg/c.py": C_SRC, "pk2/__init__.py": PK2_SRC}
    rnd = common.rng("c09")
    batches = []
    for m in MODULES:
        n = len(srcs[m])
        offs = list(range(n + 1))
        if tier == "quick":
            # every offset for rename/inline/move, every 2nd (seeded phase) for the rest
            phase = rnd.randint(0, 1)
        for kind in KINDS:
            sel = offs
            if tier == "quick" and kind not in ("rename", "inline", "move", "rename_restricted"):
                sel = [o for o in offs if o % 2 == phase]
            for k in range(0, len(sel), 40):
                batches.append((m, kind, sel[k:k + 40]))
        for kind in MODULE_KINDS:
            batches.append((m, kind, [None]))
    # requests that cannot be honoured: every offset of every module (and of a package's __init__.py)
    for m in MODULES + ["pk2/__init__.py"]:
        offs = list(range(len(srcs[m]) + 1))
        for kind in IMPOSSIBLE_KINDS:
            if kind == "move_same_pkgfolder" and not m.endswith("__init__.py"):
                continue
            for k in range(0, len(offs), 60):
                batches.append((m, kind, offs[k:k + 60]))
    # multi-step histories before the request
    offs_a = list(range(len(A_SRC) + 1))
    for kind in ("rename", "change_signature", "inline", "move", "encapsulate_field", "introduce_factory"):
        for k in range(0, len(offs_a), 40):
            batches.append(("a.py", kind, offs_a[k:k + 40], "moved-into-ignored"))
    traces = []
    for r in replay.pool_map(run_batch, batches, chunk=1):
        if "machinery" in r:
            verdict.machinery_failure(r["machinery"][:800])
            continue
        traces.extend(r["traces"])
    for r in replay.pool_map(run_multiproject, ["move", "rename"], chunk=1):
        if "machinery" in r:
            verdict.machinery_failure(r["machinery"][:800])
            continue
        traces.extend(r["traces"])
    traces.sort(key=lambda t: (t["variant"], t["module"], t["kind"], -1 if t["offset"] is None else t["offset"]))
    # TLC validates the whole batch (-continue: every violated invariant is reported with its state,
    # whose tid identifies the trace)
    import re
    failures = []
    if traces:
        batch = {"traces": [{"impossible": bool(t.get("impossible")),
                             "events": [{"ev": e["ev"], "changed": e.get("changed", []),
                                         "announced": e.get("announced", []),
                                         "unpreviewed": e.get("unpreviewed", []), "err": e.get("err", "none")}
                                        for e in t["events"]]} for t in traces]}
        tf = os.path.join(common.SCRATCH_BASE, "c09_traces_%d.json" % os.getpid())
        with open(tf, "w") as f:
            json.dump(batch, f)
        tres = tlc.run("TraceEffects", os.path.join(tlc.SPEC_DIR, "TraceEffects.cfg"), workers=1,
                       env={"TRACE_FILE": tf}, extra=("-continue",))
        os.unlink(tf)
        print("TLC TraceEffects:", tres.summary(), "traces:", len(traces), "violations:", len(tres.all_violations))
        runs.append({"config": "TraceEffects", **tres.summary(), "traces": len(traces)})
        states += tres.distinct
        trans += tres.generated
        if tres.error and not tres.all_violations:
            if "eadlock" in tres.error:
                m = re.findall(r"/\\ tid = (\d+)", tres.trace)
                if m:
                    failures.append((int(m[-1]) - 1, "event-order"))
                else:
                    verdict.machinery_failure("TraceEffects deadlock without tid\n" + tres.tail[-600:])
            else:
                verdict.machinery_failure("TraceEffects: %s\n%s" % (tres.error, tres.tail[-600:]))
        seen_fail = set()
        for name, text in tres.all_violations:
            m = re.findall(r"/\\ tid = (\d+)", text)
            if not m:
                verdict.machinery_failure("TraceEffects violation without tid: %s" % name)
                continue
            k = (int(m[-1]) - 1, name)
            if k not in seen_fail:
                seen_fail.add(k)
                failures.append(k)
    accepted = len(traces) - len({i for i, _ in failures})
    for idx, clause in failures:
        t = traces[idx]
        ev = t["events"][-1]
        key = {"clauses": [clause], "kind": t["kind"], "exc": ev.get("exc")}
        if t["variant"] != "plain":
            key["variant"] = t["variant"]
        verdict.failure(key, {"property": PROP, "key": key, "trace": t})
    performed = sum(1 for t in traces if t["events"][-1]["ev"] == "perform")
    refused = sum(1 for t in traces if t["events"][-1]["ev"] == "refuse")
    kinds_performed = sorted({t["kind"] for t in traces if t["events"][-1]["ev"] == "perform"})
    impossible_reached = sum(1 for t in traces if t.get("impossible") and t["events"][-1]["ev"] == "refuse"
                             and ("destination" in (t["events"][-1].get("msg") or "")
                                  or "same module" in (t["events"][-1].get("msg") or "")))
    if impossible_reached < 10 and not verdict.violations:
        verdict.machinery_failure("only %d impossible requests reached the destination checks: vacuous" % impossible_reached)
    if performed < 50:
        verdict.machinery_failure("only %d requests were performed: vacuous" % performed)
    samples = [t for t in traces if t["events"][-1]["ev"] == "perform"][:2] + \
              [t for t in traces if t["events"][-1]["ev"] == "refuse" and t["events"][-1].get("exc")][:1]
    code = verdict.finish()
    common.write_evidence(PROP, tier, "model_checking", {
        "states": states, "transitions": trans,
        "traces_validated_against_impl": len(traces),
        "traces_accepted": accepted,
        "requests_performed": performed, "requests_refused": refused,
        "impossible_requests_refused_at_destination_checks": impossible_reached,
        "kinds_with_a_performed_request": kinds_performed,
        "distinct_nontrivial": performed,
        "samples": samples,
        "exhaustive": tier == "thorough",
        "rule": "one effect trace per request = (refactoring kind, module, offset) over the fixture project (3 modules, "
                "an outside module on python_path, an ignored module), every offset (quick: every 2nd for the less "
                "common kinds); non-trivial = the request produced changes that were performed and compared",
        "tlc_runs": runs,
        "known_finding_hits": verdict.known_hits,
    }, timer.s(), violations=len(verdict.violations), assumptions=[
        "effects are observed on the project root and the sibling python_path folder (bytes; mtime too for the "
        "compute phase); .ropeproject internals are not compared",
        "one fixture project; the refactoring-specific checks of C01-C07/C17/C19 are separate",
    ])
    return code


if __name__ == "__main__":
    sys.exit(main(sys.argv[1] if len(sys.argv) > 1 else "quick"))
