"""MoveMethod part of property C05 ("moving a method to an attribute's class").

The MoveMethod family ("mm") of spec/PyClass.tla: class C has an attribute g holding an instance
of class D (D in module a; C in module a or in module b), methods of C that use nothing of self, a
field, the attribute itself, a sibling method, a local, keyword-called parameters, and one whose
first parameter is not called self; clients call them in both modules.  TLC checks ObsPreserved
for the abstract MoveMethod (body becomes a method of D, the old self is passed as `host` when the
body uses it, the old method delegates `return self.g.mv(...)`) and exports every (program,
method) pair as a token stream with the predicted output of both entry modules.

Replay (shared with bind/c17.py): spec output vs CPython first (exit 2 on disagreement), then
rope.refactor.move.create_move(project, resource, offset of the method name) -> MoveMethod ->
get_changes("g", "mv"); rope may refuse with a RopeError, otherwise every module must compile and
both entry modules must print what the spec predicts.

Used by bind/c05.py:   cov["move_method"] = _movemethod.run(tier, verdict, common.SEED)
"""
import json
import os
import re

from engine import common, tlc, replay
from bind import c17

PART = "move_method"
INVARIANTS = ["TypeOK", "Prog0Runs", "ObsPreserved", "RefusedUnchanged", "TargetHasSite"]


def key_of(r):
    scen = r["scen"]
    m = re.search(r"def %s\((\w+)" % re.escape(scen["req"]["name"]), r["files"]["a.py"] + r["files"]["b.py"])
    return {
        "selfname": m.group(1) if m else None,     # how the moved method calls its first parameter
        "part": PART,
        "action": "MoveMethod",
        "clauses": sorted(r["fails"]),
        "deviation": r["obs"].get("deviation") or r["obs"].get("exc"),
        "method": scen["req"]["name"],
        "c_in": "b" if scen["variant"] == 2 else "a",
    }


def run(tier, verdict, seed=None):
    """Run the MoveMethod family and report failures through verdict (property C05).
    Returns measured coverage numbers."""
    timer = common.Timer()
    quick = tier == "quick"
    cfg = os.path.join(common.SCRATCH_BASE, "c05mm_%d.cfg" % os.getpid())
    bounds = (1, 1, 1) if quick else (1, 1, 2)
    tlc.write_cfg(cfg, constants={"Families": {"mm"}, "MaxA": bounds[0], "MaxB": bounds[1], "MaxTotal": bounds[2],
                                  "Features": set(), "Guards": True},
                  invariants=INVARIANTS + ["Export"])
    behs = []
    try:
        res = tlc.run("MC_PyClass", cfg, on_tagged=lambda t, v: behs.append(v), collect_tags=False,
                      timeout=1200, java_opts=("-Xmx4g",))
    finally:
        os.unlink(cfg)
    print("TLC PyClass/MoveMethod:", res.summary())
    if not res.ok:
        verdict.machinery_failure("MoveMethod TLC: %s %s\n%s" % (res.violated, res.error, (res.trace or res.tail)[-1200:]))
        return {"tlc": res.summary()}
    rnd = common.rng("c05-movemethod" if seed is None else "c05-movemethod/%s" % seed)
    behs.sort(key=lambda b: json.dumps([b["variant"], b["imp"], b["sa"], b["sb"], b["req"]["name"]]))
    items = []
    for b in behs:
        sites = sorted(b["sites"], key=lambda s: (s["mod"], s["idx"]))
        # the definition of the method and, when there is one, a seeded call site
        chosen = [sites[0]]
        calls = sites[1:]
        if calls and (not quick or rnd.random() < 0.5):
            chosen.append(calls[rnd.randrange(len(calls))])
        for s in chosen:
            items.append((b, s, rnd.randrange(0, 8), rnd.randrange(0, 4)))
    if quick and len(items) > 260:
        rnd.shuffle(items)
        items = items[:260]
    items.sort(key=lambda it: json.dumps([it[0]["variant"], it[0]["imp"], it[0]["sa"], it[0]["sb"], it[3]]))
    counts = {"performed": 0, "refused": 0, "error": 0}
    changed = 0
    nontrivial = set()
    sample = None
    replayed = 0
    failures = 0
    for r in replay.pool_map(c17.run_behaviour, items, chunk=8):
        replayed += 1
        if "machinery" in r:
            verdict.machinery_failure("MoveMethod: " + json.dumps({k: r[k] for k in r if k != "item"}, default=str)[:1200])
            continue
        scen, obs = r["scen"], r["obs"]
        counts[obs["outcome"]] += 1
        if obs["outcome"] == "performed" and obs.get("changed"):
            changed += 1
            nontrivial.add(common.digest([scen["variant"], scen["imp"], scen["sa"], scen["sb"], scen["req"]["name"]]))
            if sample is None and not r["fails"] and scen["variant"] == 2 and scen["req"]["name"] == "md":
                sample = {"request": scen["req"], "site": scen["site"], "a.py": r["files"]["a.py"],
                          "b.py": r["files"]["b.py"], "spec_output": r["spec"]["obs"], "after_rope": obs["after"]}
        if r["fails"]:
            failures += 1
            key = key_of(r)
            verdict.failure(key, {"property": verdict.prop, "key": key, "scenario": scen, "files": r["files"],
                                  "spec": r["spec"], "observed": obs})
    if replayed and changed == 0:
        verdict.machinery_failure("MoveMethod: vacuous, rope moved no method")
    return {"states": res.distinct, "behaviours_from_tlc": len(behs), "replayed": replayed, "outcomes": counts,
            "changed": changed, "distinct_nontrivial": len(nontrivial), "failures": failures,
            "sample": sample, "tlc": res.summary(), "wall_s": round(timer.s(), 1)}


if __name__ == "__main__":   # stand-alone:  python -m bind._movemethod quick
    import sys
    v = common.Verdict("C05")
    cov = run(sys.argv[1] if len(sys.argv) > 1 else "quick", v, common.SEED)
    print({k: cov[k] for k in cov if k != "sample"})
    sys.exit(v.finish())
