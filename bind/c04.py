"""C04 - inline variable / function / parameter preserves behaviour or is refused.

Three parts, all driven by TLC exports:

* function / method inlining - spec/PyCalls.tla with Task = "inline": every signature without
  *args / **kw x every sequence of <= MaxSites call sites (every accepted call shape, in the defining
  module or in an importing module) x remove / only_current(current site).  TLC checks
  SitesIndependent, OnlyTargets, DefinitionRemovedIffAsked, NoDanglingCall on the model, and - as a
  sensitivity run - that the defect model (parameter map kept across sites) violates
  SitesIndependent.  Every exported behaviour is rendered (function / method / classmethod /
  staticmethod; sites as statement, right-hand side or nested expression; body with or without
  `return`; body using a name imported in the defining module), run, inlined with
  rope.refactor.inline.create_inline(...).get_changes(remove=, only_current=), and run again.
* parameter inlining - the inline_default behaviours of Task = "sig" performed through
  create_inline on the parameter (InlineParameter).
* variable inlining - spec/PyInline.tla (straight-line programs), see run_var_behaviour.
"""
import json
import os
import re
import sys

from engine import common, tlc, replay, runpy
from bind import _pycalls as pc

PROP = "C04"
INL_INVARIANTS = ["SitesIndependent", "OnlyTargets", "DefinitionRemovedIffAsked", "NoDanglingCall", "HostLocalsKept",
                  "ImportsWhereNeeded"]
VAR_INVARIANTS = ["ObsPreserved", "NoDanglingRead"]
CTXS = ("stmt", "rhs", "nested", "suffix", "cont")


def inline_constants(max_params, max_sites, plain=False, scopes=False, modules=False):
    return {"Mods": tlc.Sub("ThreeMods" if modules else "TwoMods"),
            "Imps": {True, False} if modules else tlc.Sub("NoImp"),
            "Ctxs": tlc.Sub("AllCtxs"), "Furniture": tlc.Sub("AllFurniture"),
            "MaxRecv": 1, "MaxPreviews": 0, "PreviewKinds": tlc.Sub("NoPreview"),
            "Hosts": {True, False} if scopes else tlc.Sub("NoHost"),
            "Dups": {True, False} if scopes else tlc.Sub("NoDup"),"MaxParams": max_params, "MaxArgs": 3, "Kinds": tlc.Sub("InlineKinds"), "Stars": False, "KoSet": tlc.Sub("NoKo"),
            "MaxChangers": 0, "Task": "inline", "MaxSites": max_sites,
            "Uses": tlc.Sub("PlainOnly" if plain else "AllUses"), "Cxs": tlc.Sub("NoCx") if plain else {True, False}}


def site_offset(src, k):
    """offset of the callee name `f` of site k"""
    i = src.index("print('site', %d)" % k)
    j = src.index("f(", src.index("\n", i))
    return j


# ------------------------------------------------------------------ function inlining
def run_inline(item):
    _, beh, kind, dims, at = item
    common.use_repo()
    from rope.base import project as project_mod, exceptions
    from rope.refactor import inline as inline_mod

    sig, sites, opt = beh["sig"], beh["sites"], beh["opt"]
    res = {"beh": beh, "kind": kind, "dims": dims, "at": at, "fails": [], "outcome": None, "part": "function"}
    calls = [s["c"] for s in sites]
    bad = pc.flat_check(sig, calls, [{"par": b, "va": [], "kw": []} for b in beh["bind"]],
                        vbs=[0 if s.get("dup") else k for k, s in enumerate(sites)])
    if bad:
        return {"machinery": "spec vs CPython: " + bad, "item": [sig, calls]}
    files = pc.render_inline_program(kind, sig, sites, dims)
    root = common.scratch("c04_")
    try:
        for p, s in files.items():
            with open(os.path.join(root, p), "w") as f:
                f.write(s)
        out0, exc0 = pc.run_entry(root, pc.INLINE_ENTRY)
        want0 = pc.inline_expected(kind, sig, beh["b0"], dims, sites)
        if exc0 or pc.parse_print_lines(out0) != want0:
            return {"machinery": "rendered program does not print the spec's bindings: exc=%s\n%s\nwant %s\n%s" % (
                exc0, out0[:500], want0, "\n----\n".join("%s\n%s" % kv for kv in sorted(files.items()))), "item": [sig, calls, kind]}
        project = project_mod.Project(root, ropefolder=None)
        try:
            if at == "def":
                path, offset = "m.py", files["m.py"].index("def f(") + 4
            else:
                path = pc.MODFILE[sites[at]["m"]]
                offset = site_offset(files[path], at)
            exc = None
            try:
                changes = inline_mod.create_inline(project, project.get_file(path), offset).get_changes(
                    remove=opt["remove"], only_current=opt["only"])
                project.do(changes)
            except exceptions.RopeError as e:
                res["outcome"] = "refused"
                res["refusal"] = "%s: %s" % (type(e).__name__, str(e)[:120])
                after = {p: open(os.path.join(root, p)).read() for p in files}
                if after != files:
                    res["fails"].append("RefusalLeftChanges")
                return res
            except Exception as e:  # noqa
                exc = e
            after = {p: open(os.path.join(root, p)).read() for p in files}
            res["after"] = after
            if exc is not None:
                res["outcome"] = "error"
                res["fails"].append("InternalError")
                res["exc"] = "%s: %s" % (type(exc).__name__, str(exc)[:160])
                return res
            res["outcome"] = "changed" if after != files else "noop"
            judge_inline(res, beh, kind, dims, after, root)
            return res
        finally:
            project.close()
    finally:
        common.rmtree(root)


def judge_inline(res, beh, kind, dims, after, root):
    fails, detail = res["fails"], res.setdefault("detail", {})
    sig, sites, opt = beh["sig"], beh["sites"], beh["opt"]
    targets = set(t - 1 for t in beh["targets"])
    for p, s in after.items():
        try:
            compile(s, p, "exec")
        except SyntaxError as e:
            fails.append("Parses")
            detail["syntax"] = "%s: %s" % (p, e)
            return
    # behaviour: every inlined site shows the binding of its own call; the others still call
    pairs = [beh["shown"][k] if k in targets else beh["b0"][k] for k in range(len(sites))]
    want = pc.inline_expected(kind, sig, pairs, dims, sites)
    out1, exc1 = pc.run_entry(root, pc.INLINE_ENTRY)
    got = pc.parse_print_lines(out1)
    if exc1 or got != want:
        detail["exc_after"] = exc1
        detail["want"] = repr(want)
        detail["got"] = repr(got)
        # which of the spec's defect models (if any) predicts exactly this output
        detail["matches_defect_model"] = None
        for name in ("shownL", "shownS", "shownD"):
            pairs_x = [beh[name][k] if k in targets else beh["b0"][k] for k in range(len(sites))]
            want_x = pc.inline_expected(kind, sig, pairs_x, dims, sites)
            if not exc1 and got == want_x and want_x != want:
                detail["matches_defect_model"] = name
                break
        only_hv = (not exc1 and len(got) == len(want) and
                   all(g == w or (isinstance(w, tuple) and w and w[0] == "hv") for g, w in zip(got, want)))
        fails.append("HostLocalsKept" if only_hv else "SitesIndependent")
    # structure: which sites are still calls, whether the definition is still there
    segs = {}
    srcmods = [p for p in after if p in pc.MODFILE.values()]
    for p in srcmods:
        segs.update(pc.site_segments(after[p]))
    still = []
    for k in range(len(sites)):
        try:
            ncalls = pc.calls_to(segs.get(k, ""), kind)[0]
        except SyntaxError:
            ncalls = -1
        still.append(ncalls)
    detail["calls_left_per_site"] = still
    if any((still[k] != 0) if k in targets else (still[k] != 1) for k in range(len(sites))):
        fails.append("OnlyTargets")
    has_def = pc.find_def(after["m.py"], kind) is not None
    if has_def == bool(opt["remove"]):
        fails.append("DefinitionRemovedIffAsked")
    if opt["remove"]:
        refs = sum(sum(pc.calls_to(after[p], kind)) for p in srcmods)
        if refs:
            fails.append("NoDanglingCall")


def first_param(sig, call):
    """name of the parameter the first supplied argument goes to (rendering passes that argument
    through the host variable)"""
    if call["pos"]:
        return sig["ps"][0]["n"] if sig["ps"] else None
    if call["kws"]:
        return call["kws"][0]["k"]
    return None


def inline_key(r):
    beh, d = r["beh"], r.get("detail", {})
    opt = beh["opt"]
    key = {"part": r["part"], "clauses": sorted(r["fails"]), "cause": None}
    targets = set(t - 1 for t in beh["targets"])
    model = d.get("matches_defect_model")
    if r["fails"] == ["SitesIndependent"] and model:
        local = {"tight": "argument-spliced-without-parentheses",
                 "reassign": "reassigned-parameter-reads-replaced"}.get(opt["use"])
        shared = "parameter-map-shared-between-sites"
        key["cause"] = {"shownL": local, "shownS": shared,
                        "shownD": (local + "+" + shared) if local else shared}[model]
        if key["cause"]:
            return key
    dims = r["dims"]
    if r["fails"] == ["SitesIndependent"] and dims.get("argvar") == "t" and dims.get("tmp") and \
            d.get("exc_after") in ("UnboundLocalError", "NameError") and \
            any(re.search(r"(__\d+__t) = .*\b\1\b", src) for src in (r.get("after") or {}).values()):
        key["cause"] = "argument-variable-renamed-with-body-locals"
        return key
    if r["fails"] == ["SitesIndependent"] and dims.get("argvar") == "a" and not d.get("exc_after") and \
            any(k in targets and first_param(beh["sig"], beh["sites"][k]["c"]) not in (None, "a")
                for k in range(len(beh["sites"]))):
        key["cause"] = "argument-variable-captured-by-parameter-of-same-name"
        return key
    if r["fails"] == ["InternalError"] and (r.get("exc") or "").startswith("AssertionError") and \
            not opt["remove"] and not any(beh["sites"][k]["m"] == 1 for k in targets):
        key["cause"] = "kept-definition-module-without-inlined-call"
        return key
    key.update({
        "kind": r["kind"], "remove": opt["remove"], "only_current": opt["only"], "use": opt["use"], "cx": opt["cx"],
        "ret": r["dims"]["ret"], "imp": r["dims"]["imp"], "host": r["dims"].get("host"),
        "argvar": r["dims"].get("argvar"), "tmp": r["dims"].get("tmp"), "scopes": r["dims"].get("scopes", False),
        "identical_call_texts": bool(beh.get("twins")),
        "ctx": sorted(set(r["dims"]["ctx"])), "modules": sorted(set(s["m"] for s in beh["sites"])),
        "needs_import_in": sorted(beh.get("imported") or []) if r["dims"].get("imp") else [],
        "at": "def" if r["at"] == "def" else "site",
        "exc": (r.get("exc") or "").split(":")[0] or None,
        "exc_after": d.get("exc_after"),
    })
    return key


def inline_dims(beh, rnd):
    n = len(beh["sites"])
    ctxs = sorted(beh.get("ctxs") or CTXS)
    d = {"ctx": [rnd.choice(ctxs) for _ in range(n)], "variant": [rnd.randrange(2) for _ in range(n)],
            "ret": rnd.random() < 0.5, "imp": rnd.random() < 0.3,
            "use": beh["opt"]["use"], "cx": beh["opt"]["cx"],
            # names: sites inside a host function, a host variable around every site (its own `t`, or the
            # first argument passed through a variable named like the body's temporary / like a parameter)
            "host": rnd.random() < 0.4, "hostvar": False, "argvar": None, "tmp": rnd.random() < 0.4}
    if beh.get("modules"):
        d["imp"] = beh["opt"]["imp"]       # the spec decides whether the body needs an import
    if "hostval" in beh and any("h" in s for s in beh["sites"]) and beh.get("scoped"):
        # scopes come from the spec: one scope per site, host local where the spec says so; textually
        # identical sites (spec's Twins) are rendered with the same call variant and context
        d.update({"scopes": True, "hostval": beh["hostval"], "host": False})
        for i, j in sorted(beh["twins"]):
            d["variant"][j - 1] = d["variant"][i - 1]
            d["ctx"][j - 1] = d["ctx"][i - 1]
        return d
    if rnd.random() < 0.6:
        d["hostvar"] = True
        # arguments through variables only where the spec's defect model predicts no deviation, so that
        # name problems are seen in isolation
        if beh["shownD"] == beh["shown"]:
            d["argvar"] = rnd.choice([None, "t", "a", "q"])
    return d


# ------------------------------------------------------------------ parameter inlining
def run_param(item):
    """InlineParameter = ArgumentDefaultInliner through create_inline on the parameter: the
    inline_default behaviours of Task = "sig", judged exactly as in C06"""
    from bind import c06
    _, beh, kind = item
    pname = beh["sig0"]["ps"][beh["chg"][0]["i"] - 1]["n"]
    r = c06.run_behaviour((beh, kind, ["param", pname]))
    if "machinery" in r:
        return r
    r["part"] = "parameter"
    return r


def param_key(r):
    from bind import c06
    k = c06.key_of(r["beh"], r)
    k["part"] = "parameter"
    return k


# ------------------------------------------------------------------ variable inlining
def run_var(item):
    _, beh, scope = item
    common.use_repo()
    from rope.base import project as project_mod, exceptions
    from rope.refactor import inline as inline_mod

    prog, req = beh["prog"], beh["req"]
    res = {"beh": beh, "scope": scope, "fails": [], "outcome": None, "part": "variable"}
    src = pc.render_var_program(prog, scope)
    r0 = runpy.exec_source(src)
    want0 = pc.var_expected(prog, beh["out0"])
    if r0["exc"] or r0["syntax"] or pc.parse_print_lines(r0["out"]) != want0:
        return {"machinery": "spec vs CPython (PyInline.Exec): exc=%s out=%r want=%r\n%s" % (
            r0["exc"], r0["out"], want0, src), "item": prog}
    root = common.scratch("c04v_")
    try:
        with open(os.path.join(root, "m.py"), "w") as f:
            f.write(src)
        project = project_mod.Project(root, ropefolder=None)
        try:
            line = req["cur"] if req["only"] else beh["def"]
            offset = pc.var_offset(src, prog, line, scope)
            exc = None
            try:
                changes = inline_mod.create_inline(project, project.get_file("m.py"), offset).get_changes(
                    remove=req["remove"], only_current=req["only"])
                project.do(changes)
            except exceptions.RopeError as e:
                res["outcome"] = "refused"
                res["refusal"] = "%s: %s" % (type(e).__name__, str(e)[:120])
                if open(os.path.join(root, "m.py")).read() != src:
                    res["fails"].append("RefusalLeftChanges")
                return res
            except Exception as e:  # noqa
                exc = e
            after = open(os.path.join(root, "m.py")).read()
            res["before"], res["after"] = src, after
            if exc is not None:
                res["outcome"] = "error"
                res["fails"].append("InternalError")
                res["exc"] = "%s: %s" % (type(exc).__name__, str(exc)[:160])
                return res
            res["outcome"] = "changed" if after != src else "noop"
            detail = res.setdefault("detail", {})
            r1 = runpy.exec_source(after)
            if r1["syntax"]:
                res["fails"].append("Parses")
                return res
            got = pc.parse_print_lines(r1["out"])
            want = pc.var_expected(prog, beh["out1"])
            if r1["exc"] or got != want:
                res["fails"].append("ObsPreserved")
                detail.update({"exc_after": r1["exc"], "got": repr(got), "want": repr(want),
                               "matches_unparenthesised_model": (not r1["exc"] and beh["parens"] and
                                                                  got == pc.var_expected(prog, beh["out1D"]))})
            stores, loads = pc.var_uses(after)
            want_loads = len(beh["reads"]) - len(beh["replaced"])
            detail["stores_loads"] = [stores, loads]
            if loads != want_loads:
                res["fails"].append("OnlyTargets")
            if (stores == 0) != bool(req["remove"]):
                res["fails"].append("DefinitionRemovedIffAsked")
            return res
        finally:
            project.close()
    finally:
        common.rmtree(root)


def var_key(r):
    beh, d = r["beh"], r.get("detail", {})
    key = {"part": "variable", "clauses": sorted(r["fails"]), "cause": None}
    if r["fails"] == ["ObsPreserved"] and d.get("matches_unparenthesised_model"):
        key["cause"] = "expression-spliced-without-parentheses"
        return key
    dl = beh["prog"][beh["def"] - 1]
    key.update({"scope": r["scope"], "remove": beh["req"]["remove"], "only_current": beh["req"]["only"],
                "def_expr": dl["e"]["op"], "needs_parens": beh["parens"],
                "exc": (r.get("exc") or "").split(":")[0] or None, "exc_after": d.get("exc_after")})
    return key


def stratified(behs, n, rnd):
    """seeded sample that gives every request class (options x number of sites x modules x body use x
    compound arguments) the same share, so that rare combinations are always replayed"""
    behs.sort(key=lambda b: json.dumps(b, sort_keys=True))
    groups = {}
    for b in behs:
        o = b["opt"]
        g = (o["remove"], o["only"], tuple(s["m"] for s in b["sites"]), o["use"], o["cx"],
             tuple((s.get("h", False), s.get("dup", False)) for s in b["sites"]) if b.get("scoped") else (),
             o.get("imp", False) if b.get("modules") else None)
        groups.setdefault(g, []).append(b)
    for g in groups.values():
        rnd.shuffle(g)
    out = []
    keys = sorted(groups)
    i = 0
    while len(out) < n and any(groups[k] for k in keys):
        k = keys[i % len(keys)]
        if groups[k]:
            out.append(groups[k].pop())
        i += 1
    return out


# ------------------------------------------------------------------ histories of performed inline requests
def run_seq(item):
    """spec/PyInlineSeq.tla: several inline requests performed one after the other (a new refactoring
    object each, same project, same process); the program must print the same after every one"""
    _, beh, forms = item
    common.use_repo()
    from rope.base import project as project_mod, exceptions
    from rope.refactor import inline as inline_mod

    res = {"beh": beh, "forms": forms, "fails": [], "outcome": None, "part": "sequence", "steps": []}
    src = pc.render_chain_program(beh["nfuncs"], beh["names"], forms)
    want = " ".join(str(x) for x in beh["out"]) + "\n"
    r0 = runpy.exec_source(src)
    if r0["exc"] or r0["syntax"] or r0["out"] != want:
        return {"machinery": "spec vs CPython (PyInlineSeq.Exec): %r vs %r\n%s" % (r0["out"], want, src), "item": beh}
    root = common.scratch("pcseq_")
    try:
        with open(os.path.join(root, "m.py"), "w") as f:
            f.write(src)
        project = project_mod.Project(root, ropefolder=None)
        try:
            res["before"] = src
            cur = src
            for step, k in enumerate(beh["hist"], 1):
                try:
                    offset = cur.index("def f%d(" % k) + 4
                    changes = inline_mod.create_inline(project, project.get_file("m.py"), offset).get_changes()
                    project.do(changes)
                except exceptions.RopeError as e:
                    res["steps"].append("refused: %s" % str(e)[:80])
                    if open(os.path.join(root, "m.py")).read() != cur:
                        res["fails"].append("RefusalLeftChanges")
                    break
                except Exception as e:  # noqa
                    res["fails"].append("InternalError")
                    res["exc"] = "%s: %s" % (type(e).__name__, str(e)[:160])
                    res["failed_step"] = step
                    break
                cur = open(os.path.join(root, "m.py")).read()
                res["after"] = cur
                res["steps"].append("changed")
                r1 = runpy.exec_source(cur)
                bad = None
                if r1["syntax"]:
                    bad = "Parses"
                elif r1["exc"] or r1["out"] != want:
                    bad = "ObsPreserved"
                elif ("def f%d(" % k) in cur or ("f%d(" % k) in cur:
                    bad = "NoDanglingCall"
                if bad:
                    res["fails"].append(bad)
                    res["failed_step"] = step
                    res["detail"] = {"got": r1["out"], "exc_after": r1["exc"], "want": want}
                    break
            res["outcome"] = "changed" if "changed" in res["steps"] else ("error" if res["fails"] else "refused")
            if res["outcome"] == "refused":
                res["refusal"] = res["steps"][0] if res["steps"] else "?"
            return res
        finally:
            project.close()
    finally:
        common.rmtree(root)


def seq_key(r):
    beh = r["beh"]
    k = r.get("failed_step")
    clash_hist = [[a, b] for a, b in beh["clashes"]]
    return {"part": "sequence", "clauses": sorted(r["fails"]), "cause": None,
            "failed_request": k, "requests": len(beh["hist"]),
            "earlier_requests_performed": (k or 1) - 1,
            "name_clashes": len(clash_hist), "forms": sorted(set(r["forms"])),
            "exc": (r.get("exc") or "").split(":")[0] or None,
            "exc_after": (r.get("detail") or {}).get("exc_after")}


def tlc_seq(verdict, nfuncs, max_requests, defect=False):
    cfg = os.path.join(common.SCRATCH_BASE, "pcseq_%d_%s.cfg" % (os.getpid(), common.digest([nfuncs, max_requests, defect])))
    tlc.write_cfg(cfg, constants={"NFuncs": nfuncs, "LocalNames": tlc.Sub("MCNames"), "MaxRequests": max_requests,
                                  "PrefixPerRequest": defect},
                  invariants=["NoCapture"] if defect else ["NoCapture", "AllVariablesKept", "Export"])
    behs = []
    res = tlc.run("MC_PyInlineSeq", cfg, on_tagged=lambda t, v: behs.append(v), collect_tags=False, workers=4)
    os.unlink(cfg)
    if not defect:
        print("TLC PyInlineSeq[funcs=%d requests<=%d]:" % (nfuncs, max_requests), res.summary(), "behaviours", len(behs))
        if not res.ok:
            verdict.machinery_failure("TLC: %s %s\n%s" % (res.violated, res.error, (res.trace or res.tail)[-1200:]))
    return res, behs


def run_item(item):
    return {"function": run_inline, "parameter": run_param, "variable": run_var,
            "sequence": run_seq}[item[0]](item)


def tlc_inline(verdict, max_params, max_sites, coverage=False, extra_inv=(), plain=False, scopes=False, modules=False):
    cfg = os.path.join(common.SCRATCH_BASE, "pcinl_%d_%s.cfg" % (os.getpid(), common.digest([max_params, max_sites, extra_inv, plain, scopes, modules])))
    tlc.write_cfg(cfg, constants=inline_constants(max_params, max_sites, plain, scopes, modules),
                  invariants=INL_INVARIANTS + list(extra_inv) + ([] if extra_inv else ["ExportInline"]))
    behs = []
    res = tlc.run("MC_PyCalls", cfg, on_tagged=lambda t, v: behs.append(v), collect_tags=False,
                  coverage=coverage)
    os.unlink(cfg)
    if not extra_inv:
        print("TLC PyCalls[inline params<=%d sites<=%d%s%s]:" % (max_params, max_sites, " plain" if plain else "",
                                                                  (" scopes" if scopes else "") + (" modules" if modules else "")), res.summary(),
              "behaviours", len(behs))
        if not res.ok:
            verdict.machinery_failure("TLC: %s %s\n%s" % (res.violated, res.error, (res.trace or res.tail)[-1200:]))
    return res, behs


def tlc_var(verdict, max_lines, vars_, check_interval=True, invariants=None):
    cfg = os.path.join(common.SCRATCH_BASE, "c04v_%d_%s.cfg" % (os.getpid(), common.digest([max_lines, vars_, check_interval, invariants])))
    export = invariants is None
    tlc.write_cfg(cfg, constants={"MaxLines": max_lines, "Vars": tlc.Sub(vars_), "V": "v",
                                  "CheckInterval": check_interval},
                  invariants=(VAR_INVARIANTS + ["Export"]) if export else invariants)
    behs = []
    res = tlc.run("MC_PyInline", cfg, on_tagged=lambda t, v: behs.append(v), collect_tags=False,
                  coverage=False)
    os.unlink(cfg)
    if export:
        print("TLC PyInline[lines<=%d vars=%s]:" % (max_lines, vars_), res.summary(), "behaviours", len(behs))
        if not res.ok:
            verdict.machinery_failure("TLC: %s %s\n%s" % (res.violated, res.error, (res.trace or res.tail)[-1200:]))
    return res, behs


def main(tier):
    from bind import c06
    timer = common.Timer()
    verdict = common.Verdict(PROP)
    rnd = common.rng("c04")
    runs = []
    quick = tier == "quick"
    # ---- TLC: function inlining
    jobs = [lambda: tlc_inline(verdict, 2, 2),
            # variable inlining
            lambda: tlc_var(verdict, 4, "MCVars2" if quick else "MCVars3"),
            # parameter inlining (inline_default behaviours of the signature task)
            lambda: c06.tlc_export(verdict, "AllKinds", 1, 2 if quick else 3, label="inline-parameter")]
    # scopes and names: every site in its own scope, with / without a clashing live local, repeats of
    # site 1's call text
    jobs.append(lambda: tlc_inline(verdict, 2 if quick else 3, 2, plain=True, scopes=True))
    # more than one importing module, bodies that need an import of the defining module
    jobs.append(lambda: tlc_inline(verdict, 1, 2 if quick else 3, plain=True, modules=True))
    # histories of several performed inline requests
    jobs.append(lambda: tlc_seq(verdict, 3, 2) if quick else tlc_seq(verdict, 4, 3))
    if not quick:
        # wider signatures / more sites with plain bodies (the use x cx product is exhausted above)
        jobs.append(lambda: tlc_inline(verdict, 3, 2, plain=True))
        jobs.append(lambda: tlc_inline(verdict, 2, 3, plain=True))
    got = c06.parallel(jobs)
    (r1, fbehs), (rv, vbehs), (rp, pbehs), (rs, sbehs), (rm_, mbehs), (rq, qbehs) = got[:6]
    runs += [r1, rv, rp, rs, rm_, rq]
    for b in mbehs:
        b["modules"] = True
    if not any(len(b["imported"]) >= 2 for b in mbehs):
        verdict.machinery_failure("no behaviour in which two importing modules need the body's imports")
    if not any(len(b["hist"]) >= 2 and b["clashes"] for b in qbehs):
        verdict.machinery_failure("no history of two performed inline requests with clashing locals")
    for b in sbehs:
        b["scoped"] = True
    if not any(b["twins"] and any(s["h"] for s in b["sites"]) for b in sbehs):
        verdict.machinery_failure("no behaviour with textually identical sites in scopes with different locals")
    if not quick:
        (r2, behs2), (r3, behs3) = got[6], got[7]
        runs += [r2, r3]
        fbehs += [b for b in behs2 if len(b["sig"]["ps"]) == 3]
        fbehs += [b for b in behs3 if len(b["sites"]) == 3]
    pbehs = [c06.canon(b) for b in pbehs if b["chg"][0]["op"] == "inline_default"]
    if verdict.machinery:
        return verdict.finish()
    # vacuity guard: the actions were taken (completed requests were exported)
    if not fbehs or not any(len(b["targets"]) > 1 for b in fbehs):
        verdict.machinery_failure("action InlineCall never taken twice in a behaviour")
    if not vbehs or not pbehs:
        verdict.machinery_failure("InlineVar / InlineDefault never taken")
    # ---- sensitivity of the invariants: the defect / unchecked models must violate them
    sens = {}
    if not quick:
        s0, _ = tlc_inline(verdict, 2, 2, plain=True, scopes=True, extra_inv=["HostLocalsKeptC"])
        sens["body-cached-by-call-text"] = s0.violated
        if s0.violated != "HostLocalsKeptC":
            verdict.machinery_failure("model insensitive: cached bodies satisfy HostLocalsKept (%s %s)" % (
                s0.violated, s0.error))
        sm, _ = tlc_inline(verdict, 1, 2, plain=True, modules=True, extra_inv=["ImportsWhereNeededD"])
        sens["needed-imports-readable-once"] = sm.violated
        if sm.violated != "ImportsWhereNeededD":
            verdict.machinery_failure("model insensitive: one-shot imports satisfy ImportsWhereNeeded (%s %s)" % (
                sm.violated, sm.error))
        sq, _ = tlc_seq(verdict, 3, 2, defect=True)
        sens["prefix-counter-restarts-per-request"] = sq.violated
        if sq.violated != "NoCapture":
            verdict.machinery_failure("model insensitive: per-request prefixes satisfy NoCapture (%s %s)" % (
                sq.violated, sq.error))
        s1, _ = tlc_inline(verdict, 2, 2, extra_inv=["SitesIndependentD"])
        sens["rope-as-modelled(shared map, splice, reassign)"] = s1.violated
        if s1.violated != "SitesIndependentD":
            verdict.machinery_failure("model insensitive: defect model satisfies SitesIndependent (%s %s)" % (
                s1.violated, s1.error))
        s2, _ = tlc_var(verdict, 4, "MCVars2", check_interval=False, invariants=["ObsPreserved"])
        sens["inline-variable-without-interval-check"] = s2.violated
        s3, _ = tlc_var(verdict, 4, "MCVars2", invariants=["ObsPreservedD"])
        sens["inline-variable-unparenthesised"] = s3.violated
        if s2.violated != "ObsPreserved" or s3.violated != "ObsPreservedD":
            verdict.machinery_failure("model insensitive: PyInline %s %s" % (s2.violated, s3.violated))

    def pick(behs, n):
        behs.sort(key=lambda b: json.dumps(b, sort_keys=True))
        rnd.shuffle(behs)
        return behs[:n]
    totals = {"function": len(fbehs), "function_scopes": len(sbehs), "function_modules": len(mbehs),
              "variable": len(vbehs),
              "parameter": len(pbehs), "sequence": len(qbehs)}
    fbehs = (stratified(fbehs, 600 if quick else 30000, rnd) + stratified(sbehs, 400 if quick else 12000, rnd) +
             stratified(mbehs, 250 if quick else 4000, rnd))
    vbehs = pick(vbehs, 1000 if quick else 40000)
    pbehs = pick(pbehs, 60 if quick else 10000)
    items = []
    for b in fbehs:
        kind = rnd.choice(sorted(b["kinds"]))
        dims = inline_dims(b, rnd)
        if b["opt"]["only"]:
            at = b["opt"]["cur"] - 1
        else:
            at = "def" if rnd.random() < 0.5 else rnd.randrange(len(b["sites"]))
        items.append(("function", b, kind, dims, at))
    for b in vbehs:
        items.append(("variable", b, rnd.choice(("module", "function"))))
    for b in pbehs:
        for kind in (sorted(b["kinds"]) if not quick else [rnd.choice(sorted(b["kinds"]))]):
            items.append(("parameter", b, kind))
    qbehs.sort(key=lambda b: json.dumps(b, sort_keys=True))
    for b in qbehs:
        # every history, with the calls written both ways (seeded mix as a third rendering in thorough)
        n = b["nfuncs"]
        variants = [["rhs"] * n, ["nested"] * n]
        if not quick:
            variants.append([rnd.choice(("rhs", "nested")) for _ in range(n)])
        for forms in variants:
            items.append(("sequence", b, forms))
    rnd.shuffle(items)
    parts = ("function", "variable", "parameter", "sequence")
    counts = {p: {"changed": 0, "noop": 0, "refused": 0, "error": 0} for p in parts}
    refusals = {}
    nontrivial = set()
    samples = []
    replayed = 0
    for r in replay.pool_map(run_item, items, chunk=25):
        replayed += 1
        if "machinery" in r:
            verdict.machinery_failure(r["machinery"][:1500])
            continue
        beh, part = r["beh"], r["part"]
        counts[part][r["outcome"]] += 1
        if r["outcome"] == "refused":
            kk = part + ": " + r["refusal"][:70]
            refusals[kk] = refusals.get(kk, 0) + 1
        if r["outcome"] == "changed":
            nontrivial.add(common.digest([part, beh, r.get("kind"), r.get("dims"), r.get("scope")]))
        if r["outcome"] == "changed" and not r["fails"] and sum(1 for x in samples if x["part"] == part) < 2 \
                and replayed % 7 == 0:
            if part == "function":
                samples.append({"part": part, "kind": r["kind"], "signature": pc.sig_text(beh["sig"], r["kind"]),
                                "sites": beh["sites"], "options": beh["opt"], "dims": r["dims"],
                                "after_n": r["after"].get("n.py")})
            elif part == "variable":
                samples.append({"part": part, "request": beh["req"], "before": r["before"], "after": r["after"]})
            elif part == "sequence":
                samples.append({"part": part, "names": beh["names"], "requests": beh["hist"], "after": r["after"]})
            else:
                samples.append({"part": part, "kind": r["kind"], "signature": pc.sig_text(beh["sig0"], r["kind"]),
                                "parameter": r["at"][1], "sites": len(beh["sites"])})
        if r["fails"]:
            if part == "function":
                key = inline_key(r)
                rep = {"kind": r["kind"], "signature": pc.sig_text(beh["sig"], r["kind"]), "sites": beh["sites"],
                       "options": beh["opt"], "dims": r["dims"], "at": r["at"],
                       "before": pc.render_inline_program(r["kind"], beh["sig"], beh["sites"], r["dims"]),
                       "after": r.get("after"), "spec": {k: beh[k] for k in ("shown", "shownD", "shownS", "shownL", "bind", "stale")}}
            elif part == "variable":
                key = var_key(r)
                rep = {"program": beh["prog"], "request": beh["req"], "scope": r["scope"],
                       "before": r.get("before"), "after": r.get("after"),
                       "spec": {k: beh[k] for k in ("out0", "out1", "out1D", "parens")}}
            elif part == "sequence":
                key = seq_key(r)
                rep = {"names": beh["names"], "requests": beh["hist"], "forms": r["forms"], "steps": r["steps"],
                       "before": r.get("before"), "after": r.get("after"), "spec_output": beh["out"]}
            else:
                key = param_key(r)
                rep = {"kind": r["kind"], "signature": pc.sig_text(beh["sig0"], r["kind"]), "changers": beh["chg"],
                       "after": r.get("after")}
            rep.update({"property": PROP, "key": key, "outcome": r["outcome"], "exc": r.get("exc"),
                        "detail": r.get("detail")})
            verdict.failure(key, rep)
    for p in parts:
        n = sum(counts[p].values())
        if n and counts[p]["changed"] < n * 0.3:
            verdict.machinery_failure("vacuous: %s inlining changed only %d of %d (%s; %s)" % (
                p, counts[p]["changed"], n, counts[p], refusals))
    if not samples:
        samples.append({"part": "function", "signature": pc.sig_text(fbehs[0]["sig"], "function"),
                        "sites": fbehs[0]["sites"]})
    code = verdict.finish()
    common.write_evidence(PROP, tier, "model_checking", {
        "states": sum(r.distinct for r in runs), "transitions": sum(r.generated for r in runs),
        "traces_validated_against_impl": replayed,
        "samples": samples,
        "exhaustive": False,
        "behaviours_from_tlc": totals,
        "outcomes": counts,
        "refusals": refusals,
        "distinct_nontrivial": len(nontrivial),
        "rule": "function: one behaviour per completed inline request of the TLC graph (signature x site sequence "
                "x remove/only_current x body use x compound arguments), rendered with seeded kind / site context "
                "/ return / import; variable: one per legal (program, request) of PyInline; parameter: the "
                "inline_default behaviours of PyCalls; non-trivial = rope changed a file",
        "model_sensitivity": sens,
        "tlc": [r.summary() for r in runs],
        "known_finding_hits": verdict.known_hits,
    }, timer.s(), violations=len(verdict.violations), assumptions=[
        "argument values and defaults are integer literals or `h + k` sums; bodies are one print "
        "(+ reassignments, + one return)",
        "remove together with only_current is requested only when there is a single call site / read",
        "variable programs are straight-line (no branches, no augmented assignment, no attribute / subscript reads)",
    ])
    return code


if __name__ == "__main__":
    sys.exit(main(sys.argv[1] if len(sys.argv) > 1 else "quick"))
