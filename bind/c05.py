"""C05 - moving / renaming definitions and modules keeps every importer working.

TLC enumerates spec/PyModules.tla: worlds with a source module (definitions
whose bodies use imported and local names), destinations, packages, and a
client module written statement by statement from the import alphabet (plain,
dotted, aliased, from, star, relative).  For every complete program the spec
lists the legal requests (MoveGlobal, MoveModule, RenameModule, ToPackage;
enabling conditions in Part 4b of the spec), checks on the model that the
reference refactoring keeps the observable (ObsPreserved, MovedSeesItsNames,
ExportsKept, StillWellFormed) and exports, per program, the lines every module
prints when it is the entry and, per request, where every module lives
afterwards and what the moved definition must say of itself.

Each program is rendered to a real project and run under CPython first (spec vs
CPython, exit 2 on disagreement).  Each legal request is then given to rope
(rope.refactor.move.create_move / rename.Rename / topackage.ModuleToPackage),
the changes are performed, and the result is judged: every file compiles,
every module - imported first, under its new dotted name - prints what the
spec says, the moved definition reaches what it reached.  A RopeError refusal
is fine.  Failures are reduced to minimal client programs (cores).
"""
import os
import re
import sys

from engine import common
from bind import _pymodules as pm

PROP = "C05"
ACTIONS = ("MoveGlobal", "MoveModule", "RenameModule", "ToPackage")
INVARIANTS = ["ObsPreserved", "ExportsKept", "StillWellFormed", "MovedSeesItsNames"]
MOVE_NAMES = {"f", "h", "k", "g"}
NEUTRAL_TAGS = ("fromsub", "siblings")


def scopes(tier):
    q = tier == "quick"

    def sc(worlds, forms, imports, uses, stmts, actions, qforms=None, qsize=None, **kw):
        if q:
            forms = qforms or forms
            if qsize:
                imports, uses, stmts = qsize
        # features that only matter to import tidying (C07) are part of the plain fragment here
        kw["features"] = tuple(kw.get("features", ())) + NEUTRAL_TAGS
        return pm.scope(actions, worlds, forms, imports, uses, stmts, DefNames=MOVE_NAMES, **kw)

    mg = ("MoveGlobal",)
    rl = ("MoveModule", "RenameModule", "ToPackage")
    one = (1, 1, 2)
    return [
        ("move", sc("WorldsMove", "import,importas,from,fromas,star", 2, 1, 3, mg, qforms="import,from,star")),
        ("movepkg", sc("WorldsMovePkg", "import,importas,from,fromas,rel", 2, 1, 3, mg, qforms="import,from,rel",
                       qsize=one)),
        ("movesib", sc("WorldsMoveSib", "import", 2, 1, 3, mg, MaxChain=2)),
        ("movepkgrel", sc("WorldsMovePkgRel", "from,rel", 2, 1, 3, mg)),
        ("movedeep", sc("WorldsMoveDeep", "import,from", 2, 1, 3, mg, MaxChain=2)),
        ("relocsame", sc("WorldsRelocSame", "import,importas,from", 1, 1, 2, rl)),
        ("relocdeep", sc("WorldsRelocDeep", "import,from", 1, 1, 2, mg + rl, features=("reloutside",))),
        ("reloc", sc("WorldsReloc", "import,importas,from,fromas,rel", 2, 1, 3, rl, qforms="import,importas,from,fromas,rel",
                     qsize=one)),
        ("relocinit", sc("WorldsRelocInit", "import,importas,from,fromas", 2, 1, 3, rl, qforms="import,from")),
        ("reexport", sc("WorldsMove", "import,from,star", 2, 1, 3, mg, qforms="from,star", qsize=one,
                        features=("reexport",))),
        ("reexportreloc", sc("WorldsReloc", "import,from,fromas,star", 2, 1, 3, rl, qforms="from", qsize=(2, 1, 2),
                             features=("reexport",))),
        ("rootref", sc("WorldsRelocInit", "import,from", 2, 1, 3, rl, qsize=one, features=("rootref",))),
        ("asmoved", sc("WorldsAsMoved", "from,fromas", 2, 1, 3, mg + rl, qforms="fromas", qsize=one,
                       features=("asmoved",))),
        ("assub", sc("WorldsReloc", "from,fromas", 2, 1, 3, rl, qforms="fromas", qsize=one, features=("assub",))),
        ("relmoved", sc("WorldsRelIn", "rel,from", 2, 1, 3, mg + rl, qforms="rel", qsize=one,
                        features=("relmoved",))),
    ]


def quick_limit(name):
    """the quick tier replays every program of at most two statements and, per scope, this many
    larger ones (seeded); the small sibling-name scope is replayed completely"""
    return 1000 if name in ("movesib", "relocdeep", "movedeep", "relocsame", "movepkgrel") else 60


def act_key(act):
    return "%s|%s|%s" % (act["name"], ".".join(act["m"]),
                         act.get("n") and "%s->%s" % (act["n"], ".".join(act["dest"]))
                         or ("->" + ".".join(act.get("new") or act.get("dest") or [])))


def variant(act, prog):
    """a finer class of request for finding keys: what a MoveModule request moves and where to"""
    if act["name"] != "MoveModule":
        return ""
    is_pkg = any(m["m"] == act["m"] and m["pkg"] for m in prog["mods"])
    return ("pkg" if is_pkg else "mod") + ("-to-root" if not act["dest"] else "")


def acts_of(prog, consts, rnd, tier="quick"):
    return [dict(r["act"], layout=r["layout"], probe=r["probe"], variant=variant(r["act"], prog)) for r in
            sorted(prog["requests"], key=lambda r: act_key(r["act"]))]


# ------------------------------------------------------------------ rope
def def_offset(text, name, kind):
    pat = {"fn": r"^def (%s)\(", "cls": r"^class (%s):", "var": r"^(%s) = "}[kind] % re.escape(name)
    m = re.search(pat, text, re.M)
    return m.start(1) if m else None


def apply_request(root, mods, files0, act):
    """Ask rope for the refactoring and perform it.  Returns (status, detail)."""
    from rope.base import project as project_mod, exceptions
    from rope.refactor import move, rename, topackage
    project = project_mod.Project(root, ropefolder=None)
    try:
        by_path = {tuple(m["m"]): m for m in mods}

        def resource_of(path, folder_for_pkg=False):
            m = by_path[tuple(path)]
            if m["pkg"] and folder_for_pkg:
                return project.get_resource(os.path.join(*[pm.rn(x) for x in path]))
            return project.get_resource(pm.file_of(path, m["pkg"]))

        try:
            if act["name"] == "MoveGlobal":
                src = by_path[tuple(act["m"])]
                d = src["body"][act["i"] - 1]
                rel = pm.file_of(act["m"], src["pkg"])
                off = def_offset(files0[rel], pm.rn(d["n"]), d["kind"])
                if off is None:
                    return "machinery", "definition %s not found in %s" % (d["n"], rel)
                mover = move.create_move(project, project.get_resource(rel), off)
                changes = mover.get_changes(resource_of(act["dest"]))
            elif act["name"] == "MoveModule":
                mover = move.create_move(project, resource_of(act["m"], folder_for_pkg=True))
                dest = project.root if not act["dest"] else project.get_resource(
                    os.path.join(*[pm.rn(x) for x in act["dest"]]))
                changes = mover.get_changes(dest)
            elif act["name"] == "RenameModule":
                changes = rename.Rename(project, resource_of(act["m"], folder_for_pkg=True)).get_changes(
                    pm.rn(act["to"]))
            elif act["name"] == "ToPackage":
                changes = topackage.ModuleToPackage(project, resource_of(act["m"])).get_changes()
            else:
                return "machinery", "unknown action %r" % (act["name"],)
            if changes is None:
                return "none", None
            project.do(changes)
        except exceptions.RopeError as e:
            return "refused", "%s: %s" % (type(e).__name__, str(e)[:120])
        except RecursionError:
            raise
        except Exception as e:  # internal error on a legal request
            return "crash", "%s: %s" % (type(e).__name__, str(e)[:200])
        return "changed", None
    finally:
        project.close()


def replay_program(item):
    common.use_repo()
    prog = item["prog"]
    mods = sorted(prog["mods"], key=lambda m: m["m"])
    exp_names = {pm.apath(e["m"]): pm.spec_exports(e) for e in prog["exports"]}
    exp_lines = {pm.apath(o["m"]): pm.spec_lines(o) for o in prog["obs"]}
    exp_err = {pm.apath(o["m"]): o["err"] for o in prog["obs"]}
    want_names = {a: sorted(v) for a, v in exp_names.items()}
    legal = {act_key(r["act"]): dict(r["act"], layout=r["layout"], probe=r["probe"], variant=variant(r["act"], prog))
             for r in prog["requests"]}
    out = {"fails": [], "counts": {}, "machinery": None, "n_actions": 0, "scope": item["scope"],
           "pkey": pm.prog_key(prog), "akeys": [act_key(a) for a in item["acts"]], "sample": None}
    root = common.scratch("c05_")
    try:
        files0 = pm.render_project(root, mods)
        pre = pm.observe(root, mods, want_names, fresh_check=item.get("fresh", False))
        for a in exp_lines:
            got = pre[a]
            if got["lines"] != exp_lines[a] or (got["exc"] or "") != exp_err[a] or pm.heads(got["exports"]) != exp_names[a]:
                out["machinery"] = "spec vs CPython: module %s spec lines=%r err=%r exports=%r, CPython %r; files=%r" % (
                    a, exp_lines[a], exp_err[a], exp_names[a], got, files0)
                return out
        for act in item["acts"]:
            if act_key(act) not in legal:
                # a request of a larger program that is not legal on this smaller one
                out["counts"]["not-legal-here"] = out["counts"].get("not-legal-here", 0) + 1
                continue
            act = legal[act_key(act)]
            out["n_actions"] += 1
            common.rmtree(root)
            pm.write_files(root, files0)
            status, detail = apply_request(root, mods, files0, act)
            if status == "machinery":
                out["machinery"] = detail
                return out
            out["counts"][status] = out["counts"].get(status, 0) + 1
            ba = out.setdefault("by_action", {}).setdefault(act["name"], {})
            ba[status] = ba.get(status, 0) + 1
            fails = []
            files1 = None
            if status == "crash":
                fails.append(("NoInternalError", detail))
            elif status == "changed":
                files1 = pm.read_files(root)
                fails += judge_post(root, act, files1, exp_lines)
            if status == "changed" and out["sample"] is None and item.get("fresh"):
                out["sample"] = {"world": prog["world"], "request": act_key(act),
                                 "files_before": files0, "files_after": files1, "spec_lines": exp_lines,
                                 "verdict": [c for c, _ in fails] or "ok"}
            for clause, detail in fails:
                changed = {rel: files1.get(rel) for rel in sorted(set(files0) | set(files1 or {}))
                           if files0.get(rel) != (files1 or {}).get(rel)} if files1 else None
                out["fails"].append({"clause": clause, "act": {k: v for k, v in act.items() if k != "layout"},
                                     "detail": detail, "before": files0, "after_changed": changed})
        return out
    finally:
        common.rmtree(root)


def judge_post(root, act, files1, exp_lines):
    fails = []
    bad = sorted(rel for rel, text in files1.items() if rel.endswith(".py") and not pm.compiles(text, rel))
    if bad:
        return [("Compiles", bad)]
    layout = sorted(act["layout"], key=lambda l: l["path"])
    want_files = {pm.file_of(l["path"], l["pkg"]) for l in layout}
    if not want_files <= set(files1):
        return [("ModulesInPlace", {"missing": sorted(want_files - set(files1)), "have": sorted(files1)})]
    mods1 = [{"m": l["path"], "pkg": l["pkg"]} for l in layout]
    mids = {pm.apath(l["path"]): pm.apath(l["mid"]) for l in layout}
    probe_names = {}
    for p in act["probe"]:
        probe_names[pm.apath(p["m"])] = [pm.rn(p["n"])]
    post = pm.observe(root, mods1, probe_names, mids=mids)
    bad_obs = {}
    for l in layout:
        a, mid = pm.apath(l["path"]), pm.apath(l["mid"])
        got = post[a]
        if got["lines"] != exp_lines[mid] or got["exc"] is not None:
            bad_obs[mid] = {"now": a, "want": exp_lines[mid], "got": got["lines"], "exc": got["exc"]}
    if bad_obs:
        fails.append(("ObsPreserved", bad_obs))
    for p in act["probe"]:
        a = pm.apath(p["m"])
        want = "D:" + pm.apath(p["id"]) + ("(%s)" % ",".join("D:" + pm.apath(x) for x in p["subs"]) if p["subs"] else "")
        got = post[a]["exports"].get(pm.rn(p["n"])) if post[a]["exc"] is None else "import failed: %s" % post[a]["exc"]
        if got != want:
            fails.append(("MovedSeesItsNames", {"module": a, "want": want, "got": got}))
    return fails


def _move_method_family(tier, verdict):
    """'moving a method to an attribute's class' is decided with spec/PyClass.tla (family "mm")"""
    from bind import _movemethod
    return {"move_method": _movemethod.run(tier, verdict, common.SEED)}


def main(tier):
    return pm.drive(
        PROP, tier, scopes(tier), INVARIANTS, replay_program, acts_of, quick_limit, act_key,
        assumptions=[
            "programs are straight-line module bodies over the statement alphabet of spec/PyModules.tla "
            "(<= 7 modules, <= 2 package levels, client with <= 2 import statements and <= 1 reference)",
            "requests are the legal ones of the spec: destination exists and does not bind the name, no import "
            "cycle arises, the destination's name is free where a client has to spell it, ...",
            "a module's observable is what its own statements print when it is imported first",
            "no namespace packages, conditional imports, sys.path manipulation",
        ],
        rule="one request = (program enumerated by TLC, legal move/rename request of the spec); non-trivial "
             "program = rope changed the project for at least one request",
        env_prefix="C05", small_all=lambda name: True, neutral_tags=NEUTRAL_TAGS,
        extra=_move_method_family)


if __name__ == "__main__":
    sys.exit(main(sys.argv[1] if len(sys.argv) > 1 else "quick"))
