"""C07 - import tidying never changes what a name means, and is idempotent.

TLC enumerates spec/PyModules.tla: for every world (package layout with fixed
library modules) every body of the module under tidying that can be written
from the statement alphabet, checks on the model that the reference tidying
operators keep the observable (ObsPreserved, OnlyImportsChange, Idempotent,
ExportsKept) and exports one record per complete program with the spec's
prediction: the lines every module prints when it is the entry, and the names
each module exports.

Every exported program is rendered to a real project.  CPython is run first
(spec vs CPython, exit 2 on disagreement); then each tidying action of
rope.refactor.importutils.ImportOrganizer is applied under each preference
set, the project is run again, and the clauses are judged on what is observed.
"""
import json
import os
import sys

from engine import common, tlc, replay
from bind import _pymodules as pm

PROP = "C07"

ROPE_CALL = {
    "Organize": "organize_imports",
    "ExpandStar": "expand_star_imports",
    "FromsToImports": "froms_to_imports",
    "RelToAbs": "relatives_to_absolutes",
    "LongImports": "handle_long_imports",
}
PREF_KEYS = (("split", "split_imports"), ("top", "pull_imports_to_top"), ("alpha", "sort_imports_alphabetically"))

INVARIANTS = ["ObsPreserved", "OnlyImportsChange", "Idempotent", "ExportsKept", "StillWellFormed"]


def base_constants():
    return {
        "Worlds": tlc.Sub("MCWorlds"),
        "DefNames": {"f", "g", "_h"},
        "Private": {"_h"},
        "OwnDefs": {"h"},
        "ImpAlias": "x",
        "FromAlias": "y",
        "Forms": {"import", "from", "star"},
        "Features": set(),
        "MaxImports": 2,
        "MaxUses": 1,
        "MaxStmts": 3,
        "MaxChain": 3,
        "FnFlags": {False},
        "Rank": tlc.Sub("MCRank"),
        "LongDepth": 3,
        "Actions": set(ROPE_CALL),
        "PrefSets": tlc.Sub("DefaultPrefs"),
    }


def scope(worlds, forms, imports, uses, stmts, owndefs=(), features=(), **over):
    c = base_constants()
    c.update({"Worlds": tlc.Sub(worlds), "Forms": set(forms.split(",")), "MaxImports": imports,
              "MaxUses": uses, "MaxStmts": stmts, "OwnDefs": set(owndefs), "Features": set(features)})
    c.update(over)
    return c


def scopes(tier):
    """list of (scope name, constants): each is one exhaustive TLC run.
    Upper-case scopes are the plain fragment (no feature of Tags in spec/PyModules.tla); a
    lower-case scope adds exactly one feature."""
    both = {"FnFlags": {False, True}}
    return [
        ("A", scope("WorldsFlat", "import,importas,from,fromas,star", 2, 2, 4)),
        ("B", scope("WorldsFlat", "from,from2,import2,all", 2, 1, 4, owndefs=("h",))),
        ("C", scope("WorldsFlat", "import,from,star", 3, 1, 4, **both)),
        ("E", scope("WorldsPkg", "import,importas,from,rel,relstar", 2, 1, 3)),
        ("F", scope("WorldsInit", "rel,relstar,from,all", 2, 1, 3)),
        ("G", scope("WorldsDeep", "import,importas,from,rel", 2, 2, 4)),
        ("late", scope("WorldsFlat", "import,importas,from,fromas,star", 2, 2, 4, features=("late",))),
        ("future", scope("WorldsFlat", "import,from,future", 2, 1, 4, features=("future",))),
        ("rebind", scope("WorldsFlat", "importas,from,fromas,star", 2, 1, 3, features=("rebind",))),
        ("twopaths", scope("WorldsFlat", "import,importas,from,fromas", 2, 2, 4, features=("twopaths",))),
        ("starplus", scope("WorldsFlat", "import,from,star", 2, 2, 4, features=("starplus",))),
        ("starall", scope("WorldsFlat", "from,star", 2, 1, 3, features=("starall",))),
        ("allimport", scope("WorldsFlat", "import,from,from2,all", 2, 1, 4, features=("allimport",))),
        ("reexport", scope("WorldsReexp", "import,from,fromas,star,all", 2, 1, 3, features=("reexport",))),
        ("reexportinit", scope("WorldsInit", "rel,relstar,from,all", 2, 1, 3, features=("reexport",))),
        ("initsub", scope("WorldsInit", "rel,from", 2, 1, 3, features=("initsub",))),
    ]


QUICK_PER_SCOPE = {"A": 300, "B": 300, "C": 300, "E": 300, "F": 200, "G": 300}
QUICK_FEATURE_SCOPE = 100


# ------------------------------------------------------------------ replay
def apply_action(root, target_file, action, prefs):
    """Apply one tidying action with a fresh rope project. Returns (status, detail)."""
    from rope.base import project as project_mod, exceptions
    from rope.refactor.importutils import ImportOrganizer
    project = project_mod.Project(root, ropefolder=None)
    try:
        for k, rk in PREF_KEYS:
            project.prefs[rk] = bool(prefs[k])
        res = project.get_resource(target_file)
        try:
            changes = getattr(ImportOrganizer(project), ROPE_CALL[action])(res)
        except exceptions.RopeError as e:
            return "refused", type(e).__name__
        except RecursionError:
            raise
        except Exception as e:  # internal error on a legal request
            return "crash", "%s: %s" % (type(e).__name__, str(e)[:200])
        if changes is None:
            return "none", None
        try:
            project.do(changes)
        except exceptions.RopeError as e:
            return "refused", type(e).__name__
        return "changed", None
    finally:
        project.close()


def replay_program(item):
    """One exported program: cross-check the spec's prediction with CPython, then judge
    every tidying action x preference set on the real rope."""
    common.use_repo()
    prog = item["prog"]
    mods = sorted(prog["mods"], key=lambda m: m["m"])
    exp_names = {pm.apath(e["m"]): pm.spec_exports(e) for e in prog["exports"]}
    exp_lines = {pm.apath(o["m"]): pm.spec_lines(o) for o in prog["obs"]}
    exp_err = {pm.apath(o["m"]): o["err"] for o in prog["obs"]}
    want_names = {a: sorted(v) for a, v in exp_names.items()}
    out = {"fails": [], "counts": {}, "machinery": None, "n_actions": 0, "scope": item["scope"],
           "pkey": prog_key(prog), "akeys": [act_key(a) for a in item["acts"]], "sample": None}
    root = common.scratch("c07_")
    try:
        files0 = pm.render_project(root, mods)
        pre = pm.observe(root, mods, want_names, fresh_check=item.get("fresh", False))
        for a in exp_lines:
            got = pre[a]
            if got["lines"] != exp_lines[a] or (got["exc"] or "") != exp_err[a] or got["exports"] != exp_names[a]:
                out["machinery"] = "spec vs CPython: module %s spec lines=%r err=%r exports=%r, CPython %r; files=%r" % (
                    a, exp_lines[a], exp_err[a], exp_names[a], got, files0)
                return out
        for act in item["acts"]:
            out["n_actions"] += 1
            target = act["m"]
            tmod = [m for m in mods if m["m"] == target][0]
            tfile = pm.file_of(target, tmod["pkg"])
            common.rmtree(root)
            os.mkdir(root)
            pm.write_files(root, files0)
            status, detail = apply_action(root, tfile, act["name"], act["prefs"])
            out["counts"][status] = out["counts"].get(status, 0) + 1
            fails = []
            files1 = None
            if status == "crash":
                fails.append(("NoInternalError", detail))
            elif status == "changed":
                files1 = pm.read_files(root)
                fails += judge_post(root, mods, files0, files1, tfile, exp_lines, exp_names, want_names)
            if status in ("changed", "none") and not fails:
                # second application on the result
                st2, det2 = apply_action(root, tfile, act["name"], act["prefs"])
                if st2 == "changed":
                    files2 = pm.read_files(root)
                    base = files1 or files0
                    same = all(files2.get(rel) == base.get(rel) for rel in set(base) | set(files2) if rel != tfile)
                    # "changes nothing" is judged up to layout: blank lines and the mutual order of
                    # import statements (rope sorts a set of statements with a key that can tie)
                    if not same or pm.normal_form(files2.get(tfile, "")) != pm.normal_form(base.get(tfile, "")):
                        fails.append(("Idempotent", {"second": files2.get(tfile)}))
                elif st2 == "crash":
                    fails.append(("Idempotent", "second application: " + str(det2)))
            if status == "changed" and out["sample"] is None and item.get("fresh"):
                out["sample"] = {"world": prog["world"], "request": act_key(act), "before": files0.get(tfile),
                                 "after": files1.get(tfile), "spec_lines": exp_lines, "verdict": [c for c, _ in fails] or "ok"}
            for clause, detail in fails:
                out["fails"].append({"clause": clause, "act": act, "detail": detail,
                                     "before": files0.get(tfile), "after": (files1 or {}).get(tfile)})
        return out
    finally:
        common.rmtree(root)


def judge_post(root, mods, files0, files1, tfile, exp_lines, exp_names, want_names):
    fails = []
    # only the tidied module may change, and only in its imports / forced references
    for rel in set(files0) | set(files1):
        if rel != tfile and files0.get(rel) != files1.get(rel):
            fails.append(("OnlyImportsChange", {"other file changed": rel}))
    if not pm.compiles(files1[tfile]):
        fails.append(("Compiles", None))
        return fails
    if pm.skeleton(files0[tfile]) != pm.skeleton(files1[tfile]):
        fails.append(("OnlyImportsChange", "non-import statements differ"))
    post = pm.observe(root, mods, want_names)
    bad_obs = {a: post[a] for a in exp_lines
               if post[a]["lines"] != exp_lines[a] or post[a]["exc"] is not None}
    if bad_obs:
        fails.append(("ObsPreserved", {a: {"want": exp_lines[a], "got": v["lines"], "exc": v["exc"]}
                                       for a, v in bad_obs.items()}))
    bad_exp = {a: post[a]["exports"] for a in exp_names
               if post[a]["exc"] is None and post[a]["exports"] != exp_names[a]}
    if bad_exp:
        fails.append(("ExportsKept", {a: {"want": exp_names[a], "got": v} for a, v in bad_exp.items()}))
    return fails


# ------------------------------------------------------------------ cores
def prog_key(prog):
    """identity of a program inside one scope: world + bodies of the modules TLC wrote"""
    opened = sorted(prog["open"])
    bodies = [[m["body"] for m in prog["mods"] if m["m"] == o][0] for o in opened]
    return common.digest([prog["world"], opened, bodies])


def act_key(act):
    p = act["prefs"]
    return "%s|%s|split=%d,top=%d,alpha=%d" % (act["name"], ".".join(act["m"]), p["split"], p["top"], p["alpha"])


def sub_bodies(body):
    """every proper sub-sequence of a statement list"""
    n = len(body)
    for mask in range((1 << n) - 1):
        yield [body[i] for i in range(n) if mask >> i & 1]


def sub_keys(prog):
    """keys of all programs obtained by deleting statements of the written modules"""
    opened = sorted(prog["open"])
    bodies = [[m["body"] for m in prog["mods"] if m["m"] == o][0] for o in opened]
    if len(opened) != 1:
        # product over the written modules
        import itertools
        alls = [list(sub_bodies(b)) + [b] for b in bodies]
        for combo in itertools.product(*alls):
            if list(combo) != bodies:
                yield common.digest([prog["world"], opened, list(combo)])
        return
    for sb in sub_bodies(bodies[0]):
        yield common.digest([prog["world"], opened, [sb]])


def size_of(prog):
    return sum(len(m["body"]) for m in prog["mods"] if m["m"] in prog["open"])


def shape(prog, act):
    """the written modules of a (minimal failing) program with every name replaced by its order of
    first appearance: the class of input a finding is matched by"""
    names = {}

    def t(n):
        if n == "*":
            return "*"
        if n not in names:
            names[n] = "n%d" % (len(names) + 1)
        return names[n]

    def path(p):
        return ".".join(t(x) for x in p)

    def stmt(s):
        k = s["k"]
        if k == "import":
            return "import " + ", ".join(path(i["path"]) + (" as " + t(i["as"]) if i["as"] else "") for i in s["items"])
        if k == "from":
            return "from %s%s import %s" % ("." * s["level"], path(s["path"]), ", ".join(
                t(i["n"]) + (" as " + t(i["as"]) if i["as"] else "") for i in s["items"]))
        if k == "future":
            return "future"
        if k == "def":
            return "def " + t(s["n"])
        if k == "all":
            return "__all__=[%s]" % ",".join(t(n) for n in s["names"])
        if k == "use":
            return ("usefn " if s["fn"] else "use ") + path(s["e"])
        raise ValueError(s)

    parts = []
    for o in sorted(prog["open"]):
        body = [m["body"] for m in prog["mods"] if m["m"] == o][0]
        tag = "tidied" if o == act["m"] else "other"
        parts.append("%s{%s}" % (tag, "; ".join(stmt(s) for s in body)))
    return prog["world"] + ":" + " ".join(parts)


# ------------------------------------------------------------------ driver
ALL_PREFS = [{"split": bool(a), "top": bool(b), "alpha": bool(c)} for a in (0, 1) for b in (0, 1) for c in (0, 1)]
DEFAULT_PREFS = {"split": False, "top": True, "alpha": False}


def run_scope(name, consts, coverage=False, workers=4):
    cfg = os.path.join(common.SCRATCH_BASE, "c07_%s_%d.cfg" % (name, os.getpid()))
    tlc.write_cfg(cfg, constants=consts, invariants=INVARIANTS + ["Export"])
    progs = []
    res = tlc.run("MC_PyModules", cfg, on_tagged=lambda t, v: progs.append(v), collect_tags=False,
                  coverage=coverage, workers=workers, java_opts=("-Xmx4g",))
    os.unlink(cfg)
    return name, res, progs


def acts_of(prog, consts, rnd, tier):
    """the requests tried on one program: every action under the default preferences, organize
    under all eight preference sets, the other actions without pull_imports_to_top, and one
    seeded random preference set for every action"""
    acts = []
    for m in sorted(prog["tidy"]):
        for name in sorted(consts["Actions"]):
            prefsets = [DEFAULT_PREFS]
            if name == "Organize":
                prefsets = ALL_PREFS
            else:
                prefsets = [DEFAULT_PREFS, dict(DEFAULT_PREFS, top=False), rnd.choice(ALL_PREFS)]
            seen = set()
            for prefs in prefsets:
                k = json.dumps(prefs, sort_keys=True)
                if k not in seen:
                    seen.add(k)
                    acts.append({"name": name, "m": m, "prefs": prefs})
    return acts


def main(tier):
    timer = common.Timer()
    verdict = common.Verdict(PROP)
    rnd = common.rng("c07")
    only = set(filter(None, os.environ.get("C07_SCOPES", "").split(",")))
    todo = [(n, c) for n, c in scopes(tier) if not only or n in only]
    # ---- TLC, scopes side by side
    from concurrent.futures import ThreadPoolExecutor
    index = {}        # (scope, prog key) -> program
    items = []
    tlc_stats = {}
    states = transitions = 0
    exhaustive = True
    with ThreadPoolExecutor(max_workers=4) as ex:
        futs = [ex.submit(run_scope, n, c, False, 4) for n, c in todo]
        for fut, (n, c) in zip(futs, todo):
            name, res, progs = fut.result()
            print("TLC PyModules[%s]:" % name, res.summary(), "programs:", len(progs))
            tlc_stats[name] = dict(res.summary(), programs=len(progs))
            states += res.distinct
            transitions += res.generated
            if not res.ok:
                if res.violated:
                    verdict.machinery_failure("TLC: clause %s fails on the reference refactoring of the model "
                                              "(scope %s)\n%s" % (res.violated, name, res.trace[-3000:]))
                else:
                    verdict.machinery_failure("TLC[%s]: %s\n%s" % (name, res.error, res.tail[-2000:]))
                continue
            progs.sort(key=lambda p: json.dumps(p, sort_keys=True))
            for p in progs:
                index[(name, prog_key(p))] = p
            limit = QUICK_PER_SCOPE.get(name, QUICK_FEATURE_SCOPE) if tier == "quick" else None
            if os.environ.get("C07_LIMIT"):
                limit = int(os.environ["C07_LIMIT"])
            chosen = progs
            if limit is not None and len(progs) > limit:
                exhaustive = False
                # small programs always (they are the cores), a seeded sample of the rest
                small = [p for p in progs if size_of(p) <= 2]
                rest = [p for p in progs if size_of(p) > 2]
                rnd.shuffle(rest)
                chosen = small + rest[:max(0, limit - len(small))]
            for i, p in enumerate(chosen):
                items.append({"prog": p, "acts": acts_of(p, c, rnd, tier), "scope": name, "fresh": i % 97 == 0})
    print("TLC done", round(timer.s(), 1), "s; programs to replay:", len(items))

    # ---- replay, then close the failures under deletion of statements
    failing = {}      # (scope, pkey, akey) -> {clause: failure record}
    done = set()      # (scope, pkey, akey) replayed
    counts = {}
    nacts = 0
    nprogs = 0
    changed_progs = set()
    samples = []
    rounds = 0
    while items and rounds < 8:
        rounds += 1
        for r in replay.pool_map(replay_program, items, chunk=25):
            if r.get("machinery"):
                verdict.machinery_failure(str(r["machinery"])[:1500])
                continue
            nprogs += 1
            nacts += r["n_actions"]
            for k, v in r["counts"].items():
                counts[k] = counts.get(k, 0) + v
            if r["counts"].get("changed"):
                changed_progs.add((r["scope"], r["pkey"]))
            for ak in r["akeys"]:
                done.add((r["scope"], r["pkey"], ak))
            for f in r["fails"]:
                failing.setdefault((r["scope"], r["pkey"], act_key(f["act"])), {})[f["clause"]] = f
            if r.get("sample") and len(samples) < 5:
                samples.append(r["sample"])
        # sub-programs of failing programs that have not been tried with that request
        need = {}
        for (scope, pkey, akey), fl in failing.items():
            prog = index[(scope, pkey)]
            act = list(fl.values())[0]["act"]
            for sk in sub_keys(prog):
                if (scope, sk) in index and (scope, sk, akey) not in done:
                    need.setdefault((scope, sk), {})[akey] = act
        items = [{"prog": index[k], "acts": list(acts.values()), "scope": k[0], "fresh": False}
                 for k, acts in sorted(need.items())]
        if items:
            print("round %d: %d sub-programs of failing programs to replay" % (rounds, len(items)))

    # ---- cores: minimal failing programs; each distinct core is one reported case
    cores = {}
    for (scope, pkey, akey), fl in failing.items():
        prog = index[(scope, pkey)]
        subs = [sk for sk in sub_keys(prog) if (scope, sk) in index]
        for clause, f in fl.items():
            if any(clause in failing.get((scope, sk, akey), {}) for sk in subs):
                continue
            key = {"clause": clause, "action": f["act"]["name"], "tags": ",".join(sorted(prog["tags"])),
                   "core": shape(prog, f["act"]), "prefs": akey.split("|")[2]}
            cores.setdefault(json.dumps(key, sort_keys=True), (key, f, prog, scope))
    by_class = {}
    for ks, (key, f, prog, scope) in sorted(cores.items()):
        how = verdict.failure(key, {"property": PROP, "key": key, "scope": scope, "program": prog,
                                    "request": f["act"], "module_before": f["before"], "module_after": f["after"],
                                    "detail": f["detail"]})
        by_class.setdefault((how, key["clause"], key["action"], key["core"]), []).append((key, f))
    if os.environ.get("C07_DUMP"):
        with open(os.environ["C07_DUMP"], "w") as fh:
            json.dump([{"key": key, "before": f["before"], "after": f["after"], "detail": f["detail"],
                        "prog": prog, "scope": scope, "act": f["act"]} for key, f, prog, scope in cores.values()], fh)
    if os.environ.get("C07_SHOW"):
        for (how, clause, action, core), lst in sorted(by_class.items()):
            key, f = lst[0]
            print("%-9s %-18s %-15s %s  [%s]" % (how, clause, action, core, " ".join(k["prefs"] for k, _ in lst)))
            print("      before: %r\n      after:  %r\n      detail: %s" % (f["before"], f["after"],
                                                                           json.dumps(f["detail"])[:300]))
    nfailing = len(failing)
    print("replayed programs %d, requests %d %s; failing requests %d -> %d minimal cores; wall %.1fs" % (
        nprogs, nacts, counts, nfailing, len(cores), timer.s()))
    if nacts and counts.get("changed", 0) < nacts * 0.05:
        verdict.machinery_failure("vacuous: rope changed the module in only %d of %d requests" % (
            counts.get("changed", 0), nacts))
    for msg in verdict.machinery[:5]:
        print("MACHINERY:", msg[:1200])
    code = verdict.finish()
    if verdict.machinery and code != 2:
        print("MACHINERY-FAILURE property=%s (%d problems, first shown above)" % (PROP, len(verdict.machinery)))
        code = 2
    common.write_evidence(PROP, tier, "model_checking", {
        "states": states, "transitions": transitions,
        "traces_validated_against_impl": nacts,
        "programs_replayed": nprogs,
        "samples": samples,
        "exhaustive": exhaustive and tier == "thorough",
        "distinct_nontrivial": len(changed_progs),
        "rule": "one request = (program enumerated by TLC, tidying action, preference set); non-trivial program = "
                "rope changed the module for at least one request",
        "requests_by_outcome": counts,
        "failing_requests": nfailing, "minimal_cores": len(cores),
        "tlc": tlc_stats,
        "known_finding_hits": verdict.known_hits,
    }, timer.s(), violations=len(verdict.violations), assumptions=[
        "programs are straight-line module bodies over the statement alphabet of spec/PyModules.tla",
        "a module's observable is what its own statements print when it is imported first",
        "no namespace packages, conditional imports, sys.path manipulation",
    ])
    return code


if __name__ == "__main__":
    sys.exit(main(sys.argv[1] if len(sys.argv) > 1 else "quick"))
