"""C07 - import tidying never changes what a name means, and is idempotent.

TLC enumerates spec/PyModules.tla: for every world (package layout with fixed
library modules) every body of the module under tidying that can be written
from the statement alphabet.  On the model it checks that the reference
tidying operators keep the observable (ObsPreserved, OnlyImportsChange,
Idempotent, ExportsKept, StillWellFormed), and it exports one record per
complete program with the spec's predictions: the lines every module prints
when it is the entry, the names each module exports, the feature tags.

Every exported program is rendered to a real project.  CPython is run first
(spec vs CPython, exit 2 on disagreement); then each tidying action of
rope.refactor.importutils.ImportOrganizer is applied under several preference
sets, the project is run again, the action is applied a second time, and the
clauses are judged on what is observed.  A failing request is reduced to the
minimal failing programs TLC also enumerated (cores); a core is reported unless
a known finding lists its clause, action and feature tag.
"""
import sys

from engine import common
from bind import _pymodules as pm

PROP = "C07"

ROPE_CALL = {
    "Organize": "organize_imports",
    "ExpandStar": "expand_star_imports",
    "FromsToImports": "froms_to_imports",
    "RelToAbs": "relatives_to_absolutes",
    "LongImports": "handle_long_imports",
}
PREF_KEYS = (("split", "split_imports"), ("top", "pull_imports_to_top"), ("alpha", "sort_imports_alphabetically"))
INVARIANTS = ["ObsPreserved", "OnlyImportsChange", "Idempotent", "ExportsKept", "StillWellFormed"]
ALL_PREFS = [{"split": bool(a), "top": bool(b), "alpha": bool(c)} for a in (0, 1) for b in (0, 1) for c in (0, 1)]
DEFAULT_PREFS = {"split": False, "top": True, "alpha": False}


def scopes(tier):
    """[(scope name, constants)]: each is one exhaustive TLC run.  Upper-case scopes are the plain
    fragment (none of the features of `Tags` in spec/PyModules.tla); a lower-case scope admits
    exactly one feature.  The quick tier uses the same scopes with one statement less."""
    q = tier == "quick"

    def sc(worlds, forms, imports, uses, stmts, qforms=None, **kw):
        if q:
            forms = qforms or forms
            uses, stmts = min(uses, 1), min(stmts, 3)
            if kw.get("features") == ("twopaths",):
                uses, stmts = 2, 4
            if not kw.pop("keep_fn", False):
                kw.pop("FnFlags", None)
        kw.pop("keep_fn", None)
        return pm.scope(ROPE_CALL, worlds, forms, imports, uses, stmts, **kw)

    both = {False, True}
    return [
        ("A", sc("WorldsFlat", "import,importas,from,fromas,star", 2, 2, 4)),
        ("B", sc("WorldsFlat", "from,from2,import2,all", 2, 1, 4, owndefs=("h",))),
        ("C", sc("WorldsFlat", "import,from,star", 3 if not q else 2, 1, 4, FnFlags=both, keep_fn=True)),
        # three package levels, relative imports of level 1..3
        ("H", sc("WorldsDeep3", "from,rel", 2, 1, 3, MaxChain=2)),
        ("E", sc("WorldsPkg", "import,importas,from,rel,rel2,relstar", 2, 1, 3, qforms="import,from,rel,rel2,relstar")),
        ("F", sc("WorldsInit", "rel,relstar,from,all", 2, 1, 3, qforms="rel,all")),
        ("G", sc("WorldsDeep", "import,importas,from,rel", 2, 2, 4, qforms="import,importas,rel")),
        # module names that are textual prefixes of one another (module_bb / module_bb2); small, replayed fully
        ("S", sc("WorldsSib", "import,importas,from", 2, 1, 3)),
        # ... with references at top level and inside function bodies (a submodule import may be needed only there)
        ("siblingnames", sc("WorldsPkgSib", "import,importas", 2, 1, 3, features=("siblings",), FnFlags=both,
                            keep_fn=True)),
        ("late", sc("WorldsFlat", "import,importas,from,fromas,star", 2, 2, 4, qforms="import,from",
                    features=("late",))),
        ("future", sc("WorldsFlat", "import,from,future", 2, 1, 4, features=("future",))),
        ("rebind", sc("WorldsFlat", "importas,from,fromas,star", 2, 1, 3, qforms="from,star", features=("rebind",))),
        ("twopaths", sc("WorldsFlat", "import,importas,from,fromas", 2, 2, 4, qforms="import,importas,from",
                        features=("twopaths",))),
        ("starplus", sc("WorldsFlat", "import,from,star", 2, 2, 4, features=("starplus",))),
        ("starall", sc("WorldsFlat", "from,star", 2, 1, 3, features=("starall",))),
        ("allimport", sc("WorldsFlat", "import,from,from2,all", 2, 1, 4, qforms="from,all", features=("allimport",))),
        ("reexport", sc("WorldsReexp", "import,from,fromas,star,all", 2, 1, 3, qforms="from,star",
                        features=("reexport",))),
        ("reexportinit", sc("WorldsInit", "rel,relstar,from,all", 2, 1, 3, qforms="rel,relstar",
                            features=("reexport",))),
        ("initsub", sc("WorldsInit", "rel,from", 2, 1, 3, qforms="rel", features=("initsub",))),
        ("fromsub", sc("WorldsPkgDeepIn", "import,from,rel", 2, 1, 3, qforms="rel", features=("fromsub",))),
        ("siblings", sc("WorldsPkgDeep", "import,importas", 2, 2, 4, qforms="import", features=("siblings",),
                        FnFlags=both)),
    ]


def quick_limit(name):
    """the quick tier replays, in a plain scope, every program of at most two statements and this many
    larger ones (seeded); in a feature scope the programs that have the feature (smallest first, see
    _pymodules.TAGGED_CAP) and this many others"""
    if name in ("S", "siblingnames"):
        return 2000
    return 90 if name.isupper() else 25


def act_key(act):
    p = act["prefs"]
    return "%s|%s|split=%d,top=%d,alpha=%d" % (act["name"], ".".join(act["m"]), p["split"], p["top"], p["alpha"])


def acts_of(prog, consts, rnd, tier="quick"):
    """the requests tried on one program.  quick: every action under the default preferences and
    without pull_imports_to_top, organize under two more seeded preference sets, one seeded random
    (action, preference set).  thorough (independent of the seed): every action with and without
    pull_imports_to_top, organize under all eight preference sets, handle_long_imports (which
    organizes without sorting) under the four without sort_imports_alphabetically."""
    acts = {}

    def add(name, m, prefs):
        a = {"name": name, "m": m, "prefs": dict(prefs)}
        acts.setdefault(act_key(a), a)

    names = sorted(consts["Actions"])
    for m in sorted(prog["tidy"]):
        for name in names:
            add(name, m, DEFAULT_PREFS)
            add(name, m, dict(DEFAULT_PREFS, top=False))
        if tier == "quick":
            for prefs in rnd.sample(ALL_PREFS, 2):
                add("Organize", m, prefs)
            add(rnd.choice(names), m, rnd.choice(ALL_PREFS))
        else:
            for prefs in ALL_PREFS:
                add("Organize", m, prefs)
                if not prefs["alpha"]:
                    add("LongImports", m, prefs)
    return list(acts.values())


# ------------------------------------------------------------------ replay
def apply_action(root, target_file, action, prefs):
    """Apply one tidying action with a fresh rope project. Returns (status, detail)."""
    from rope.base import project as project_mod, exceptions
    from rope.refactor.importutils import ImportOrganizer
    project = project_mod.Project(root, ropefolder=None)
    try:
        for k, rk in PREF_KEYS:
            project.prefs[rk] = bool(prefs[k])
        res = project.get_resource(target_file)
        try:
            changes = getattr(ImportOrganizer(project), ROPE_CALL[action])(res)
        except exceptions.RopeError as e:
            return "refused", type(e).__name__
        except RecursionError:
            raise
        except Exception as e:  # internal error on a legal request
            return "crash", "%s: %s" % (type(e).__name__, str(e)[:200])
        if changes is None:
            return "none", None
        try:
            project.do(changes)
        except exceptions.RopeError as e:
            return "refused", type(e).__name__
        return "changed", None
    finally:
        project.close()


def replay_program(item):
    """One exported program: cross-check the spec's prediction with CPython, then judge every
    requested tidying action x preference set on the real rope."""
    common.use_repo()
    prog = item["prog"]
    mods = sorted(prog["mods"], key=lambda m: m["m"])
    exp_names = {pm.apath(e["m"]): pm.spec_exports(e) for e in prog["exports"]}
    exp_lines = {pm.apath(o["m"]): pm.spec_lines(o) for o in prog["obs"]}
    exp_err = {pm.apath(o["m"]): o["err"] for o in prog["obs"]}
    want_names = {a: sorted(v) for a, v in exp_names.items()}
    out = {"fails": [], "counts": {}, "machinery": None, "n_actions": 0, "scope": item["scope"],
           "pkey": pm.prog_key(prog), "akeys": [act_key(a) for a in item["acts"]], "sample": None}
    root = common.scratch("c07_")
    try:
        files0 = pm.render_project(root, mods)
        pre = pm.observe(root, mods, want_names, fresh_check=item.get("fresh", False))
        for a in exp_lines:
            got = pre[a]
            if got["lines"] != exp_lines[a] or (got["exc"] or "") != exp_err[a] or pm.heads(got["exports"]) != exp_names[a]:
                out["machinery"] = "spec vs CPython: module %s spec lines=%r err=%r exports=%r, CPython %r; files=%r" % (
                    a, exp_lines[a], exp_err[a], exp_names[a], got, files0)
                return out
        memo = {}
        for act in item["acts"]:
            out["n_actions"] += 1
            target = act["m"]
            tmod = [m for m in mods if m["m"] == target][0]
            tfile = pm.file_of(target, tmod["pkg"])
            common.rmtree(root)
            pm.write_files(root, files0)
            status, detail = apply_action(root, tfile, act["name"], act["prefs"])
            out["counts"][status] = out["counts"].get(status, 0) + 1
            ba = out.setdefault("by_action", {}).setdefault(act["name"], {})
            ba[status] = ba.get(status, 0) + 1
            fails = []
            files1 = None
            if status == "crash":
                fails.append(("NoInternalError", detail))
            elif status == "changed":
                files1 = pm.read_files(root)
                mk = tuple(sorted(files1.items()))
                if mk not in memo:
                    memo[mk] = judge_post(root, mods, files0, files1, tfile, exp_lines, exp_names, want_names)
                fails += memo[mk]
            if status == "changed" and not fails:
                # second application, on the result of the first
                st2, det2 = apply_action(root, tfile, act["name"], act["prefs"])
                if st2 == "changed":
                    files2 = pm.read_files(root)
                    same = all(files2.get(rel) == files1.get(rel) for rel in set(files1) | set(files2) if rel != tfile)
                    # "changes nothing" is judged up to layout: blank lines and the mutual order of
                    # import statements (rope sorts a set of statements with a key that can tie)
                    if not same or pm.normal_form(files2.get(tfile, "")) != pm.normal_form(files1.get(tfile, "")):
                        fails.append(("Idempotent", {"second": files2.get(tfile)}))
                elif st2 == "crash":
                    fails.append(("Idempotent", "second application: " + str(det2)))
            if status == "changed" and out["sample"] is None and item.get("fresh"):
                out["sample"] = {"world": prog["world"], "request": act_key(act), "before": files0.get(tfile),
                                 "after": files1.get(tfile), "spec_lines": exp_lines,
                                 "verdict": [c for c, _ in fails] or "ok"}
            for clause, detail in fails:
                out["fails"].append({"clause": clause, "act": act, "detail": detail,
                                     "before": files0.get(tfile), "after": (files1 or {}).get(tfile)})
        return out
    finally:
        common.rmtree(root)


def judge_post(root, mods, files0, files1, tfile, exp_lines, exp_names, want_names):
    fails = []
    # only the tidied module may change, and only in its imports / the references they force
    for rel in sorted(set(files0) | set(files1)):
        if rel != tfile and files0.get(rel) != files1.get(rel):
            fails.append(("OnlyImportsChange", {"other file changed": rel}))
    if not pm.compiles(files1[tfile]):
        fails.append(("Compiles", None))
        return fails
    if pm.skeleton(files0[tfile]) != pm.skeleton(files1[tfile]):
        fails.append(("OnlyImportsChange", "non-import statements differ"))
    post = pm.observe(root, mods, want_names)
    bad_obs = {a: post[a] for a in exp_lines
               if post[a]["lines"] != exp_lines[a] or post[a]["exc"] is not None}
    if bad_obs:
        fails.append(("ObsPreserved", {a: {"want": exp_lines[a], "got": v["lines"], "exc": v["exc"]}
                                       for a, v in bad_obs.items()}))
    bad_exp = {a: post[a]["exports"] for a in exp_names
               if post[a]["exc"] is None and pm.heads(post[a]["exports"]) != exp_names[a]}
    if bad_exp:
        fails.append(("ExportsKept", {a: {"want": exp_names[a], "got": v} for a, v in bad_exp.items()}))
    return fails


def main(tier):
    return pm.drive(
        PROP, tier, scopes(tier), INVARIANTS, replay_program, acts_of, quick_limit, act_key,
        assumptions=[
            "programs are straight-line module bodies over the statement alphabet of spec/PyModules.tla "
            "(<= 5 modules, <= 2 package levels, <= 3 import statements and <= 2 references in the tidied module)",
            "a module's observable is what its own statements print when it is imported first (output of other "
            "modules during their import is not compared: sorting or removing imports may reorder it)",
            "no import cycles, no reference that relies on another module having imported a submodule",
            "idempotence is judged up to blank lines and the mutual order of import statements",
            "no namespace packages, conditional imports, sys.path manipulation",
        ],
        rule="one request = (program enumerated by TLC, tidying action, preference set), applied twice; "
             "non-trivial program = rope changed the module for at least one request",
        env_prefix="C07", small_all=lambda name: True)


if __name__ == "__main__":
    sys.exit(main(sys.argv[1] if len(sys.argv) > 1 else "quick"))
