#!/bin/sh
# Offline setup: nothing to build (Python + TLA+ sources only). Verifies the tools are present.
set -e
cd "$(dirname "$0")"
command -v java >/dev/null
test -f /opt/veriftools/tla/tla2tools.jar
test -x /venv/bin/python
mkdir -p evidence replays
chmod +x check tools/*.sh tools/*.py 2>/dev/null || true
/venv/bin/python -c "import sys; sys.path.insert(0,'/repo'); import rope, pytoolconfig"
echo setup ok
