------------------------------ MODULE PyScope ------------------------------
(***************************************************************************)
(* Python's name binding and resolution rule (language reference 4.2,      *)
(* CPython symtable.c analyze_block / analyze_name), written once, over    *)
(* abstract programs:                                                      *)
(*                                                                         *)
(*   scopes : sequence of [kind, parent, name]; scope 1 is the module,     *)
(*            scopes are numbered in textual (pre-) order                  *)
(*   ev     : set of name events <<scope, op, name>>                       *)
(*                                                                         *)
(* A program is built event by event (AddScope, AddEvent), so every        *)
(* reachable state is one abstract program; TLC enumerates all of them up  *)
(* to the bounds.  For a well-formed program the spec derives              *)
(*   Local(P,s,n)     n is bound in the block of scope s                   *)
(*   Resolve(P,s,n)   the scope whose binding a reference to n in s uses   *)
(*                    (1 = the module's global, 0 = unbound / builtin)     *)
(*   BScope(P,e)      binding of every name token (event) of the program   *)
(*   Occ(P,r,n)       all tokens of the binding <<r,n>>                    *)
(* Rename(r,n,new) rewrites exactly Occ(P,r,n); the action property        *)
(* AlphaEq says this preserves well-formedness and every token's binding.  *)
(*                                                                         *)
(* Feature groups are switched by the constants Kinds (scope kinds), Ops   *)
(* (event operations), ScopeNames and Libs (multi-module part: a second    *)
(* module `lib` whose top-level names the first module reaches through the *)
(* import forms; RenameLib renames such a name from any of its tokens,     *)
(* RenameModule renames the module itself).                                *)
(*                                                                         *)
(* All operators take the program P = [scopes, ev, lib, libname] as a      *)
(* parameter so that the same rule is evaluated on the program before and  *)
(* after Rename.                                                           *)
(***************************************************************************)
EXTENDS Naturals, Sequences, FiniteSets

CONSTANTS Names,       \* identifiers used by name events, e.g. {"a","b"}
          Fresh,       \* identifiers that occur nowhere: targets of Rename
          Kinds,       \* scope kinds besides the module: subset of
                       \*   {"function","class","comp","lambda"}
          Ops,         \* enabled event operations (see OpsOf)
          ScopeNames,  \* names a def / class may take (subset of Names);
                       \*   "-" (a unique name outside Names) is always allowed
          Libs,        \* layouts of the second module: subset of
                       \*   {"none", "module", "package", "relative", "external"}
                       \*   ("external": lib lies outside the project, on its path;
                       \*    "shadowed": lib is a top-level module, the first module lives
                       \*    in a package that contains a sibling module of the same name)
          OneLiners,   \* subset of BOOLEAN: {FALSE}, or {FALSE, TRUE} to allow def / class
                       \*   statements written on one logical line (`def f(a): b = [..` continued
                       \*   over several physical lines): same scoping, different layout
          Blocks,      \* compound statements the binders and nested definitions of a block may
                       \*   be written in: subset of {"none", "with0", "if", "for", "try", "while"}
                       \*   ("with0": `with cm():` without `as`).  They are not scopes: same rule
          Roles,       \* roles of a def directly in a class: subset of {"plain", "init", "call", "new"}
                       \*   ("init" / "call": the def is `__init__` / `__call__`; the class is then
                       \*    instantiated, and the instance called, instead of calling the def;
                       \*    "new": the def is `__new__(cls, *a, **k)` returning object.__new__(cls))
          Decos,       \* decorators a def may carry: subset of {"none", "property", "other"}
                       \*   (a decorated def still binds its name in the enclosing block)
          LibNames,    \* names the second module may have: "lb", and members of Names
                       \*   (a module named like a top-level name it defines)
          ModFresh,    \* fresh module names: targets of RenameModule
          MaxScopes,   \* bound on Len(scopes)
          MaxEv,       \* bound on Cardinality(ev)
          DoRename,    \* BOOLEAN: Rename enabled
          FreshOnly    \* BOOLEAN: Rename only to a fresh name (FALSE: sensitivity run)

VARIABLES scopes, ev, lib, libname, phase, ren, pre

vars == <<scopes, ev, lib, libname, phase, ren, pre>>

NoName == "-"
AllNames == Names \cup Fresh

ParamOps    == {"param", "posonly", "kwonly", "vararg", "kwarg"}
\* "with2": the target of a later item of a multi-item with statement whose earlier
\*          item has no `as` (`with cm(), cm() as n:`); binds like "with"
StmtBindOps == {"bind", "import", "importfrom", "for", "with", "with2", "except",
                "aug", "del", "matchcap", "walrus", "annbind"}
DeclOps     == {"global", "nonlocal"}
\* the identifier inside a comment / a string; "cmtdedent": a comment-only line inside the
\* last (compound) statement of a def / class, indented less than the block (layout only)
Decoys      == {"cmtdecoy", "strdecoy", "cmtdedent"}
\* Multi-module part.  Scope 0 is the top level of the second module `lib`:
\*   libdef    `n = ..` at the top level of lib
\*   libuse    a reference to n at the top level of lib
\* and the first module reaches lib's names through
\*   fromlib   `from lib import n`       binds n in s: an alias of lib's n
\*   fromlibas `from lib import n as q`  the token n is lib's n (q is not in Names)
\*   modattr   `import lib` .. `lib.n`   an attribute reference to lib's n
\*   asattr    `import lib as q` .. `q.n`
LibOps      == {"libdef", "libuse"}
LibRefOps   == {"fromlib", "fromlibas", "modattr", "asattr"}
\* Layout "shadowed": the importing module is pk/mod.py, lib is the top-level lb.py and
\* pk/lb.py is a *different* module with the same name (the sibling).  Python 3 has no
\* implicit relative imports: `import lb` / `from lb import n` in pk/mod.py mean the
\* top-level module.  The sibling's own names are separate bindings:
\*   sibdef / sibuse  (scope 0)  `n = ..` / a reference at the top level of the sibling
\*   fromsibas        `from .lb import n as q` in the first module: the token n is the sibling's
SibOps      == {"sibdef", "sibuse"}
SibRefOps   == {"fromsibas"}
IsSibTok(e) == e[2] \in SibOps \cup SibRefOps
\* Attribute references through an instance of a class (written right after the class):
\*   instattr    `C().n`        n is the class attribute n of C
\*   helperattr  `h(C()).n`     the same, the instance having passed through a helper
\*                              function `def h(obj): item = obj; return item`
\* The event's scope is the class C; the token denotes C's class-level binding of n.
AttrOps == {"instattr", "helperattr"}
\* operations allowed in a scope of the given kind
OpsOf(kind) ==
  CASE kind = "module"   -> StmtBindOps \cup {"use", "fuse"} \cup Decoys \cup LibRefOps \cup SibRefOps
    [] kind = "function" -> StmtBindOps \cup ParamOps \cup DeclOps \cup LibRefOps \cup SibRefOps
                              \cup {"use", "fuse", "defuse", "kwcall", "kwrecall", "resattr"} \cup Decoys
    [] kind = "class"    -> StmtBindOps \cup DeclOps \cup {"use", "fuse"} \cup Decoys \cup AttrOps
    [] kind = "comp"     -> {"for", "use", "walrus", "iteruse"}
    [] kind = "lambda"   -> ParamOps \cup {"use", "walrus", "defuse"}
    [] OTHER             -> {}

Prog == [scopes |-> scopes, ev |-> ev, lib |-> lib, libname |-> libname]

-----------------------------------------------------------------------------
(* structure *)
NS(P)        == Len(P.scopes)
ScopeIds(P)  == 1..NS(P)
Kind(P, s)   == P.scopes[s].kind
Parent(P, s) == P.scopes[s].parent
SName(P, s)  == P.scopes[s].name
IsComp(P, s) == Kind(P, s) = "comp"
\* scopes whose local names are visible to nested scopes ("function blocks")
FunLike(P, s) == Kind(P, s) \in {"function", "lambda", "comp"}

RECURSIVE AncSelf(_, _)
AncSelf(P, s) == IF s = 1 THEN {1} ELSE {s} \cup AncSelf(P, Parent(P, s))

\* a walrus target inside comprehensions belongs to the nearest enclosing
\* scope that is not a comprehension (PEP 572)
RECURSIVE Hoist(_, _)
Hoist(P, s) == IF IsComp(P, s) THEN Hoist(P, Parent(P, s)) ELSE s

Has(P, s, op, n)   == <<s, op, n>> \in P.ev
GlobalDecl(P, s, n)   == Has(P, s, "global", n)
NonlocalDecl(P, s, n) == Has(P, s, "nonlocal", n)
HasParam(P, s, n)  == \E op \in ParamOps : Has(P, s, op, n)

\* n is syntactically bound in the block of s (symtable: DEF_BOUND)
BindingOps == StmtBindOps \cup ParamOps \cup {"fromlib"}
BindsIn(P, s, n) ==
  \/ \E e \in P.ev : /\ e[3] = n
                     /\ e[2] \in BindingOps
                     /\ IF e[1] = s THEN ~(e[2] = "walrus" /\ IsComp(P, s))
                        ELSE /\ e[2] = "walrus"          \* hoisted walrus
                             /\ IsComp(P, e[1])
                             /\ Hoist(P, e[1]) = s
  \/ \E i \in 2..NS(P) : Parent(P, i) = s /\ SName(P, i) = n      \* def n / class n
  \* layout "stars": the first module starts with `from lib import *` and then
  \* `from lib2 import *`: every top-level name of the two modules is bound in it
  \* (lib2's, the later import, wins when both define the name)
  \/ /\ s = 1 /\ P.lib = "stars"
     /\ (<<0, "libdef", n>> \in P.ev \/ <<0, "sibdef", n>> \in P.ev)
  \/ /\ s = 1 /\ P.lib = "starmod" /\ n = P.libname     \* the star import binds lib's name
  \/ /\ n = P.libname /\ P.lib \notin {"package", "starmod"}    \* `import lib` binds lib's name (`import pk.lib` binds pk)
     /\ \E e \in P.ev : e[1] = s /\ e[2] = "modattr"

Local(P, s, n) ==
  /\ BindsIn(P, s, n)
  /\ IF s = 1 THEN TRUE ELSE ~GlobalDecl(P, s, n) /\ ~NonlocalDecl(P, s, n)

\* the module-level variable n exists: bound at module level, or declared
\* global and bound in some other scope
GlobalBound(P, n) ==
  \/ BindsIn(P, 1, n)
  \/ \E t \in 2..NS(P) : GlobalDecl(P, t, n) /\ BindsIn(P, t, n)
GlobalRes(P, n) == IF GlobalBound(P, n) THEN 1 ELSE 0

\* resolution of a name that is free in the scopes below t
\* (class blocks are skipped entirely; an explicit global declaration in an
\*  intermediate function block hides outer function bindings)
RECURSIVE Free(_, _, _)
Free(P, t, n) ==
  IF t = 1 THEN GlobalRes(P, n)
  ELSE IF Kind(P, t) = "class" THEN Free(P, Parent(P, t), n)
  ELSE IF GlobalDecl(P, t, n) THEN GlobalRes(P, n)
  ELSE IF Local(P, t, n) THEN t
  ELSE Free(P, Parent(P, t), n)

Resolve(P, s, n) ==
  IF s = 1 THEN GlobalRes(P, n)
  ELSE IF GlobalDecl(P, s, n) THEN GlobalRes(P, n)
  ELSE IF NonlocalDecl(P, s, n) THEN Free(P, Parent(P, s), n)
  ELSE IF BindsIn(P, s, n) THEN s
  ELSE Free(P, Parent(P, s), n)

-----------------------------------------------------------------------------
(* events, explicit and implied; 4-tuples <<scope, op, name, k>> *)
Explicit(P) == { <<e[1], e[2], e[3], 0>> : e \in P.ev }
\* a def / class with a name from Names is a binding token in its parent;
\* every def is called once right after it: a use token in the parent
Implied(P) ==
  UNION { IF SName(P, i) = NoName THEN {}
          ELSE {<<Parent(P, i), "defname", SName(P, i), i>>}
               \cup (IF Kind(P, i) = "function"
                     THEN {<<Parent(P, i), "call", SName(P, i), i>>} ELSE {})
        : i \in 2..NS(P) }
AllEv(P) == Explicit(P) \cup Implied(P)
UsedNames(P) == ({ e[3] : e \in P.ev } \cup { SName(P, i) : i \in 2..NS(P) }) \ {NoName}

\* the scope whose binding the token of event e denotes; 0 = undetermined
\* (unbound / builtin) or not a name at all (decoys)
BScope(P, e) ==
  LET s == e[1]  op == e[2]  n == e[3] IN
  CASE op \in Decoys                   -> 0
    [] op \in LibOps                   -> 0
    [] op \in SibOps \cup SibRefOps     -> 0
    [] op \in LibRefOps \ {"fromlib"}  -> 0
    [] op \in {"iteruse", "defuse"}    -> Resolve(P, Parent(P, s), n)
    [] op = "walrus" /\ IsComp(P, s)   -> Resolve(P, Hoist(P, s), n)
    [] op = "kwcall"                   -> s
    \* the def is called twice: `r = f(n=..)`, then `r.n` (resattr: an attribute of whatever
    \* the call returns - not a name of the program), then `f(n=..)` again (kwrecall)
    [] op = "kwrecall"                 -> s
    [] op = "resattr"                  -> 0
    [] op \in AttrOps                  -> IF Local(P, s, n) THEN s ELSE 0
    [] OTHER                           -> Resolve(P, s, n)

\* Class bodies look names up dynamically (LOAD_NAME: class namespace, then
\* globals).  Blocks are straight-line in the order declarations, binders, nested
\* scopes, references, `except` / `del`; a binder of StrongOps (or a nested def /
\* class) has bound the name when the references run.  A reference in a class block
\* whose name is class-local only through the other binders (except .. as n, del n,
\* n: int, n += ..) reads the global at run time although the symbol table calls
\* it local: its binding is not statically determined, and neither is any other
\* token of that name for the purposes of occurrence finding and renaming.
StrongOps == {"bind", "import", "importfrom", "for", "with", "with2", "walrus", "matchcap"}
RefOps    == {"use", "fuse", "aug", "iteruse", "defuse", "call"}
EvScope(P, e) ==
  CASE e[2] \in {"iteruse", "defuse"}          -> Parent(P, e[1])
    [] e[2] = "walrus" /\ IsComp(P, e[1])      -> Hoist(P, e[1])
    [] OTHER                                   -> e[1]
\* (a default value or a first iterable is evaluated where its def / comprehension
\*  stands: only earlier nested defs have bound their names by then)
StrongIn(P, e, s, n) ==
  \/ \E op \in StrongOps : Has(P, s, op, n)
  \/ \E i \in 2..NS(P) : /\ Parent(P, i) = s /\ SName(P, i) = n
                          /\ IF e[2] \in {"defuse", "iteruse"} THEN i < e[1] ELSE TRUE
DynRef(P, e) ==
  /\ e[2] \in RefOps
  /\ LET s == EvScope(P, e) IN
       /\ Kind(P, s) = "class"
       /\ BindsIn(P, s, e[3])
       /\ ~GlobalDecl(P, s, e[3]) /\ ~NonlocalDecl(P, s, e[3])
       /\ ~StrongIn(P, e, s, e[3])
Dyn(P, n) == \E e \in AllEv(P) : e[3] = n /\ DynRef(P, e)

\* `from lib import n` in scope s makes the local n of s an alias of lib's n.  A
\* rename that keeps the program running without introducing `as` has to treat
\* them as one binding (rope does: imported-name transparency), so the class of
\* lib's n is: its tokens in lib, the attribute references, the imported-name
\* tokens, and the whole class of every alias <<s, n>>.
IsLibTok(e) == e[2] \in LibOps \cup LibRefOps
StarLib(P, n) == P.lib = "stars" /\ <<0, "libdef", n>> \in P.ev /\ <<0, "sibdef", n>> \notin P.ev
StarSib(P, n) == P.lib = "stars" /\ <<0, "sibdef", n>> \in P.ev
AliasScopes(P, n) == { s \in ScopeIds(P) : Has(P, s, "fromlib", n) \/ (s = 1 /\ StarLib(P, n)) }
InLib(P, e) ==
  /\ e[2] \notin Decoys
  /\ \/ IsLibTok(e)
     \/ BScope(P, e) \in AliasScopes(P, e[3])
LibOcc(P, n) == { e \in AllEv(P) : e[3] = n /\ InLib(P, e) }
LibDefined(P, n) == <<0, "libdef", n>> \in P.ev
\* the sibling's name n: one class of its own, never merged with lib's n
\* (layout "stars": lib2 plays the sibling's part; the first module's own tokens of a name
\*  that lib2 provides belong to lib2's class)
InSib(P, e) ==
  /\ e[2] \notin Decoys
  /\ \/ IsSibTok(e)
     \/ (~IsLibTok(e) /\ StarSib(P, e[3]) /\ BScope(P, e) = 1)
SibOcc(P, n) == { e \in AllEv(P) : e[3] = n /\ InSib(P, e) }
SibDefined(P, n) == <<0, "sibdef", n>> \in P.ev

Determined(P, e) ==
  /\ e[2] \notin Decoys
  /\ ~Dyn(P, e[3])
  /\ IF IsLibTok(e) THEN LibDefined(P, e[3])
     ELSE IF IsSibTok(e) THEN SibDefined(P, e[3])
     ELSE BScope(P, e) # 0

\* the binding partition: all tokens of binding <<r, n>>
Occ(P, r, n) == { e \in AllEv(P) : e[3] = n /\ e[2] \notin Decoys /\ ~IsLibTok(e) /\ ~InSib(P, e)
                                   /\ BScope(P, e) = r }
\* the class of a token: lib's name, or the binding of its scope
ClassOf(P, e) == IF InLib(P, e) THEN LibOcc(P, e[3])
                 ELSE IF InSib(P, e) THEN SibOcc(P, e[3])
                 ELSE Occ(P, BScope(P, e), e[3])

\* the name of def s is bound exactly once (by that def): a call through the
\* name right after the def reaches s whatever the control flow
Binders(P, r, m) == { e \in Occ(P, r, m) : e[2] \in BindingOps \cup {"defname"} }
UniqueDef(P, s) ==
  \/ SName(P, s) = NoName
  \/ Cardinality(Binders(P, Resolve(P, Parent(P, s), SName(P, s)), SName(P, s))) = 1

-----------------------------------------------------------------------------
(* the fragment: programs that compile *)
\* comprehension chain between d and its hoist target only
CompChain(P, d) == { c \in AncSelf(P, d) : IsComp(P, c) /\ c \notin AncSelf(P, Hoist(P, d)) }

WellFormed(P) ==
  /\ \A s \in ScopeIds(P) :
       /\ Cardinality({n \in AllNames : Has(P, s, "vararg", n)}) <= 1
       /\ Cardinality({n \in AllNames : Has(P, s, "kwarg", n)}) <= 1
       /\ \A n \in AllNames :
            /\ Cardinality({op \in ParamOps : Has(P, s, op, n)}) <= 1
            /\ ~(GlobalDecl(P, s, n) /\ NonlocalDecl(P, s, n))
            /\ HasParam(P, s, n) => (~GlobalDecl(P, s, n) /\ ~NonlocalDecl(P, s, n))
            \* an enclosing function block must bind a nonlocal name
            /\ NonlocalDecl(P, s, n) => Free(P, Parent(P, s), n) >= 2
            \* a keyword argument needs a parameter that can take it, and a callee that
            \* scoping alone determines: the def's name has one binder
            /\ Has(P, s, "kwcall", n) => /\ (Has(P, s, "param", n) \/ Has(P, s, "kwonly", n))
                                         /\ UniqueDef(P, s)
            \* annotated name without value: not with global/nonlocal
            \* attribute references are written for unnamed classes only (`C2().n`)
            /\ (\E op \in AttrOps : Has(P, s, op, n)) => (Kind(P, s) = "class" /\ SName(P, s) = NoName)
            \* (the attribute is read from the first call's result: there must be such a call; its
            \*  spelling is independent of the parameters' - Rename of the parameter leaves it alone)
            /\ Has(P, s, "resattr", n) => \E m \in AllNames : Has(P, s, "kwcall", m)
            /\ Has(P, s, "kwrecall", n) => (Has(P, s, "kwcall", n) /\ \E m \in AllNames : Has(P, s, "resattr", m))
            \* the second call repeats every keyword of the first
            /\ (Has(P, s, "kwcall", n) /\ \E m \in AllNames : Has(P, s, "kwrecall", m)) => Has(P, s, "kwrecall", n)
            /\ (Has(P, s, "resattr", n) \/ Has(P, s, "kwrecall", n)) => SName(P, s) = NoName
            /\ Has(P, s, "annbind", n) => (~GlobalDecl(P, s, n) /\ ~NonlocalDecl(P, s, n))
            /\ (Has(P, s, "walrus", n) /\ IsComp(P, s)) =>
                 /\ Kind(P, Hoist(P, s)) # "class"
                 /\ \A c \in CompChain(P, s) : ~Has(P, c, "for", n)
  \* multi-module part
  /\ (P.lib = "none") => \A e \in P.ev : ~(e[2] \in LibOps \cup LibRefOps)
  /\ (P.lib \notin {"shadowed", "stars"}) => \A e \in P.ev : ~IsSibTok(<<e[1], e[2], e[3], 0>>)
  \* layout "stars": only star imports reach the two modules, and a name they provide is not
  \* bound or redirected by anything else in the first module
  /\ (P.lib = "stars") =>
       /\ \A e \in P.ev : e[2] \notin LibRefOps \cup SibRefOps
       /\ \A n \in AllNames : (<<0, "libdef", n>> \in P.ev \/ <<0, "sibdef", n>> \in P.ev) =>
            /\ \A e \in P.ev : (e[1] = 1 /\ e[3] = n) => e[2] \notin BindingOps
            /\ \A e \in P.ev : e[3] = n => e[2] \notin DeclOps
            /\ \A i \in 2..NS(P) : ~(Parent(P, i) = 1 /\ SName(P, i) = n)
            /\ \A d \in 2..NS(P) : ~(IsComp(P, d) /\ Hoist(P, d) = 1 /\ Has(P, d, "walrus", n))
  \* a second module named like an identifier of the program: in the first module that
  \* identifier occurs only in references to lib (`import m` then binds m to the module;
  \* mixing it with other bindings of m is outside the fragment)
  /\ (P.libname \in AllNames) =>
       /\ \A e \in P.ev : (e[3] = P.libname /\ e[1] # 0) => e[2] \in {"fromlibas", "modattr", "asattr", "fromsibas"}
       /\ \A i \in 2..NS(P) : SName(P, i) # P.libname
  /\ \A n \in AllNames :
       \* a reference to lib's n needs the definition (ImportError otherwise)
       /\ (\E e \in P.ev : e[2] \in (LibRefOps \cup {"libuse"}) /\ e[3] = n) => LibDefined(P, n)
       /\ (\E e \in P.ev : e[2] \in (SibRefOps \cup {"sibuse"}) /\ e[3] = n) => SibDefined(P, n)
       /\ \A s \in ScopeIds(P) :
            Has(P, s, "fromlib", n) =>
              \* the alias is the only binder of n in s and nothing redirects it
              /\ ~GlobalDecl(P, s, n) /\ ~NonlocalDecl(P, s, n)
              /\ \A op \in (StmtBindOps \cup ParamOps) : ~Has(P, s, op, n)
              /\ \A i \in 2..NS(P) : ~(Parent(P, i) = s /\ SName(P, i) = n)
              /\ \A d \in 2..NS(P) : ~(IsComp(P, d) /\ Hoist(P, d) = s /\ Has(P, d, "walrus", n))
              /\ \A t \in 2..NS(P) : (t # s /\ (GlobalDecl(P, t, n) \/ NonlocalDecl(P, t, n)))
                                        => Resolve(P, t, n) # s

-----------------------------------------------------------------------------
(* building programs *)
Init ==
  /\ \E b \in Blocks :
       scopes = << [kind |-> "module", parent |-> 0, name |-> NoName, one |-> FALSE, blk |-> b, role |-> "plain",
                    deco |-> "none"] >>
  /\ ev = {}
  /\ lib \in Libs
  /\ libname \in (IF lib = "none" THEN {"lb"} ELSE LibNames)
  /\ phase = "build"
  /\ ren = [kind |-> "none", scope |-> 0, old |-> NoName, new |-> NoName]
  /\ pre = [scopes |-> << >>, ev |-> {}, lib |-> "none", libname |-> "lb"]

\* scopes are added in textual order: the parent of a new scope is the last
\* scope or one of its ancestors.  def / class are statements: they nest in
\* module, function and class blocks only; comprehensions and lambdas are
\* expressions and nest anywhere.
\* A one-line def / class holds simple statements only: no nested scopes, and (see
\* AddEvent) only plain assignments besides the parameters.
AddScope(kind, par, name, one, blk, role, deco) ==
  /\ phase = "build"
  /\ Len(scopes) < MaxScopes
  /\ kind \in Kinds
  /\ par \in AncSelf(Prog, Len(scopes))
  /\ ~scopes[par].one
  /\ one \in OneLiners
  /\ one => kind \in {"function", "class"}
  /\ deco \in Decos
  /\ (deco # "none") => (kind = "function" /\ ~one /\ role = "plain")
  /\ blk \in Blocks
  /\ (blk # "none") => (kind \in {"function", "class"} /\ ~one)
  /\ role \in (IF kind = "function" THEN Roles ELSE {"plain"})
  \* __init__ / __call__: an unnamed def directly in an unnamed class, one of each per class
  /\ (role # "plain") =>
        /\ kind = "function" /\ name = NoName /\ ~one
        /\ scopes[par].kind = "class" /\ scopes[par].name = NoName
        /\ \A i \in 1..Len(scopes) : scopes[i].parent = par => scopes[i].role # role
  /\ IF kind \in {"function", "class"}
       THEN /\ scopes[par].kind \in {"module", "function", "class"}
            /\ name \in ScopeNames \cup {NoName}
       ELSE name = NoName
  /\ scopes' = Append(scopes, [kind |-> kind, parent |-> par, name |-> name, one |-> one, blk |-> blk, role |-> role,
                            deco |-> deco])
  /\ UNCHANGED <<ev, lib, libname, phase, ren, pre>>

AddEvent(s, op, n) ==
  /\ phase = "build"
  /\ Cardinality(ev) < MaxEv
  /\ s \in 1..Len(scopes)
  /\ op \in Ops \cap OpsOf(scopes[s].kind)
  /\ scopes[s].one => op \in {"bind", "param"}
  /\ (op = "cmtdedent") => s # 1
  /\ (op \in {"kwrecall", "resattr"}) =>
        (scopes[s].role = "plain" /\ scopes[s].deco # "property" /\ ~scopes[s].one)
  /\ (scopes[s].role = "new") => op \notin ParamOps \cup {"kwcall", "defuse"}
  /\ (op \in SibRefOps) => lib = "shadowed"
  /\ (op \in LibRefOps) => lib \notin {"none", "stars"}
  \* layout "starmod": a third module `st` does `import lib`, the first module starts with
  \* `from st import *` and reaches lib only as `lib.n` (the module object re-exported by the star)
  /\ (lib = "starmod") => op \notin (LibRefOps \ {"modattr"})
  /\ n \in Names
  /\ <<s, op, n>> \notin ev
  /\ ev' = ev \cup {<<s, op, n>>}
  /\ UNCHANGED <<scopes, lib, libname, phase, ren, pre>>

\* top level of the second module (scope 0)
AddLibEvent(op, n) ==
  /\ phase = "build"
  /\ lib # "none"
  /\ Cardinality(ev) < MaxEv
  /\ op \in Ops \cap (LibOps \cup SibOps)
  /\ (op \in SibOps) => lib \in {"shadowed", "stars"}
  /\ n \in Names
  /\ <<0, op, n>> \notin ev
  /\ ev' = ev \cup {<<0, op, n>>}
  /\ UNCHANGED <<scopes, lib, libname, phase, ren, pre>>

-----------------------------------------------------------------------------
(* Rename: rewrite exactly the tokens of one binding *)
RenTargets == IF FreshOnly THEN Fresh ELSE Fresh \cup Names

Rename(r, n, new) ==
  /\ phase = "build"
  /\ DoRename
  /\ WellFormed(Prog)
  /\ r \in 1..Len(scopes)
  /\ n \in Names
  /\ new \in RenTargets \ {n}
  /\ Occ(Prog, r, n) # {}
  /\ ~Dyn(Prog, n)                          \* statically determined bindings only
  /\ r \notin AliasScopes(Prog, n)          \* an alias is renamed with lib's name
  /\ ~(r = 1 /\ StarSib(Prog, n))
  /\ LET occ == Occ(Prog, r, n) IN
       /\ ev' = { IF <<e[1], e[2], e[3], 0>> \in occ THEN <<e[1], e[2], new>> ELSE e : e \in ev }
       /\ scopes' = [i \in 1..Len(scopes) |->
                       IF i >= 2 /\ <<scopes[i].parent, "defname", scopes[i].name, i>> \in occ
                         THEN [scopes[i] EXCEPT !.name = new] ELSE scopes[i]]
  /\ phase' = "renamed"
  /\ ren' = [kind |-> "name", scope |-> r, old |-> n, new |-> new]
  /\ pre' = Prog
  /\ UNCHANGED <<lib, libname>>

\* rename a top-level name of the second module, asked from any of its tokens
RenameLib(n, new) ==
  /\ phase = "build"
  /\ DoRename
  /\ WellFormed(Prog)
  /\ n \in Names
  /\ new \in RenTargets \ {n}
  /\ LibDefined(Prog, n)
  /\ ~Dyn(Prog, n)
  /\ lib # "external"
  /\ LET occ == LibOcc(Prog, n) IN
       /\ ev' = { IF <<e[1], e[2], e[3], 0>> \in occ THEN <<e[1], e[2], new>> ELSE e : e \in ev }
       /\ scopes' = [i \in 1..Len(scopes) |->
                       IF i >= 2 /\ <<scopes[i].parent, "defname", scopes[i].name, i>> \in occ
                         THEN [scopes[i] EXCEPT !.name = new] ELSE scopes[i]]
  /\ phase' = "renamed"
  /\ ren' = [kind |-> "lib", scope |-> 0, old |-> n, new |-> new]
  /\ pre' = Prog
  /\ UNCHANGED <<lib, libname>>

\* rename a top-level name of the sibling module (layout "shadowed")
RenameSib(n, new) ==
  /\ phase = "build"
  /\ DoRename
  /\ WellFormed(Prog)
  /\ n \in Names
  /\ new \in RenTargets \ {n}
  /\ SibDefined(Prog, n)
  /\ LET occ == SibOcc(Prog, n) IN
       ev' = { IF <<e[1], e[2], e[3], 0>> \in occ THEN <<e[1], e[2], new>> ELSE e : e \in ev }
  /\ phase' = "renamed"
  /\ ren' = [kind |-> "sib", scope |-> 0, old |-> n, new |-> new]
  /\ pre' = Prog
  /\ UNCHANGED <<scopes, lib, libname>>

\* a name whose definition lies outside the project cannot be renamed: the only
\* program-preserving outcome of the request is that nothing changes (refusal)
RenameExternal(n, new) ==
  /\ phase = "build"
  /\ DoRename
  /\ WellFormed(Prog)
  /\ lib = "external"
  /\ n \in Names
  /\ new \in RenTargets \ {n}
  /\ LibDefined(Prog, n)
  /\ \E e \in ev : e[1] # 0 /\ e[3] = n /\ InLib(Prog, <<e[1], e[2], e[3], 0>>)
  /\ phase' = "renamed"
  /\ ren' = [kind |-> "external", scope |-> 0, old |-> n, new |-> new]
  /\ pre' = Prog
  /\ UNCHANGED <<scopes, ev, lib, libname>>

\* rename the second module itself (file move + every import of it)
RenameModule(new) ==
  /\ phase = "build"
  /\ DoRename
  /\ WellFormed(Prog)
  /\ lib \notin {"none", "external"}
  /\ new \in ModFresh
  /\ libname' = new
  /\ phase' = "renamed"
  /\ ren' = [kind |-> "module", scope |-> 0, old |-> libname, new |-> new]
  /\ pre' = Prog
  /\ UNCHANGED <<scopes, ev, lib>>

AnyAddScope == \E k \in Kinds, p \in 1..Len(scopes), nm \in ScopeNames \cup {NoName}, one \in OneLiners,
                    b \in Blocks, ro \in Roles \cup {"plain"}, d \in Decos :
                 AddScope(k, p, nm, one, b, ro, d)
AnyAddEvent == \E s \in 1..Len(scopes), op \in Ops, n \in Names : AddEvent(s, op, n)
AnyAddLibEvent == \E op \in Ops, n \in Names : AddLibEvent(op, n)
AnyRename   == \E r \in 1..Len(scopes), n \in Names, new \in AllNames : Rename(r, n, new)
AnyRenameLib == \E n \in Names, new \in AllNames : RenameLib(n, new)
AnyRenameModule == \E new \in ModFresh : RenameModule(new)
AnyRenameExternal == \E n \in Names, new \in AllNames : RenameExternal(n, new)
AnyRenameSib == \E n \in Names, new \in AllNames : RenameSib(n, new)

Next == AnyAddScope \/ AnyAddEvent \/ AnyAddLibEvent \/ AnyRename \/ AnyRenameLib \/ AnyRenameModule
          \/ AnyRenameExternal \/ AnyRenameSib

Spec == Init /\ [][Next]_vars

-----------------------------------------------------------------------------
(* properties of the rule, checked by TLC on every program *)
TypeOK ==
  /\ \A i \in 1..Len(scopes) :
       /\ scopes[i].kind \in Kinds \cup {"module"}
       /\ scopes[i].parent \in 0..(i - 1)
       /\ (i = 1) = (scopes[i].kind = "module")
  /\ \A e \in ev : e[1] \in 0..Len(scopes) /\ e[3] \in AllNames /\ (e[1] = 0) = (e[2] \in LibOps \cup SibOps)
  /\ lib \in Libs
  /\ libname \in LibNames \cup ModFresh
  /\ phase \in {"build", "renamed"}

\* C15 ResolveTotal: every (scope, name) resolves to the module, to nothing,
\* or to a scope on its own ancestor chain that really binds the name
ResolveTotal ==
  \A s \in ScopeIds(Prog), n \in UsedNames(Prog) :
    LET r == Resolve(Prog, s, n) IN
      /\ r \in 0..NS(Prog)
      /\ (r >= 2) => (r \in AncSelf(Prog, s) /\ Local(Prog, r, n))
      /\ (r = 1) => GlobalBound(Prog, n)
      /\ (r = 0) => ~GlobalBound(Prog, n)

\* C15 ClassSkip: a scope nested in a class never sees the class's names
ClassSkip ==
  \A s \in ScopeIds(Prog), n \in UsedNames(Prog) :
    LET r == Resolve(Prog, s, n) IN
      (r >= 2 /\ r # s) => Kind(Prog, r) # "class"

\* C15 LocalWins: a name bound in a block without a declaration is that block's
LocalWins ==
  \A s \in 2..NS(Prog), n \in UsedNames(Prog) :
    (Local(Prog, s, n)) => Resolve(Prog, s, n) = s

\* C15 NonlocalBinds: in the fragment a nonlocal name resolves to an enclosing
\* function-like scope, never to the module
NonlocalBinds ==
  WellFormed(Prog) =>
    \A e \in ev : e[2] = "nonlocal" =>
        LET r == Resolve(Prog, e[1], e[3]) IN r >= 2 /\ r # e[1] /\ FunLike(Prog, r)

\* C02 QueryInvariant: the class of a token contains the token and is the same
\* whichever of its members is used to ask
QueryInvariant ==
  LET P == Prog
      C == [e \in AllEv(P) |-> ClassOf(P, e)]
  IN \A e \in AllEv(P) :
       Determined(P, e) =>
           /\ e \in C[e]
           /\ \A f \in C[e] : C[f] = C[e]

\* C02 OccPartition: every determined token is in exactly one class (the lib
\* class or the class of one scope); decoys and unbound names are in none
OccPartition ==
  LET P == Prog IN
  \A e \in AllEv(P) :
    LET cls == { r \in ScopeIds(P) : e \in Occ(P, r, e[3]) /\ r \notin AliasScopes(P, e[3]) }
        inlib == e \in LibOcc(P, e[3]) IN
      IF e[2] \in Decoys THEN cls = {} /\ ~inlib
      ELSE IF InSib(P, e) THEN ~inlib /\ e \in SibOcc(P, e[3])
      ELSE IF InLib(P, e) THEN inlib /\ cls = {} /\ e \notin SibOcc(P, e[3])
      ELSE IF BScope(P, e) # 0 THEN cls = {BScope(P, e)} /\ ~inlib
      ELSE cls = {} /\ ~inlib

\* C15 ResolveStable (action property): adding an event for name m in scope t
\* changes Resolve(s, n) only if n = m, and then only for scopes s at or below
\* t, or by creating the module-level variable (0 -> 1)
ResolveStable ==
  [][ (phase = "build" /\ phase' = "build" /\ ev' # ev /\ scopes' = scopes) =>
        \A x \in ev' \ ev :
          \A s \in ScopeIds(Prog), n \in UsedNames(Prog') :
            LET r0 == Resolve(Prog, s, n)
                r1 == Resolve(Prog', s, n) IN
              \/ r0 = r1
              \/ /\ n = x[3]
                 /\ \/ x[1] \in AncSelf(Prog, s)
                    \/ (r0 \in {0, 1} /\ r1 \in {0, 1})
                    \/ (x[2] = "walrus" /\ Hoist(Prog, x[1]) \in AncSelf(Prog, s))
    ]_vars

\* C01 AlphaEq (action property): Rename to a fresh name keeps the program in
\* the fragment and keeps the binding of every token; the name tables move
\* with the renamed binding
AlphaEq ==
  [][ (phase = "build" /\ phase' = "renamed") =>
        LET P == Prog
            Q == Prog'
            r == ren'.scope
            old == ren'.old
            new == ren'.new
            occ == IF ren'.kind = "lib" THEN LibOcc(P, old)
                   ELSE IF ren'.kind = "sib" THEN SibOcc(P, old)
                   ELSE IF ren'.kind \in {"module", "external"} THEN {} ELSE Occ(P, r, old)
        IN
          /\ WellFormed(Q)
          /\ NS(Q) = NS(P)
          /\ \A e \in AllEv(P) :
               \A f \in {IF e \in occ THEN <<e[1], e[2], new, e[4]>> ELSE e} :
                 /\ f \in AllEv(Q)
                 /\ BScope(Q, f) = BScope(P, e)
                 /\ InLib(Q, f) = InLib(P, e)
                 /\ InSib(Q, f) = InSib(P, e)
          /\ Cardinality(AllEv(Q)) = Cardinality(AllEv(P))
          /\ Q.lib = P.lib
          /\ Q.libname = (IF ren'.kind = "module" THEN new ELSE P.libname)
          /\ \A s \in ScopeIds(P), n \in UsedNames(P) :
               /\ n \notin {old, new} => /\ Resolve(Q, s, n) = Resolve(P, s, n)
                                         /\ Local(Q, s, n) = Local(P, s, n)
    ]_vars
=============================================================================
