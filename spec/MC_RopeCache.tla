---------------------------- MODULE MC_RopeCache ----------------------------
EXTENDS RopeCache, Json

MkTree(dirs, files) ==
  [p \in Paths |-> IF p \in dirs THEN Dir
                   ELSE IF p \in DOMAIN files THEN files[p] ELSE Absent]

\* contents: 1 "v = 1", 2 "import a; w = a.v", 3 "from pkg import b; u = b.v", 4 class + instance
MCImports == [c \in 0..20 |->
                CASE c = 2 -> { <<"a">> }
                  [] c = 3 -> { <<"pkg">>, <<"pkg", "b">> }
                  [] OTHER -> {}]

C1 == MkTree({<<"pkg">>}, (<<"a">> :> 1) @@ (<<"b">> :> 2) @@ (<<"pkg","i">> :> 0) @@ (<<"pkg","b">> :> 4))
C2 == MkTree({<<"pkg">>}, (<<"a">> :> 3) @@ (<<"pkg","b">> :> 1))
C3 == MkTree({}, (<<"b">> :> 2))
MCInitTreesC == {C1, C2, C3}

MCUniverse == { <<"a">>, <<"b">>, <<"pkg">>, <<"pkg","i">>, <<"pkg","b">> }

\* one behaviour per state: the actions that led here and what the spec says
\* about this state (the harness compares warm vs fresh answers here)
Behaviour == [trail |-> trail, tree |-> TreePairs(tree), quiet |-> (ext = {}),
              stale |-> StaleNegative,
              cached |-> { p \in Paths : Cached(p) }, filesValid |-> filesValid]
Export == (Len(trail) >= 1) => PrintT(<<"BEH", ToJson(Behaviour)>>)
=============================================================================
