---------------------------- MODULE MC_RopeCache ----------------------------
EXTENDS RopeCache, Json

MkTree(dirs, files) ==
  [p \in Paths |-> IF p \in dirs THEN Dir
                   ELSE IF p \in DOMAIN files THEN files[p] ELSE Absent]

\* contents: 1 "v = 1", 2 "import a; w = a.v", 3 "from pkg import b; u = b.v", 4 class + instance
MCImports == [c \in 0..20 |->
                CASE c = 2 -> { <<"a">> }
                  [] c = 3 -> { <<"pkg">>, <<"pkg", "b">> }
                  [] c = 5 -> { <<"q">>, <<"q", "b">> }
                  [] c = 6 -> { <<"a">> }
                  [] c = 8 -> { <<"b">> }
                  [] c = 9 -> { <<"pkg">>, <<"pkg", "q">>, <<"pkg", "q", "b">> }
                  [] OTHER -> {}]

C1 == MkTree({<<"pkg">>}, (<<"a">> :> 1) @@ (<<"b">> :> 2) @@ (<<"pkg","i">> :> 0) @@ (<<"pkg","b">> :> 4))
C2 == MkTree({<<"pkg">>}, (<<"a">> :> 3) @@ (<<"pkg","b">> :> 1))
C3 == MkTree({}, (<<"b">> :> 2))
\* 6: "from a import *; x = K" - a star import whose names come and go with a's content
C6 == MkTree({}, (<<"a">> :> 4) @@ (<<"b">> :> 6))
MCInitTreesC == {C1, C2, C3, C6}
\* two packages: a module can be moved from one package into the other
C4 == MkTree({<<"pkg">>, <<"q">>}, (<<"a">> :> 3) @@ (<<"b">> :> 5) @@ (<<"pkg","b">> :> 1) @@ (<<"q","i">> :> 0))
C5 == MkTree({<<"pkg">>, <<"q">>}, (<<"a">> :> 5) @@ (<<"pkg","b">> :> 4) @@ (<<"pkg","i">> :> 0))
MCInitTreesC2 == {C4, C5}
\* a module turned into a package: "A" is the folder a/ next to a.py ("a"); a.py can be moved to
\* a/__init__.py (<<"A","i">>), both spell the module name `a`
C7 == MkTree({}, (<<"a">> :> 1) @@ (<<"b">> :> 2))
C8 == MkTree({<<"A">>}, (<<"a">> :> 4) @@ (<<"b">> :> 2))
MCInitTreesC3 == {C7, C8}
MCNoExclusive == {}
MCExclusive == { << <<"a">>, <<"A", "i">> >> }
MCUniverse3 == { <<"a">>, <<"b">>, <<"A">>, <<"A","i">> }
\* two plain modules, one importing the other: repeated query / change / query histories
\* 7: a module with a syntax error; 8: "from b import *; y = v" - the importer's first analysis fails
\* while b is broken, then b is repaired through the project
C9 == MkTree({}, (<<"a">> :> 8) @@ (<<"b">> :> 7))
MCInitTreesC4 == {C7, C9}
MCUniverse4 == { <<"a">>, <<"b">> }
\* nested packages: a module two package levels down, reached through a dotted import chain
\* 9: "import pkg.q.b; w = pkg.q.b.K()" ; 10: another class K (other methods, on another line).  Each
\* package object on the chain holds the next one: all of them must be renewed when the inner one changes
C10 == MkTree({<<"pkg">>, <<"pkg","q">>}, (<<"a">> :> 9) @@ (<<"pkg","i">> :> 0) @@ (<<"pkg","q","i">> :> 0)
                                           @@ (<<"pkg","q","b">> :> 4))
MCInitTreesC5 == {C10}
MCUniverse5 == { <<"a">>, <<"pkg","q","b">>, <<"pkg","q">> }
MCUniverse2 == { <<"a">>, <<"b">>, <<"pkg">>, <<"q">>, <<"pkg","b">>, <<"q","b">> }

\* "t" is rendered as a non-Python file (t.txt): a module can be moved out of sight and back
MCUniverse == { <<"a">>, <<"b">>, <<"pkg">>, <<"pkg","i">>, <<"pkg","b">>, <<"t">> }

\* one behaviour per state: the actions that led here and what the spec says
\* about this state (the harness compares warm vs fresh answers here)
Behaviour == [trail |-> trail, tree |-> TreePairs(tree), quiet |-> (ext = {}),
              stale |-> StaleNegative, rootsChanged |-> (Cardinality(rootsSeen) > 1),
              cached |-> { p \in Paths : Cached(p) }, filesValid |-> filesValid]
Export == (Len(trail) >= 1) => PrintT(<<"BEH", ToJson(Behaviour)>>)
=============================================================================
