----------------------------- MODULE PyModules -----------------------------
(***************************************************************************)
(* A small Python project seen through its import graph.                   *)
(*                                                                         *)
(*   world  W = [body, pkgs, mid]                                          *)
(*     body : module path (sequence of names) -> sequence of statements    *)
(*     pkgs : the paths that are packages (their body is __init__.py)      *)
(*     mid  : module path -> identity of the module (its original path;    *)
(*            moving or renaming a module changes the path, not this)      *)
(*                                                                         *)
(*   statements                                                            *)
(*     def     [k:"def", n, kind, id, refs] a function/class/variable that *)
(*                                         identifies itself (id) when     *)
(*                                         used, followed by what its own  *)
(*                                         references (refs, looked up in  *)
(*                                         the globals of the module that  *)
(*                                         holds it, at call time) reach   *)
(*     import  [k:"import", items: Seq([path, as])]    import a.b [as x]   *)
(*     from    [k:"from", level, path, items: Seq([n, as])]                *)
(*                                         from ..a.b import n [as y] / *  *)
(*     future  [k:"future"]                from __future__ import ...      *)
(*     use     [k:"use", e: Seq(name), fn] evaluate e (name, then          *)
(*                                         attributes) and print the       *)
(*                                         identity it reaches; fn: the    *)
(*                                         reference sits in a function    *)
(*                                         body called on the spot (and,   *)
(*                                         as rendered, possibly inside a  *)
(*                                         larger expression)              *)
(*     all     [k:"all", names]            __all__ = [...]                 *)
(*                                                                         *)
(* Part 1 restates the part of Python's import system these statements     *)
(* exercise (sys.modules, partially initialised modules, parent package    *)
(* first, submodule bound in the parent after its body ran, fromlist       *)
(* fallback to submodules, IMPORT_FROM fallback to sys.modules, relative   *)
(* levels, star imports honouring __all__ and underscore names).  It is    *)
(* cross-checked against CPython on every rendered project.                *)
(* Part 2 is the observable: per entry module the identities printed by    *)
(* the entry's own statements, and the namespace a module exports.         *)
(* Part 3 builds programs statement by statement (TLC enumerates them).    *)
(* Part 4 defines the refactorings on the abstract program and the         *)
(* clauses of C07 / C05 as invariants over the state after the action.     *)
(***************************************************************************)
EXTENDS Naturals, Sequences, FiniteSets, TLC

CONSTANTS
  Worlds,        \* initial worlds: [body, pkgs, open, tidy, movable...] (see MC module)
  DefNames,      \* names of library definitions
  Private,       \* the names (of DefNames or others) that start with an underscore
  OwnDefs,       \* names an open module may define itself
  ImpAlias,      \* alias used by  import m as <alias>   ("" = form disabled)
  FromAlias,     \* alias used by  from m import n as <alias>
  Forms,         \* enabled statement forms
  Features,      \* program features (see Tags) allowed in the written modules
  MaxImports,    \* per open module
  MaxUses,       \* per open module
  MaxStmts,      \* per open module
  MaxChain,      \* longest dotted reference
  FnFlags,       \* {FALSE} or BOOLEAN: references inside a function body
  Rank,          \* name -> Nat, the alphabetical order of the rendered names
  LongDepth,     \* a plain import of a path with >= LongDepth components is "long"
  Actions,       \* refactorings tried on every complete program
  PrefSets       \* set of [split, top, alpha] preference records

VARIABLES
  W,        \* current world [body, pkgs]
  W0,       \* world before the refactoring
  open,     \* Seq of module paths still to be written; Head is being written
  phase,    \* "build" | "built" | "done"
  act,      \* the refactoring applied: [name, m, prefs, ...] or <<>>
  info      \* Info(W0): observable, exports and bindings of the complete program
            \* (a function of W0, kept so that it is computed once per program)

vars == <<W, W0, open, phase, act, info>>

-----------------------------------------------------------------------------
(* Small helpers *)

Front(s) == SubSeq(s, 1, Len(s) - 1)
Last(s) == s[Len(s)]
IsPrefix(p, s) == Len(p) <= Len(s) /\ SubSeq(s, 1, Len(p)) = p
Range(s) == {s[i] : i \in DOMAIN s}
EmptyFn == <<>>
Put(f, k, v) == (k :> v) @@ f          \* left operand wins

RECURSIVE SeqOfSet(_)
\* a set of names as the sequence sorted by Rank (deterministic)
SeqOfSet(S) ==
  IF S = {} THEN <<>>
  ELSE LET x == CHOOSE y \in S : \A z \in S : Rank[y] <= Rank[z]
       IN <<x>> \o SeqOfSet(S \ {x})

Mods(w) == DOMAIN w.body
IsPkg(w, p) == p \in w.pkgs

\* values
DefV(id) == [t |-> "def", x |-> id]
ModV(p) == [t |-> "mod", x |-> p]
AllV(names) == [t |-> "all", x |-> names]

\* statements
Def(n, kind, id) == [k |-> "def", n |-> n, kind |-> kind, id |-> id, refs |-> <<>>]
DefR(n, kind, id, refs) == [k |-> "def", n |-> n, kind |-> kind, id |-> id, refs |-> refs]
ImpItem(path, as) == [path |-> path, as |-> as]
Import(items) == [k |-> "import", items |-> items]
FromItem(n, as) == [n |-> n, as |-> as]
From(level, path, items) == [k |-> "from", level |-> level, path |-> path, items |-> items]
Star == <<FromItem("*", "")>>
Future == [k |-> "future"]
Use(e, fn) == [k |-> "use", e |-> e, fn |-> fn]
All(names) == [k |-> "all", names |-> names]

IsImportStmt(s) == s.k \in {"import", "from", "future"}
IsStar(s) == s.k = "from" /\ s.items = Star

-----------------------------------------------------------------------------
(* Part 1: execution.                                                      *)
(* st = [ns, out, reads, err]                                              *)
(*   ns    : started module path -> (name -> value)   (sys.modules + dicts)*)
(*   out   : Seq(<<module identity, def id, ids reached by the def's refs>>)*)
(*   reads : set of <<reader, module, name>> attribute reads of modules    *)
(*   err   : "" or the exception class that ended the run                  *)

St0 == [ns |-> EmptyFn, out |-> <<>>, reads |-> {}, err |-> ""]

Fail(st, e) == IF st.err = "" THEN [st EXCEPT !.err = e] ELSE st
Bind(st, m, n, v) == [st EXCEPT !.ns = Put(@, m, Put(st.ns[m], n, v))]
Started(st, p) == p \in DOMAIN st.ns
HasAttr(st, p, n) == n \in DOMAIN st.ns[p]
NoteRead(st, by, p, n) == [st EXCEPT !.reads = @ \cup {<<by, p, n>>}]

\* the package a relative import in module m is relative to; <<>> = none
PkgOf(w, m) == IF IsPkg(w, m) THEN m ELSE Front(m)

\* target of  from <level dots><path> import ...  in module m; <<>> = error
FromTarget(w, m, s) ==
  IF s.level = 0 THEN s.path
  ELSE LET pk == PkgOf(w, m) IN
       IF Len(pk) = 0 \/ s.level - 1 >= Len(pk) THEN <<>>
       ELSE SubSeq(pk, 1, Len(pk) - (s.level - 1)) \o s.path

RECURSIVE ExecFrom(_, _, _, _), ImportChain(_, _, _, _), ExecStmt(_, _, _, _)

\* run statements i.. of module m
ExecFrom(w, st, m, i) ==
  IF st.err # "" \/ i > Len(w.body[m]) THEN st
  ELSE ExecFrom(w, ExecStmt(w, st, m, w.body[m][i]), m, i + 1)

\* import_module(path): every prefix in turn; a module that is not yet in
\* sys.modules is entered there, its body is run, and only afterwards it is
\* bound as an attribute of its parent package
ImportChain(w, st, path, i) ==
  IF st.err # "" \/ i > Len(path) THEN st
  ELSE LET p == SubSeq(path, 1, i) IN
    IF p \notin Mods(w) THEN Fail(st, "ModuleNotFoundError")
    ELSE IF i > 1 /\ ~IsPkg(w, SubSeq(path, 1, i - 1)) THEN Fail(st, "ModuleNotFoundError")
    ELSE IF Started(st, p) THEN ImportChain(w, st, path, i + 1)
    ELSE LET s1 == [st EXCEPT !.ns = Put(@, p, EmptyFn)]
             s2 == ExecFrom(w, s1, p, 1)
             s3 == IF s2.err = "" /\ i > 1 THEN Bind(s2, Front(p), Last(p), ModV(p)) ELSE s2
         IN ImportChain(w, s3, path, i + 1)

\* _handle_fromlist: names that are not attributes of a package are tried as
\* submodules (a missing submodule is not an error here)
RECURSIVE FromList(_, _, _, _, _)
FromList(w, st, t, names, i) ==
  IF st.err # "" \/ i > Len(names) THEN st
  ELSE LET n == names[i]
           sub == Append(t, n)
           s1 == IF ~HasAttr(st, t, n) /\ IsPkg(w, t) /\ sub \in Mods(w)
                 THEN ImportChain(w, st, sub, 1) ELSE st
       IN FromList(w, s1, t, names, i + 1)

\* IMPORT_FROM: getattr, falling back to sys.modules["t.n"]
\* returns <<ok, value>>
ImportFromV(st, t, n) ==
  IF HasAttr(st, t, n) THEN <<TRUE, st.ns[t][n]>>
  ELSE IF Started(st, Append(t, n)) THEN <<TRUE, ModV(Append(t, n))>>
  ELSE <<FALSE, ModV(<<>>)>>

\* import a.b.c as x : IMPORT_FROM b, IMPORT_FROM c starting from module a
RECURSIVE WalkAs(_, _, _)
WalkAs(st, path, i) ==   \* value of path[1..i]
  IF i = 1 THEN <<TRUE, ModV(<<path[1]>>)>>
  ELSE LET r == WalkAs(st, path, i - 1) IN
       IF ~r[1] \/ r[2].t # "mod" THEN <<FALSE, r[2]>>
       ELSE ImportFromV(st, r[2].x, path[i])

RECURSIVE ExecImportItems(_, _, _, _, _)
ExecImportItems(w, st, m, items, i) ==
  IF st.err # "" \/ i > Len(items) THEN st
  ELSE LET it == items[i]
           s1 == ImportChain(w, st, it.path, 1)
           s2 == IF s1.err # "" THEN s1
                 ELSE IF it.as = "" THEN Bind(s1, m, it.path[1], ModV(<<it.path[1]>>))
                 ELSE LET r == WalkAs(s1, it.path, Len(it.path)) IN
                      IF r[1] THEN Bind(s1, m, it.as, r[2]) ELSE Fail(s1, "ImportError")
       IN ExecImportItems(w, s2, m, items, i + 1)

RECURSIVE BindFromItems(_, _, _, _, _)
BindFromItems(st, m, t, items, i) ==
  IF st.err # "" \/ i > Len(items) THEN st
  ELSE LET it == items[i]
           r == ImportFromV(st, t, it.n)
           s1 == IF r[1]
                 THEN Bind(NoteRead(st, m, t, it.n), m, IF it.as = "" THEN it.n ELSE it.as, r[2])
                 ELSE Fail(st, "ImportError")
       IN BindFromItems(s1, m, t, items, i + 1)

\* names a star import copies: __all__ if present, else the public names
StarNamesOf(ns) ==
  IF "__all__" \in DOMAIN ns THEN ns["__all__"].x
  ELSE SeqOfSet({n \in DOMAIN ns : n \notin Private /\ n # "__all__"})

RECURSIVE BindStar(_, _, _, _, _)
BindStar(st, m, t, names, i) ==
  IF st.err # "" \/ i > Len(names) THEN st
  ELSE LET n == names[i]
           s1 == IF HasAttr(st, t, n) THEN Bind(NoteRead(st, m, t, n), m, n, st.ns[t][n])
                 ELSE Fail(st, "AttributeError")
       IN BindStar(s1, m, t, names, i + 1)

ExecFromStmt(w, st, m, s) ==
  LET t == FromTarget(w, m, s) IN
  IF t = <<>> THEN Fail(st, "ImportError")
  ELSE LET s1 == ImportChain(w, st, t, 1) IN
    IF s1.err # "" THEN s1
    ELSE IF IsStar(s) THEN
      LET hasAll == "__all__" \in DOMAIN s1.ns[t]
          s2 == IF hasAll THEN FromList(w, s1, t, s1.ns[t]["__all__"].x, 1) ELSE s1
      IN IF s2.err # "" THEN s2 ELSE BindStar(s2, m, t, StarNamesOf(s2.ns[t]), 1)
    ELSE LET names == [j \in DOMAIN s.items |-> s.items[j].n]
             s2 == FromList(w, s1, t, names, 1)
         IN BindFromItems(s2, m, t, s.items, 1)

\* value of reference e in module m: <<"" | error, value>>
RECURSIVE EvalRef(_, _, _, _)
EvalRef(st, m, e, i) ==
  IF i = 1 THEN
    IF HasAttr(st, m, e[1]) THEN <<"", st.ns[m][e[1]]>> ELSE <<"NameError", ModV(<<>>)>>
  ELSE LET r == EvalRef(st, m, e, i - 1) IN
    IF r[1] # "" THEN r
    ELSE IF r[2].t = "mod" /\ HasAttr(st, r[2].x, e[i]) THEN <<"", st.ns[r[2].x][e[i]]>>
    ELSE <<"AttributeError", ModV(<<>>)>>

\* attribute reads of modules made while evaluating e (for Exports)
RefReads(st, m, e) ==
  { <<m, EvalRef(st, m, e, i - 1)[2].x, e[i]>> :
      i \in {j \in 2..Len(e) : EvalRef(st, m, e, j)[1] = ""} }

\* where definition id is written: <<module, statement index>>
DefSite(w, id) ==
  CHOOSE q \in UNION { { <<m, i>> : i \in DOMAIN w.body[m] } : m \in Mods(w) } :
    w.body[q[1]][q[2]].k = "def" /\ w.body[q[1]][q[2]].id = id

\* calling definition id: its references are looked up now, in the module that holds it
\* <<"" | error, ids reached, module attribute reads>>
CallDef(w, st, id) ==
  LET site == DefSite(w, id)
      h == site[1]
      rs == w.body[h][site[2]].refs
      ev == [j \in DOMAIN rs |-> EvalRef(st, h, rs[j], Len(rs[j]))]
      bad == {j \in DOMAIN rs : ev[j][1] # ""}
  IN IF bad # {} THEN <<ev[CHOOSE j \in bad : \A k \in bad : j <= k][1], <<>>, {}>>
     ELSE IF \E j \in DOMAIN rs : ev[j][2].t # "def" THEN <<"NotADefinition", <<>>, {}>>
     ELSE <<"", [j \in DOMAIN rs |-> ev[j][2].x], UNION { RefReads(st, h, rs[j]) : j \in DOMAIN rs }>>

ExecStmt(w, st, m, s) ==
  CASE s.k = "def"    -> Bind(st, m, s.n, DefV(s.id))
    [] s.k = "future" -> st
    [] s.k = "all"    -> Bind(st, m, "__all__", AllV(s.names))
    [] s.k = "import" -> ExecImportItems(w, st, m, s.items, 1)
    [] s.k = "from"   -> ExecFromStmt(w, st, m, s)
    [] s.k = "use"    ->
         LET r == EvalRef(st, m, s.e, Len(s.e)) IN
         IF r[1] # "" THEN Fail(st, r[1])
         ELSE IF r[2].t # "def" THEN Fail(st, "NotADefinition")
         ELSE LET c == CallDef(w, st, r[2].x) IN
              IF c[1] # "" THEN Fail(st, c[1])
              ELSE [st EXCEPT !.out = Append(@, <<w.mid[m], r[2].x, c[2]>>),
                              !.reads = @ \cup RefReads(st, m, s.e) \cup c[3]]

\* python -c "import <e>"
RunEntry(w, e) == ImportChain(w, St0, e, 1)

-----------------------------------------------------------------------------
(* Part 2: observables *)

OwnLines(out, i) == SelectSeq(out, LAMBDA l : l[1] = i)

\* what running module e as the entry shows of e itself
ObsOf(w, e) == LET r == RunEntry(w, e) IN [out |-> OwnLines(r.out, w.mid[e]), err |-> r.err]
\* ... for every module, by module identity
Obs(w) == { <<w.mid[e], ObsOf(w, e)>> : e \in Mods(w) }

\* modules an import statement of m names (statically): the target, and from-imported
\* names that are submodules; asking for one also asks for every package on the way
StmtTargets(w, m, s) ==
  CASE s.k = "import" -> { it.path : it \in Range(s.items) }
    [] s.k = "from" ->
         LET t == FromTarget(w, m, s)
         IN {t} \cup { Append(t, it.n) : it \in Range(s.items) }
    [] OTHER -> {}
\* the modules a statement imports as such ( from . import sub  in a package __init__ names the
\* submodule, not the package; taking one of its own globals that way names the package itself)
SelfNamed(w, m, s) ==
  CASE s.k = "import" -> { it.path : it \in Range(s.items) }
    [] s.k = "from" ->
         LET t == FromTarget(w, m, s)
         IN { Append(t, it.n) : it \in Range(s.items) }
            \cup (IF t = m /\ \E it \in Range(s.items) : Append(m, it.n) \notin Mods(w) THEN {m} ELSE {})
    [] OTHER -> {}
Prefixes(path) == {SubSeq(path, 1, i) : i \in 1..Len(path)}
StmtLoads(w, m, s) == UNION { Prefixes(t) : t \in StmtTargets(w, m, s) }

\* in a package __init__ the module's globals are the package's attributes: loading a direct
\* submodule binds its name there as well
SubmoduleNames(w, m, s) ==
  IF IsPkg(w, m) /\ s.k \in {"import", "from"}
  THEN { Last(q) : q \in { t \in StmtLoads(w, m, s) : Len(t) = Len(m) + 1 /\ IsPrefix(m, t) /\ t \in Mods(w) } }
  ELSE {}

\* import edges; packages above m are already in sys.modules whenever m runs, so passing
\* through them starts nothing; a module that names itself is a cycle
DependsOn(w, m) ==
  LET stmts == { w.body[m][i] : i \in DOMAIN w.body[m] } IN
  { t \in UNION { StmtLoads(w, m, s) : s \in stmts } : t \in Mods(w) /\ ~IsPrefix(t, m) }
  \cup (IF \E s \in stmts : m \in SelfNamed(w, m, s) THEN {m} ELSE {})

RECURSIVE ReachN(_, _, _)
ReachN(w, S, n) ==
  IF n = 0 THEN S
  ELSE ReachN(w, S \cup UNION { DependsOn(w, x) : x \in S }, n - 1)
Reachable(w, m) == ReachN(w, DependsOn(w, m), Cardinality(Mods(w)))

\* no module (transitively) imports itself
Acyclic(w) == \A m \in Mods(w) : m \notin Reachable(w, m)

\* attribute reads of modules made in any entry run
AllReads(w) == UNION { RunEntry(w, e).reads : e \in Mods(w) }

\* names of module m that something outside m relies on: __all__, and the
\* attributes of m read by other modules (rd = AllReads(w))
ExportedNamesR(w, rd, m) ==
  LET own == RunEntry(w, m).ns[m]
      listed == IF "__all__" \in DOMAIN own THEN Range(own["__all__"].x) ELSE {}
  IN listed \cup {r[3] : r \in {q \in rd : q[2] = m /\ q[1] # m}}
ExportedNames(w, m) == ExportedNamesR(w, AllReads(w), m)

\* value of name n of module m after importing m on its own
ExportValue(w, m, n) ==
  LET own == RunEntry(w, m).ns[m]
  IN IF n \in DOMAIN own THEN own[n] ELSE ModV(<<"?">>)

\* per module the set of <<exported name, value>>
ExportsAll(w) ==
  LET rd == AllReads(w) IN
  [m \in Mods(w) |->
     LET own == RunEntry(w, m).ns[m]
     IN { <<n, IF n \in DOMAIN own THEN own[n] ELSE ModV(<<"?">>)>> : n \in ExportedNamesR(w, rd, m) }]

SetBody0(w, m, b) == [w EXCEPT !.body[m] = b]

FromItemName(it) == IF it.as = "" THEN it.n ELSE it.as
ImpItemName(it) == IF it.as = "" THEN it.path[1] ELSE it.as

\* names a star import provides (namespace of the target imported on its own)
StarProvided(w, m, s) ==
  LET t == FromTarget(w, m, s) IN Range(StarNamesOf(RunEntry(w, t).ns[t]))

\* names a statement binds by what it says
DeclaredNames(w, m, s) ==
  CASE s.k = "import" -> { ImpItemName(it) : it \in Range(s.items) }
    [] s.k = "from" -> IF IsStar(s) THEN StarProvided(w, m, s)
                       ELSE { FromItemName(it) : it \in Range(s.items) }
    [] s.k = "def" -> {s.n}
    [] OTHER -> {}

BoundNames(w, m, s) == DeclaredNames(w, m, s) \cup SubmoduleNames(w, m, s)

\* Packages gain their submodules as attributes as a side effect of whoever imports the
\* submodule first.  The fragment only has references that do not lean on somebody else's
\* import for that: a reference that walks from a package to a submodule attribute either
\* starts at a plain  import pkg.sub...  of this module that asks for that very submodule,
\* or the package's own body binds the name; and the name a reference starts with is bound by
\* a statement of its own module (in a package __init__ it could otherwise be a submodule that
\* some other module happened to import).
StmtBindsName(s, n) ==
  CASE s.k = "import" -> \E it \in Range(s.items) : (IF it.as = "" THEN it.path[1] ELSE it.as) = n
    [] s.k = "from" -> \E it \in Range(s.items) : (IF it.as = "" THEN it.n ELSE it.as) = n \/ it.n = "*"
    [] s.k = "def" -> s.n = n
    [] OTHER -> FALSE
OwnBinds(w, pkg, n) == \E i \in DOMAIN w.body[pkg] : StmtBindsName(w.body[pkg][i], n)

\* submodules reached as attributes of their package while evaluating e
Traversed(st, m, e) ==
  { EvalRef(st, m, e, j)[2].x :
      j \in { i \in 2..Len(e) :
               /\ EvalRef(st, m, e, i)[1] = ""
               /\ EvalRef(st, m, e, i)[2].t = "mod"
               /\ EvalRef(st, m, e, i - 1)[2].t = "mod"
               /\ EvalRef(st, m, e, i)[2].x = Append(EvalRef(st, m, e, i - 1)[2].x, e[i]) } }

UseJustified(w, m, st, r) ==
  LET b == w.body[m]
      e == b[r].e
  IN /\ \E i \in 1..(r - 1) : e[1] \in BoundNames(w, m, b[i])
     /\ \A q \in Traversed(st, m, e) :
       \/ OwnBinds(w, Front(q), Last(q))
       \/ \E i \in 1..(r - 1) :
            /\ b[i].k = "import"
            /\ \E it \in Range(b[i].items) : it.as = "" /\ it.path[1] = e[1] /\ IsPrefix(q, it.path)
            /\ \A j \in (i + 1)..(r - 1) :
                 e[1] \in BoundNames(w, m, b[j]) =>
                   (b[j].k = "import" /\ \A it \in Range(b[j].items) : it.path[1] = e[1] => it.as = "")

SelfContained(w) ==
  \A m \in Mods(w) :
    LET st == RunEntry(w, m) IN
    \A r \in DOMAIN w.body[m] : w.body[m][r].k = "use" => UseJustified(w, m, st, r)

\* the fragment: every module can be the entry, imports are not circular, and no reference
\* relies on the side effect of an import it does not start from
WellFormed(w) ==
  /\ Acyclic(w)
  /\ \A e \in Mods(w) : RunEntry(w, e).err = ""
  /\ SelfContained(w)

\* per statement of module m the set of <<name, value>> it binds
BindingsOf(w, m) ==
  [i \in DOMAIN w.body[m] |->
     LET ns == RunEntry(SetBody0(w, m, SubSeq(w.body[m], 1, i)), m).ns[m]
     IN { <<n, ns[n]>> : n \in BoundNames(w, m, w.body[m][i]) \cap DOMAIN ns }]

\* Features of a written module that single out classes of programs.  The plain fragment has
\* none of them; each is explored on its own (constant Features).
\*   late      an import statement follows a statement that is not an import
\*   future    a __future__ import
\*   rebind    a name is bound by two statements to different objects
\*   twopaths  two different references of the module reach the same definition
\*   starplus  a star import and another import statement of the same module
\*   starall   a star import of a module whose __all__ leaves out a public name
\*   allimport __all__ of the module lists a name that an import statement binds
\*   reexport  another module takes a name from this module that an import statement binds
\*             and __all__ does not list
\*   initsub   in a package __init__, a reference starts with the name of a submodule that is
\*             only bound because an import statement of the __init__ loaded that submodule
\*   relmoved  a relative from-import that names a module some request may move or rename
\*             (as its target, on the way to it, or as the imported name)
\*   asmoved   an aliased from-import (from m import n as y) of something that is not a submodule
\*             of m, where some request may move m or take a definition out of it
\*   assub     an aliased from-import of a submodule (from p import m as y) that some request may
\*             move or rename (itself or a package above it)
\*   rootref   a plain import of a module some request may move, and a reference that starts with
\*             the top-level name that import bound but does not go through that module
\*   fromsub   a from-import whose imported name is a submodule of the package it names
\*   siblings  two plain imports of different dotted paths under the same top-level package
IsLate(b) == \E i \in DOMAIN b, j \in DOMAIN b : i < j /\ ~IsImportStmt(b[i]) /\ IsImportStmt(b[j])

ImportedNames(w, m) ==
  UNION { BoundNames(w, m, w.body[m][i]) : i \in {j \in DOMAIN w.body[m] : IsImportStmt(w.body[m][j])} }

TagsOfModule(w, m, exported) ==
  LET b == w.body[m]
      bd == BindingsOf(w, m)
      st == RunEntry(w, m)
      own == st.ns[m]
      uses == {i \in DOMAIN b : b[i].k = "use"}
      exprs == { b[i].e : i \in uses }
               \cup UNION { Range(b[i].refs) : i \in {j \in DOMAIN b : b[j].k = "def"} }
      stars == {i \in DOMAIN b : IsStar(b[i])}
      listed == IF "__all__" \in DOMAIN own THEN Range(own["__all__"].x) ELSE {}
      targetNs(i) == RunEntry(w, FromTarget(w, m, b[i])).ns[FromTarget(w, m, b[i])]
  IN (IF IsLate(b) THEN {"late"} ELSE {})
     \cup (IF \E i \in DOMAIN b : b[i].k = "future" THEN {"future"} ELSE {})
     \cup (IF \E i \in DOMAIN b, j \in DOMAIN b : i < j /\
               \E p \in bd[i], q \in bd[j] : p[1] = q[1] /\ p[2] # q[2]
           THEN {"rebind"} ELSE {})
     \cup (IF \E i \in uses, j \in uses : b[i].e # b[j].e /\
               EvalRef(st, m, b[i].e, Len(b[i].e))[2] = EvalRef(st, m, b[j].e, Len(b[j].e))[2]
           THEN {"twopaths"} ELSE {})
     \cup (IF \E i \in stars, j \in DOMAIN b : i # j /\ IsImportStmt(b[j]) /\ b[j].k # "future" /\
               FromTarget(w, m, b[i]) \in StmtTargets(w, m, b[j])
           THEN {"starplus"} ELSE {})
     \cup (IF \E i \in stars : "__all__" \in DOMAIN targetNs(i) /\
               \E n \in DOMAIN targetNs(i) : n \notin Private /\ n # "__all__"
                                             /\ n \notin Range(targetNs(i)["__all__"].x)
           THEN {"starall"} ELSE {})
     \cup (IF \E i \in uses : \A j \in DOMAIN b : b[i].e[1] \notin DeclaredNames(w, m, b[j])
           THEN {"initsub"} ELSE {})
     \cup (IF \E i \in DOMAIN b : b[i].k = "from" /\ b[i].level > 0 /\
               \/ \E p \in w.msrc \cup w.reloc : IsPrefix(p, FromTarget(w, m, b[i]))
               \/ \E it \in Range(b[i].items) : it.n \in { Last(p) : p \in w.msrc \cup w.reloc }
           THEN {"relmoved"} ELSE {})
     \cup (IF \E i \in DOMAIN b : b[i].k = "from" /\ ~IsStar(b[i]) /\
               (\E it \in Range(b[i].items) :
                  it.as # "" /\ Append(FromTarget(w, m, b[i]), it.n) \notin Mods(w)) /\
               \E p \in w.msrc \cup w.reloc : IsPrefix(p, FromTarget(w, m, b[i]))
           THEN {"asmoved"} ELSE {})
     \cup (IF \E i \in DOMAIN b : b[i].k = "from" /\ ~IsStar(b[i]) /\
               \E it \in Range(b[i].items) :
                  /\ it.as # "" /\ Append(FromTarget(w, m, b[i]), it.n) \in Mods(w)
                  /\ \E p \in w.reloc : IsPrefix(p, Append(FromTarget(w, m, b[i]), it.n))
           THEN {"assub"} ELSE {})
     \cup (IF \E i \in DOMAIN b : b[i].k = "import" /\
               \E it \in Range(b[i].items) :
                  /\ it.as = "" /\ Len(it.path) >= 2
                  /\ \E p \in w.reloc : IsPrefix(p, it.path)
                  /\ \E e \in exprs : e[1] = it.path[1] /\ ~IsPrefix(it.path, e) /\
                        \A j \in DOMAIN b : b[j].k = "import" =>
                           \A o \in Range(b[j].items) : o.as = "" => (o.path = it.path \/ ~IsPrefix(o.path, e))
           THEN {"rootref"} ELSE {})
     \cup (IF \E i \in DOMAIN b : b[i].k = "from" /\ ~IsStar(b[i]) /\
               \E it \in Range(b[i].items), q \in bd[i] :
                  q[1] = FromItemName(it) /\ q[2].t = "mod" /\ q[2].x = Append(FromTarget(w, m, b[i]), it.n)
           THEN {"fromsub"} ELSE {})
     \cup (IF \E i \in DOMAIN b, j \in DOMAIN b : b[i].k = "import" /\ b[j].k = "import" /\
               \E x \in Range(b[i].items), y \in Range(b[j].items) :
                  x.as = "" /\ y.as = "" /\ x.path[1] = y.path[1] /\ x.path # y.path
           THEN {"siblings"} ELSE {})
     \cup (IF listed \cap ImportedNames(w, m) # {} THEN {"allimport"} ELSE {})
     \cup (IF (exported \ listed) \cap ImportedNames(w, m) # {} THEN {"reexport"} ELSE {})

\* the written modules, and the modules a C05 request takes apart
TaggedModules(w) == Range(w.open) \cup w.msrc \cup w.mdst
\* a module that may be relocated, or that sits next to one, re-exports a name its imports bind
\* (only this feature is looked at for the fixed modules of a relocation world)
ReexportsImported(w, m, exported) ==
  LET own == RunEntry(w, m).ns[m]
      listed == IF "__all__" \in DOMAIN own THEN Range(own["__all__"].x) ELSE {}
  IN (exported \ listed) \cap ImportedNames(w, m) # {}

\* a package that may be relocated contains a relative import that leaves the package
\*   reloutside  (feature of relocation worlds)
RelativeLeavesPackage(w) ==
  \E pk \in w.reloc \cap w.pkgs : \E m \in Mods(w) :
    /\ IsPrefix(pk, m)
    /\ \E k \in DOMAIN w.body[m] :
         w.body[m][k].k = "from" /\ w.body[m][k].level > 0 /\ ~IsPrefix(pk, FromTarget(w, m, w.body[m][k]))

TagsWith(w, exports) ==
  (IF RelativeLeavesPackage(w) THEN {"reloutside"} ELSE {}) \cup
  UNION { TagsOfModule(w, m, {q[1] : q \in exports[m]}) : m \in TaggedModules(w) }
  \cup (IF \E m \in Mods(w) \ TaggedModules(w) :
             w.reloc # {} /\ ReexportsImported(w, m, {q[1] : q \in exports[m]})
        THEN {"reexport"} ELSE {})

Info(w) ==
  LET ex == ExportsAll(w) IN
  [obs |-> Obs(w), exports |-> ex,
   bindings |-> [m \in Range(w.open) |-> BindingsOf(w, m)],
   tags |-> TagsWith(w, ex)]

-----------------------------------------------------------------------------
(* Part 3: TLC writes the open modules of a world statement by statement,  *)
(* in the order given by the world (consumers last).  A statement is only  *)
(* appended if the module still imports without error, so every prefix is  *)
(* a running program and each program is reached along exactly one path.   *)

Cur == Head(open)
CountK(b, ks) == Cardinality({i \in DOMAIN b : b[i].k \in ks})
WithStmt(w, m, s) == [w EXCEPT !.body[m] = Append(@, s)]

ModNames(w) == {Last(p) : p \in Mods(w)}
Importable(w) == DefNames \cup ModNames(w)
Others(w, m) == Mods(w) \ {m}

\* (level, relative path) pairs by which module m can name module t
RelForms(w, m, t) ==
  LET pk == PkgOf(w, m) IN
  IF Len(pk) = 0 THEN {}
  ELSE { <<lv, SubSeq(t, Len(pk) - lv + 2, Len(t))>> :
           lv \in {l \in 1..Len(pk) : IsPrefix(SubSeq(pk, 1, Len(pk) - l + 1), t)} }

ImportAlphabet(w, m) ==
  (IF "import" \in Forms THEN { Import(<<ImpItem(t, "")>>) : t \in Others(w, m) } ELSE {})
  \cup (IF "importas" \in Forms THEN { Import(<<ImpItem(t, ImpAlias)>>) : t \in Others(w, m) } ELSE {})
  \cup (IF "import2" \in Forms
        THEN { Import(<<ImpItem(tt[1], ""), ImpItem(tt[2], "")>>) :
                 tt \in {uu \in Others(w, m) \X Others(w, m) : uu[1] # uu[2]} }
        ELSE {})
  \cup (IF "from" \in Forms
        THEN { From(0, t, <<FromItem(n, "")>>) : t \in Others(w, m), n \in Importable(w) } ELSE {})
  \cup (IF "fromas" \in Forms
        THEN { From(0, t, <<FromItem(n, FromAlias)>>) : t \in Others(w, m), n \in Importable(w) } ELSE {})
  \cup (IF "from2" \in Forms
        THEN { From(0, t, <<FromItem(nn[1], ""), FromItem(nn[2], "")>>) : t \in Others(w, m),
                 nn \in {pp \in DefNames \X DefNames : Rank[pp[1]] < Rank[pp[2]]} }
        ELSE {})
  \cup (IF "star" \in Forms THEN { From(0, t, Star) : t \in Others(w, m) } ELSE {})
  \cup (IF "rel" \in Forms
        THEN UNION { { From(f[1], f[2], <<FromItem(n, "")>>) : f \in RelForms(w, m, t), n \in Importable(w) }
                     : t \in Others(w, m) \cup {PkgOf(w, m)} }
        ELSE {})
  \cup (IF "rel2" \in Forms
        THEN UNION { { From(f[1], f[2], <<FromItem(nn[1], ""), FromItem(nn[2], "")>>) :
                         f \in {g \in RelForms(w, m, t) : g[2] # <<>>},
                         nn \in {pp \in DefNames \X DefNames : Rank[pp[1]] < Rank[pp[2]]} }
                     : t \in Others(w, m) }
        ELSE {})
  \cup (IF "relstar" \in Forms
        THEN UNION { { From(f[1], f[2], Star) : f \in {g \in RelForms(w, m, t) : g[2] # <<>>} }
                     : t \in Others(w, m) }
        ELSE {})
  \cup (IF "future" \in Forms /\ w.body[m] = <<>> THEN {Future} ELSE {})

\* references that reach a definition, from value v, at most d more attributes
RECURSIVE RefsFrom(_, _, _, _)
RefsFrom(st, prefix, v, d) ==
  IF v.t = "def" THEN {prefix}
  ELSE IF v.t # "mod" \/ d = 0 \/ ~Started(st, v.x) THEN {}
  ELSE UNION { RefsFrom(st, Append(prefix, n), st.ns[v.x][n], d - 1) :
                 n \in DOMAIN st.ns[v.x] \ {"__all__"} }

UseAlphabet(w, m) ==
  LET st == RunEntry(w, m)
      refs == UNION { RefsFrom(st, <<n>>, st.ns[m][n], MaxChain - 1) : n \in DOMAIN st.ns[m] \ {"__all__"} }
  IN { Use(e, fn) : e \in refs, fn \in FnFlags }

DefAlphabet(w, m) ==
  LET have == {w.body[m][i].n : i \in {j \in DOMAIN w.body[m] : w.body[m][j].k = "def"}}
  IN { Def(n, "fn", Append(m, n)) : n \in OwnDefs \ have }

AllAlphabet(w, m) ==
  IF "all" \notin Forms \/ CountK(w.body[m], {"all"}) > 0 THEN {}
  ELSE LET ns == RunEntry(w, m).ns[m]
           defs == {n \in DOMAIN ns : n # "__all__" /\ ns[n].t = "def"}
       IN { All(SeqOfSet(S)) : S \in {T \in SUBSET defs : Cardinality(T) \in 1..2} }

AddStmt ==
  /\ phase = "build" /\ open # <<>>
  /\ LET m == Cur
         b == W.body[m]
         cand == (IF CountK(b, {"import", "from", "future"}) < MaxImports THEN ImportAlphabet(W, m) ELSE {})
                 \cup (IF CountK(b, {"use"}) < MaxUses THEN UseAlphabet(W, m) ELSE {})
                 \cup DefAlphabet(W, m) \cup AllAlphabet(W, m)
     IN /\ Len(b) < MaxStmts
        /\ \E s \in cand :
             /\ "late" \in Features \/ ~IsLate(Append(b, s))
             /\ RunEntry(WithStmt(W, m, s), m).err = ""
             /\ W' = WithStmt(W, m, s)
  /\ UNCHANGED <<W0, open, phase, act, info>>

NextOpen ==
  /\ phase = "build" /\ open # <<>>
  /\ open' = Tail(open)
  /\ UNCHANGED <<W, W0, phase, act, info>>

Finish ==
  /\ phase = "build" /\ open = <<>>
  /\ WellFormed(W)
  /\ LET inf == Info(W) IN inf.tags \subseteq Features /\ info' = inf
  /\ phase' = "built" /\ W0' = W
  /\ UNCHANGED <<W, open, act>>

-----------------------------------------------------------------------------
(* Part 4a: import tidying (C07) on the abstract program.  Each operator   *)
(* is a reference refactoring: what it removes or rewrites is decided by   *)
(* syntactic rules on the statement list, and TLC checks on every          *)
(* enumerated program that these rules keep the observable.                *)

\* the facts about module m of world w the operators below consult
\*   en : names of m something outside m relies on (kept alive at the end of the module)
Ctx(w, m, en) == [w |-> w, m |-> m, en |-> en]
\* names bound by each statement of body b
BN(c, b) == [i \in DOMAIN b |-> BoundNames(c.w, c.m, b[i])]

\* s binds n only through plain  import n.x.y  items (the same module object)
OnlyPlainFor(s, n) ==
  s.k = "import" /\ \A it \in Range(s.items) : ImpItemName(it) = n => it.as = ""

\* does statement s (binding names bns) end the life of name n bound earlier
\* (plain: n was bound by a plain import, which another plain import of n.* does not disturb)
KillsName(s, bns, n, plain) == n \in bns /\ ~(plain /\ OnlyPlainFor(s, n))

\* name n, bound by statement i of body b, is read before it is rebound
NameLive(c, b, bn, i, n, plain) ==
  \E r \in (i + 1)..(Len(b) + 1) :
    /\ \A j \in (i + 1)..(r - 1) : ~KillsName(b[j], bn[j], n, plain)
    /\ IF r = Len(b) + 1 THEN n \in c.en
       ELSE b[r].k = "use" /\ b[r].e[1] = n

\* an identical plain item earlier, with the name not rebound in between
EarlierSamePlain(b, bn, i, it) ==
  \E j \in 1..(i - 1) :
    /\ b[j].k = "import" /\ \E o \in Range(b[j].items) : o = it
    /\ \A q \in (j + 1)..(i - 1) : ~KillsName(b[q], bn[q], it.path[1], TRUE)

KeepImpItem(c, b, bn, i, it) ==
  IF it.as = "" THEN NameLive(c, b, bn, i, it.path[1], TRUE) /\ ~EarlierSamePlain(b, bn, i, it)
  ELSE NameLive(c, b, bn, i, it.as, FALSE)

\* statement i with its dead items removed; <<>> if nothing is left
LiveStmt(c, b, bn, i) ==
  LET s == b[i] IN
  IF \E n \in SubmoduleNames(c.w, c.m, s) : NameLive(c, b, bn, i, n, FALSE) THEN <<s>> ELSE
  CASE s.k = "import" ->
         LET its == SelectSeq(s.items, LAMBDA it : KeepImpItem(c, b, bn, i, it))
         IN IF its = <<>> THEN <<>> ELSE <<Import(its)>>
    [] s.k = "from" ->
         IF IsStar(s)
         THEN IF \E n \in bn[i] : NameLive(c, b, bn, i, n, FALSE) THEN <<s>> ELSE <<>>
         ELSE LET its == SelectSeq(s.items, LAMBDA it : NameLive(c, b, bn, i, FromItemName(it), FALSE))
              IN IF its = <<>> THEN <<>> ELSE <<From(s.level, s.path, its)>>
    [] OTHER -> <<s>>

RECURSIVE FlatMap(_, _, _)
FlatMap(n, F(_), i) == IF i > n THEN <<>> ELSE F(i) \o FlatMap(n, F, i + 1)

DropDead(c, b) == LET bn == BN(c, b) IN FlatMap(Len(b), LAMBDA i : LiveStmt(c, b, bn, i), 1)

SplitStmt(s) ==
  CASE s.k = "import" -> [j \in DOMAIN s.items |-> Import(<<s.items[j]>>)]
    [] s.k = "from" -> [j \in DOMAIN s.items |-> From(s.level, s.path, <<s.items[j]>>)]
    [] OTHER -> <<s>>
SplitAll(b) == FlatMap(Len(b), LAMBDA i : SplitStmt(b[i]), 1)

\* two statements bind the same name and are not both plain imports of it
Conflict(c, b) ==
  LET bn == BN(c, b) IN
  \E i \in DOMAIN b, j \in DOMAIN b :
    /\ i < j
    /\ \E n \in bn[i] \cap bn[j] : ~(OnlyPlainFor(b[i], n) /\ OnlyPlainFor(b[j], n))

RECURSIVE LexLess(_, _)
LexLess(a, b) ==
  IF b = <<>> THEN FALSE
  ELSE IF a = <<>> THEN TRUE
  ELSE IF a[1] # b[1] THEN a[1] < b[1]
  ELSE LexLess(Tail(a), Tail(b))

Ranks(path) == [i \in DOMAIN path |-> Rank[path[i]]]
SortKey(s, alpha) ==
  CASE s.k = "future" -> <<0>>
    [] s.k = "import" -> (IF alpha THEN <<1>> ELSE <<1, 0>>) \o Ranks(s.items[1].path)
    [] s.k = "from" -> (IF alpha THEN <<1>> ELSE <<1, 1>>) \o <<s.level>> \o Ranks(s.path)
                        \o <<Rank[s.items[1].n]>>

RECURSIVE InsertSorted(_, _, _)
InsertSorted(sorted, s, alpha) ==
  IF sorted = <<>> THEN <<s>>
  ELSE IF LexLess(SortKey(s, alpha), SortKey(Head(sorted), alpha))
       THEN <<s>> \o sorted
       ELSE <<Head(sorted)>> \o InsertSorted(Tail(sorted), s, alpha)
RECURSIVE SortStmts(_, _)
SortStmts(ss, alpha) ==
  IF ss = <<>> THEN <<>> ELSE InsertSorted(SortStmts(Front(ss), alpha), Last(ss), alpha)

Hoist(b, alpha) ==
  SortStmts(SelectSeq(b, IsImportStmt), alpha) \o SelectSeq(b, LAMBDA s : ~IsImportStmt(s))

OrganizeBody(w, m, en, prefs) ==
  LET c == Ctx(w, m, en)
      b1 == DropDead(c, w.body[m])
      b2 == IF prefs.split THEN SplitAll(b1) ELSE b1
  IN IF Conflict(c, b2) THEN b2 ELSE Hoist(b2, prefs.alpha)

ExpandStmt(c, b, bn, i) ==
  LET s == b[i] IN
  IF IsStar(s)
  THEN LET live == {n \in StarProvided(c.w, c.m, s) : NameLive(c, b, bn, i, n, FALSE)}
           names == SeqOfSet(live)
           side == \E n \in SubmoduleNames(c.w, c.m, s) : NameLive(c, b, bn, i, n, FALSE)
       IN IF live = {} THEN (IF side THEN <<s>> ELSE <<>>)
          ELSE <<From(s.level, s.path, [j \in DOMAIN names |-> FromItem(names[j], "")])>>
  ELSE <<s>>
ExpandStarBodyC(c, b) == LET bn == BN(c, b) IN FlatMap(Len(b), LAMBDA i : ExpandStmt(c, b, bn, i), 1)
ExpandStarBody(w, m, en) == ExpandStarBodyC(Ctx(w, m, en), w.body[m])

RelToAbsOf(w, m, b) ==
  [i \in DOMAIN b |->
     IF b[i].k = "from" /\ b[i].level > 0 THEN From(0, FromTarget(w, m, b[i]), b[i].items) ELSE b[i]]
RelToAbsBody(w, m) == RelToAbsOf(w, m, w.body[m])

SetBody(w, m, b) == [w EXCEPT !.body[m] = b]

\* number of statements of b that bind name n
BindCount(bn, n) == Cardinality({i \in DOMAIN bn : n \in bn[i]})

\* top-level name t can be introduced by a plain import without disturbing b
FreeForPlain(b, bn, t) ==
  \A i \in DOMAIN b : t \in bn[i] => OnlyPlainFor(b[i], t)

RewriteUses(b, from, to) ==   \* references starting with `from` now start with `to`
  [i \in DOMAIN b |->
     IF b[i].k = "use" /\ IsPrefix(from, b[i].e)
     THEN Use(to \o SubSeq(b[i].e, Len(from) + 1, Len(b[i].e)), b[i].fn) ELSE b[i]]

\* item j of from-import i of b can become a plain import
FromConvertible(c, b, bn, i, j) ==
  LET s == b[i]
      n == FromItemName(s.items[j])
      top == s.path[1]
  IN /\ s.k = "from" /\ ~IsStar(s) /\ s.level = 0
     /\ BindCount(bn, n) = 1
     /\ n \notin c.en
     /\ FreeForPlain(b, bn, top) /\ top # n
     /\ \A q \in DOMAIN b : b[q].k = "def" => b[q].n # top

FromToPlain(c, b, i, j) ==   \* <<new import path, replacement reference>>
  LET s == b[i]
      it == s.items[j]
      final == RunEntry(SetBody(c.w, c.m, b), c.m).ns[c.m]
      n == FromItemName(it)
      isSub == final[n].t = "mod" /\ final[n].x = Append(s.path, it.n)
  IN IF isSub THEN <<Append(s.path, it.n), Append(s.path, it.n)>>
     ELSE <<s.path, Append(s.path, it.n)>>

RECURSIVE FromsStep(_, _, _, _)
\* convert item j of statement i, then go on
FromsStep(c, b, i, j) ==
  IF i > Len(b) THEN b
  ELSE IF b[i].k # "from" \/ j > Len(b[i].items) THEN FromsStep(c, b, i + 1, 1)
  ELSE IF ~FromConvertible(c, b, BN(c, b), i, j) THEN FromsStep(c, b, i, j + 1)
  ELSE LET s == b[i]
           it == s.items[j]
           r == FromToPlain(c, b, i, j)
           rest == [q \in 1..(Len(s.items) - 1) |-> IF q < j THEN s.items[q] ELSE s.items[q + 1]]
           repl == <<Import(<<ImpItem(r[1], "")>>)>>
                   \o (IF rest = <<>> THEN <<>> ELSE <<From(s.level, s.path, rest)>>)
           b1 == SubSeq(b, 1, i - 1) \o repl \o SubSeq(b, i + 1, Len(b))
           b2 == RewriteUses(b1, <<FromItemName(it)>>, r[2])
       IN FromsStep(c, b2, i + 1, 1)

\* converting one item can free the name that blocked another: repeat until stable
RECURSIVE FromsFix(_, _, _)
FromsFix(c, b, n) ==
  LET b1 == FromsStep(c, b, 1, 1) IN IF n = 0 \/ b1 = b THEN b1 ELSE FromsFix(c, b1, n - 1)

FromsToImportsBody(w, m, en) ==
  LET c == Ctx(w, m, en)
      b1 == ExpandStarBodyC(c, w.body[m])
      b2 == RelToAbsOf(w, m, b1)
  IN FromsFix(c, b2, Len(b2))

IsLong(path) == Len(path) >= LongDepth

LongConvertible(b, bn, i, j) ==
  LET it == b[i].items[j]
      last == Last(it.path)
  IN /\ b[i].k = "import" /\ it.as = "" /\ IsLong(it.path)
     /\ BindCount(bn, last) = 0
     /\ last # it.path[1]

RECURSIVE LongStep(_, _, _, _)
LongStep(c, b, i, j) ==
  IF i > Len(b) THEN b
  ELSE IF b[i].k # "import" \/ j > Len(b[i].items) THEN LongStep(c, b, i + 1, 1)
  ELSE IF ~LongConvertible(b, BN(c, b), i, j) THEN LongStep(c, b, i, j + 1)
  ELSE LET it == b[i].items[j]
           new == From(0, Front(it.path), <<FromItem(Last(it.path), "")>>)
           b1 == SubSeq(b, 1, i) \o <<new>> \o SubSeq(b, i + 1, Len(b))
           b2 == RewriteUses(b1, it.path, <<Last(it.path)>>)
       IN LongStep(c, b2, i + 2, 1)

LongImportsBody(w, m, en) ==
  LET c == Ctx(w, m, en) IN DropDead(c, LongStep(c, w.body[m], 1, 1))

C07Actions == {"Organize", "ExpandStar", "FromsToImports", "RelToAbs", "LongImports"}

\* en: the names of a.m that the rest of the program relies on
TidyBody(w, a, en) ==
  CASE a.name = "Organize" -> OrganizeBody(w, a.m, en, a.prefs)
    [] a.name = "ExpandStar" -> ExpandStarBody(w, a.m, en)
    [] a.name = "FromsToImports" -> FromsToImportsBody(w, a.m, en)
    [] a.name = "RelToAbs" -> RelToAbsBody(w, a.m)
    [] a.name = "LongImports" -> LongImportsBody(w, a.m, en)

ApplyAct(w, a, en) ==
  IF a.name \in C07Actions THEN SetBody(w, a.m, TidyBody(w, a, en)) ELSE w

NamesOf(pairs) == {q[1] : q \in pairs}

Tidy ==
  /\ phase = "built"
  /\ \E name \in Actions \cap C07Actions, m \in W.tidy, prefs \in PrefSets :
       LET a == [name |-> name, m |-> m, prefs |-> prefs] IN
       /\ act' = a
       /\ W' = ApplyAct(W, a, NamesOf(info.exports[m]))
  /\ phase' = "done"
  /\ UNCHANGED <<W0, open, info>>

-----------------------------------------------------------------------------
(* Part 4b: moving and renaming (C05) on the abstract program.             *)
(* MoveGlobal  : a top-level definition goes to another module together    *)
(*               with the imports its body needs; the source module keeps  *)
(*               the name available by importing it back                   *)
(* Relocate    : a module or package gets a new dotted path (moved into a  *)
(*               package, or renamed); every import statement and dotted   *)
(*               reference that spells the old path spells the new one     *)
(* ToPackage   : module m.py becomes package m/__init__.py                 *)
(* The enabling conditions below are the legal requests of C05; TLC checks *)
(* that under them the reference refactoring keeps the observable.         *)

AbsStmt(w, m, s) ==
  IF s.k = "from" /\ s.level > 0 THEN From(0, FromTarget(w, m, s), s.items) ELSE s

AllBound(w, m) == UNION { BoundNames(w, m, w.body[m][k]) : k \in DOMAIN w.body[m] }
Binders(w, m, n) == { k \in DOMAIN w.body[m] : n \in BoundNames(w, m, w.body[m][k]) }

\* leading import statements of a body / the rest
RECURSIVE LeadLen(_, _)
LeadLen(b, i) == IF i > Len(b) \/ ~IsImportStmt(b[i]) THEN i - 1 ELSE LeadLen(b, i + 1)
Lead(b) == SubSeq(b, 1, LeadLen(b, 1))
AfterLead(b) == SubSeq(b, LeadLen(b, 1) + 1, Len(b))

\* the statements that give module T the object that name r denotes in S: a from-import of a name
\* defined in S, or the import statement(s) of S that bind r (several only when all of them are
\* plain imports under the same top-level package: import p.b2 / import p.b)
NeededImports(w, S, r) ==
  { IF w.body[S][k].k = "def" THEN From(0, S, <<FromItem(r, "")>>) ELSE AbsStmt(w, S, w.body[S][k])
    : k \in Binders(w, S, r) }
NeedsAreClear(w, S, r) ==
  \/ Cardinality(Binders(w, S, r)) = 1
  \/ Binders(w, S, r) # {} /\ \A k \in Binders(w, S, r) : OnlyPlainFor(w.body[S][k], r)

RefRoots(d) == { d.refs[j][1] : j \in DOMAIN d.refs }

\* a reference of module C that reaches S.n through the module object S now goes through T
\* (inside T itself the name is local)
MGExpr(st, C, S, n, T, e) ==
  LET hits == { j \in 2..Len(e) :
                  /\ e[j] = n
                  /\ EvalRef(st, C, e, j - 1)[1] = ""
                  /\ EvalRef(st, C, e, j - 1)[2].t = "mod"
                  /\ EvalRef(st, C, e, j - 1)[2].x = S }
  IN IF hits = {} THEN e
     ELSE LET j == CHOOSE x \in hits : TRUE
          IN (IF C = T THEN <<n>> ELSE Append(T, n)) \o SubSeq(e, j + 1, Len(e))

MapExpr(s, F(_)) ==
  CASE s.k = "use" -> Use(F(s.e), s.fn)
    [] s.k = "def" -> DefR(s.n, s.kind, s.id, [j \in DOMAIN s.refs |-> F(s.refs[j])])
    [] OTHER -> s

\* import statement s of module C, which took n from S
MGStmt(w, C, S, n, T, s) ==
  IF s.k = "from" /\ FromTarget(w, C, s) = S
  THEN IF IsStar(s)
       THEN IF C # T /\ n \in StarProvided(w, C, s) THEN <<s, From(0, T, <<FromItem(n, "")>>)>> ELSE <<s>>
       ELSE LET keep == SelectSeq(s.items, LAMBDA it : it.n # n)
                took == SelectSeq(s.items, LAMBDA it : it.n = n)
            IN (IF keep = <<>> THEN <<>> ELSE <<From(s.level, s.path, keep)>>)
               \o (IF C = T THEN <<>> ELSE [j \in DOMAIN took |-> From(0, T, <<took[j]>>)])
  ELSE <<s>>

NamesExprRoot(b, n) ==
  \E k \in DOMAIN b :
    \/ b[k].k = "use" /\ b[k].e[1] = n
    \/ b[k].k = "def" /\ \E j \in DOMAIN b[k].refs : b[k].refs[j][1] = n
    \/ b[k].k = "all" /\ n \in Range(b[k].names)

WithTopImport(b, path) ==
  LET fut == IF b # <<>> /\ b[1].k = "future" THEN 1 ELSE 0
  IN SubSeq(b, 1, fut) \o <<Import(<<ImpItem(path, "")>>)>> \o SubSeq(b, fut + 1, Len(b))

HasPlainImport(b, path) ==
  \E k \in DOMAIN b : b[k].k = "import" /\ \E it \in Range(b[k].items) : it.as = "" /\ it.path = path

\* body of client C (any module but S and T) after the move
MGClient(w, C, S, n, T) ==
  LET st == RunEntry(w, C)
      b == w.body[C]
      b1 == FlatMap(Len(b), LAMBDA k : MGStmt(w, C, S, n, T, b[k]), 1)
      b2 == [k \in DOMAIN b1 |-> MapExpr(b1[k], LAMBDA e : MGExpr(st, C, S, n, T, e))]
  IN IF b2 # b1 /\ ~HasPlainImport(b2, T) THEN WithTopImport(b2, T) ELSE b2

\* does the rewriting of client C have to bring in  import T ?
MGNeedsImport(w, C, S, n, T) ==
  LET st == RunEntry(w, C)
      b == w.body[C]
  IN \E k \in DOMAIN b : MapExpr(b[k], LAMBDA e : MGExpr(st, C, S, n, T, e)) # b[k]

\* new statements the destination needs, in a deterministic order
RECURSIVE OrderStmts(_)
OrderStmts(X) ==
  IF X = {} THEN <<>>
  ELSE LET x == CHOOSE y \in X : \A z \in X : ~LexLess(SortKey(z, FALSE), SortKey(y, FALSE))
       IN <<x>> \o OrderStmts(X \ {x})

MGDest(w, S, i, T) ==
  LET d == w.body[S][i]
      st == RunEntry(w, T)
      tb0 == w.body[T]
      tb1 == FlatMap(Len(tb0), LAMBDA k : MGStmt(w, T, S, d.n, T, tb0[k]), 1)
      tb == [k \in DOMAIN tb1 |-> MapExpr(tb1[k], LAMBDA e : MGExpr(st, T, S, d.n, T, e))]
      need == UNION { NeededImports(w, S, r) : r \in RefRoots(d) }
      fresh == { x \in need : \A k \in DOMAIN tb : tb[k] # x }
      fut == IF tb # <<>> /\ tb[1].k = "future" THEN <<tb[1]>> ELSE <<>>
      lead == SubSeq(Lead(tb), Len(fut) + 1, Len(Lead(tb)))
  IN fut \o OrderStmts(fresh) \o lead \o <<d>> \o AfterLead(tb)

MGSource(w, S, i, T) ==
  LET b == w.body[S]
      n == b[i].n
      rest == SubSeq(b, 1, i - 1) \o SubSeq(b, i + 1, Len(b))
      back == IF NamesExprRoot(rest, n) THEN <<From(0, T, <<FromItem(n, "")>>)>> ELSE <<>>
  IN SubSeq(b, 1, i - 1) \o back \o SubSeq(b, i + 1, Len(b))

MoveGlobalOp(w, S, i, T) ==
  LET n == w.body[S][i].n IN
  [w EXCEPT !.body = [m \in DOMAIN w.body |->
                        IF m = S THEN MGSource(w, S, i, T)
                        ELSE IF m = T THEN MGDest(w, S, i, T)
                        ELSE MGClient(w, m, S, n, T)]]

MoveGlobalLegal(w, S, i, T) ==
  /\ S \in Mods(w) /\ T \in Mods(w) /\ S # T
  /\ i \in DOMAIN w.body[S] /\ w.body[S][i].k = "def"
  /\ LET d == w.body[S][i] IN
     /\ Cardinality(Binders(w, S, d.n)) = 1
     \* the destination does not bind the name, except by taking it from the source
     /\ \A k \in Binders(w, T, d.n) :
          w.body[T][k].k = "from" /\ FromTarget(w, T, w.body[T][k]) = S
     /\ \A r \in RefRoots(d) :
          /\ r # d.n
          /\ NeedsAreClear(w, S, r)
          /\ \A x \in NeededImports(w, S, r) :
             \/ \E k \in DOMAIN w.body[T] : w.body[T][k] = x
             \/ \A n \in DeclaredNames(w, S, x) :
                  \A k \in DOMAIN w.body[T] : n \in BoundNames(w, T, w.body[T][k]) =>
                     (OnlyPlainFor(x, n) /\ OnlyPlainFor(w.body[T][k], n))
     \* the names the added statements bind do not collide with each other
     /\ \A r1 \in RefRoots(d), r2 \in RefRoots(d) :
          \A x1 \in NeededImports(w, S, r1), x2 \in NeededImports(w, S, r2) :
            x1 # x2 => \A n \in DeclaredNames(w, S, x1) \cap DeclaredNames(w, S, x2) :
                         OnlyPlainFor(x1, n) /\ OnlyPlainFor(x2, n)
     \* a module that star-imports the destination does not bind, in some other way, a name the
     \* destination gains (the star import would start to provide it)
     /\ LET gained == {d.n} \cup UNION { UNION { DeclaredNames(w, S, x) : x \in NeededImports(w, S, r) }
                                          : r \in RefRoots(d) }
        IN \A C \in Mods(w) \ {T} :
             (\E k \in DOMAIN w.body[C] : IsStar(w.body[C][k]) /\ FromTarget(w, C, w.body[C][k]) = T)
               => \A k \in DOMAIN w.body[C] :
                    (~IsStar(w.body[C][k]) \/ FromTarget(w, C, w.body[C][k]) # T)
                      => BoundNames(w, C, w.body[C][k]) \cap gained = {}
     \* a client that must now spell the destination can do so
     /\ \A C \in Mods(w) \ {S, T} :
          MGNeedsImport(w, C, S, d.n, T) =>
            \A k \in DOMAIN w.body[C] :
              T[1] \in BoundNames(w, C, w.body[C][k]) => OnlyPlainFor(w.body[C][k], T[1])
  /\ Acyclic(MoveGlobalOp(w, S, i, T))

\* ---- a module (with everything below it) gets a new path
NewPath(old, new, p) == IF IsPrefix(old, p) THEN new \o SubSeq(p, Len(old) + 1, Len(p)) ELSE p

\* statement s of a module with only absolute imports, after old became new
RelocStmt(old, new, s) ==
  CASE s.k = "import" ->
         <<Import([j \in DOMAIN s.items |->
                     ImpItem(NewPath(old, new, s.items[j].path), s.items[j].as)])>>
    [] s.k = "from" ->
         IF IsPrefix(old, s.path) THEN <<From(0, NewPath(old, new, s.path), s.items)>>
         ELSE LET hit == { j \in DOMAIN s.items : Append(s.path, s.items[j].n) = old }
                  keep == SelectSeq(s.items, LAMBDA it : Append(s.path, it.n) # old)
                  moved(it) ==
                    LET bind == IF it.as = "" THEN it.n ELSE it.as
                        as == IF bind = Last(new) THEN "" ELSE bind
                    IN IF Len(new) > 1 THEN From(0, Front(new), <<FromItem(Last(new), as)>>)
                       ELSE Import(<<ImpItem(new, IF bind = Last(new) THEN "" ELSE bind)>>)
              IN IF hit = {} THEN <<s>>
                 ELSE (IF keep = <<>> THEN <<>> ELSE <<From(0, s.path, keep)>>)
                      \o FlatMap(Len(s.items),
                                 LAMBDA j : IF j \in hit THEN <<moved(s.items[j])>> ELSE <<>>, 1)
    [] OTHER -> <<s>>

\* dotted paths that plain import statements of body b spell and that start with old
PlainOld(old, b) ==
  UNION { { it.path : it \in { x \in Range(b[k].items) : x.as = "" /\ IsPrefix(old, x.path) } }
          : k \in { j \in DOMAIN b : b[j].k = "import" } }

\* rewrite one expression: the longest plainly imported old path it starts with (or old itself,
\* when the module reaches it through such an import)
RelocExpr(old, new, paths, e) ==
  LET cands == { x \in paths \cup (IF paths = {} THEN {} ELSE {old}) : IsPrefix(x, e) }
  IN IF cands = {} THEN e
     ELSE LET x == CHOOSE y \in cands : \A z \in cands : Len(z) <= Len(y)
          IN NewPath(old, new, x) \o SubSeq(e, Len(x) + 1, Len(e))

RelocBody(w, old, new, m) ==
  LET b0 == RelToAbsOf(w, m, w.body[m])
      paths == PlainOld(old, b0)
      b1 == FlatMap(Len(b0), LAMBDA k : RelocStmt(old, new, b0[k]), 1)
      b2 == [k \in DOMAIN b1 |-> MapExpr(b1[k], LAMBDA e : RelocExpr(old, new, paths, e))]
      \* a plain import of old also bound the first name of old: references to other things under
      \* that name need it back
      lost == Len(old) > 1 /\ new[1] # old[1] /\ paths # {} /\
              \E k \in DOMAIN b2 :
                \/ b2[k].k = "use" /\ b2[k].e[1] = old[1]
                \/ b2[k].k = "def" /\ \E j \in DOMAIN b2[k].refs : b2[k].refs[j][1] = old[1]
      stillBound == \E k \in DOMAIN b2 : b2[k].k = "import" /\
                      \E it \in Range(b2[k].items) : it.as = "" /\ it.path[1] = old[1]
      fut == IF b2 # <<>> /\ b2[1].k = "future" THEN 1 ELSE 0
  IN IF lost /\ ~stillBound
     THEN SubSeq(b2, 1, fut) \o <<Import(<<ImpItem(Front(old), "")>>)>> \o SubSeq(b2, fut + 1, Len(b2))
     ELSE b2

RelocateOp(w, old, new) ==
  LET np(p) == NewPath(old, new, p)
      paths == { np(p) : p \in Mods(w) }
      back(q) == CHOOSE p \in Mods(w) : np(p) = q
  IN [w EXCEPT !.body = [q \in paths |-> RelocBody(w, old, new, back(q))],
               !.pkgs = { np(p) : p \in w.pkgs },
               !.mid = [q \in paths |-> w.mid[back(q)]]]

RelocateLegal(w, old, new) ==
  /\ old \in Mods(w) /\ new # old /\ Len(new) >= 1
  /\ \A p \in Mods(w) : ~IsPrefix(new, p)
  /\ Len(new) = 1 \/ Front(new) \in w.pkgs
  /\ ~IsPrefix(old, Front(new))
  \* the new top-level name is not in use for something else in any module that will spell it
  /\ \A m \in Mods(w) :
       PlainOld(old, RelToAbsOf(w, m, w.body[m])) # {} => new[1] = old[1] \/ new[1] \notin AllBound(w, m)
  \* nobody star-imports the package the module leaves or the one it joins (the set of names such
  \* an import provides would change with the package's submodule attributes)
  /\ \A m \in Mods(w) : \A k \in DOMAIN w.body[m] :
       IsStar(w.body[m][k]) => FromTarget(w, m, w.body[m][k]) \notin {Front(old), Front(new)}
  /\ Acyclic(RelocateOp(w, old, new))

ToPackageOp(w, m) ==
  [w EXCEPT !.body[m] = RelToAbsOf(w, m, w.body[m]), !.pkgs = @ \cup {m}]
ToPackageLegal(w, m) == m \in Mods(w) /\ m \notin w.pkgs

C05Actions == {"MoveGlobal", "MoveModule", "RenameModule", "ToPackage"}

\* the requests of C05 that are legal on world w
LegalMoves(w) ==
  UNION { { [name |-> "MoveGlobal", m |-> S, i |-> i, n |-> w.body[S][i].n, dest |-> T] :
              i \in { j \in DOMAIN w.body[S] : w.body[S][j].k = "def" }, T \in w.mdst }
          : S \in w.msrc }
  \cup { [name |-> "MoveModule", m |-> old, dest |-> pk, new |-> Append(pk, Last(old))] :
           old \in w.reloc, pk \in (w.pkgs \cup {<<>>}) }
  \cup { [name |-> "RenameModule", m |-> old, to |-> nn, new |-> Append(Front(old), nn)] :
           old \in w.reloc, nn \in w.newnames }
  \cup { [name |-> "ToPackage", m |-> m] : m \in w.topkg }

IsLegalMove(w, a) ==
  CASE a.name = "MoveGlobal" -> MoveGlobalLegal(w, a.m, a.i, a.dest)
    [] a.name = "MoveModule" -> a.dest # Front(a.m) /\ RelocateLegal(w, a.m, a.new)
    [] a.name = "RenameModule" -> RelocateLegal(w, a.m, a.new)
    [] a.name = "ToPackage" -> ToPackageLegal(w, a.m)

ApplyMove(w, a) ==
  CASE a.name = "MoveGlobal" -> MoveGlobalOp(w, a.m, a.i, a.dest)
    [] a.name = "MoveModule" -> RelocateOp(w, a.m, a.new)
    [] a.name = "RenameModule" -> RelocateOp(w, a.m, a.new)
    [] a.name = "ToPackage" -> ToPackageOp(w, a.m)

Requests(w) == { a \in LegalMoves(w) : a.name \in Actions /\ IsLegalMove(w, a) }

Move ==
  /\ phase = "built"
  /\ \E a \in Requests(W) :
       /\ act' = a
       /\ W' = ApplyMove(W, a)
  /\ phase' = "done"
  /\ UNCHANGED <<W0, open, info>>

-----------------------------------------------------------------------------
Init ==
  /\ \E w \in Worlds :
       /\ W = w
       /\ open = w.open
  /\ W0 = <<>> /\ phase = "build" /\ act = <<>> /\ info = <<>>

Next == AddStmt \/ NextOpen \/ Finish \/ Tidy \/ Move

Spec == Init /\ [][Next]_vars

-----------------------------------------------------------------------------
(* The clauses, on the state after the refactoring *)

Done == phase = "done"

\* every module, run as the entry, shows what it showed before
ObsPreserved == Done => Obs(W) = info.obs

NonImports(b) == SelectSeq(b, LAMBDA s : ~IsImportStmt(s))
Blank(s) == IF s.k = "use" THEN Use(<<>>, s.fn) ELSE s
Skeleton(b) == [i \in DOMAIN NonImports(b) |-> Blank(NonImports(b)[i])]

\* only import statements and the references they force change
OnlyImportsChange ==
  (Done /\ act.name \in C07Actions) =>
     /\ \A m \in Mods(W0) \ {act.m} : W.body[m] = W0.body[m]
     /\ Mods(W) = Mods(W0)
     /\ Skeleton(W.body[act.m]) = Skeleton(W0.body[act.m])

\* a second application changes nothing
Idempotent ==
  (Done /\ act.name \in C07Actions) => ApplyAct(W, act, ExportedNames(W, act.m)) = W

\* what other modules (or __all__) take from a module is still there
ExportsKept ==
  (Done /\ act.name \notin {"MoveModule", "RenameModule"}) =>
     \A m \in Mods(W0) : \A q \in info.exports[m] :
        \/ act.name = "MoveGlobal" /\ m = act.m /\ q[1] = act.n     \* leaves on purpose
        \/ m \in Mods(W) /\ ExportValue(W, m, q[1]) = q[2]

\* the moved definition, called where it now lives, reaches what its references reached
MovedIdent(w, home, id) == CallDef(w, RunEntry(w, home), id)
MovedSeesItsNames ==
  (Done /\ act.name = "MoveGlobal") =>
     LET id == W0.body[act.m][act.i].id
         before == MovedIdent(W0, act.m, id)
         after == MovedIdent(W, act.dest, id)
     IN after[1] = "" /\ after[2] = before[2]

StillWellFormed == Done => WellFormed(W)

=============================================================================
