------------------------------ MODULE PyInline ------------------------------
(***************************************************************************)
(* Inlining a once-assigned, side-effect-free variable (C04, variable      *)
(* part).  A program is a straight-line sequence of <= MaxLines lines over *)
(* the variables Vars:                                                     *)
(*    t = k | t = r | t = r + k | t = r * 2 | print(r) | print(r * 2)      *)
(* built line by line (AddLine) so that every read is bound.  Exec is a    *)
(* TLA+ interpreter giving the printed values (cross-checked against       *)
(* CPython by running every rendered program).                             *)
(*                                                                         *)
(* The request InlineVar(remove, only, cur) on the variable V is legal iff *)
(* V is assigned exactly once, is read at least once and only later, its   *)
(* expression does not read V, and no variable its expression reads is     *)
(* written between the assignment and a replaced read (IntervalClean);     *)
(* remove with only_current needs V to have a single read.                 *)
(* Its effect is defined semantically: ExecInl evaluates V's expression in *)
(* the environment of each replaced read (what textual substitution with   *)
(* correct parenthesisation means) and skips the assignment iff remove.    *)
(* ObsPreserved: the output is unchanged.  With CheckInterval = FALSE the  *)
(* invariant is violated (sensitivity of the legality predicate).          *)
(***************************************************************************)
EXTENDS Naturals, Sequences, FiniteSets, TLC

CONSTANTS MaxLines, Vars, V, CheckInterval

Lits == {1, 3}
Exprs ==
  [op : {"lit"}, r : {""}, k : Lits] \cup [op : {"var"}, r : Vars, k : {0}]
  \cup [op : {"add"}, r : Vars, k : {5}] \cup [op : {"mul"}, r : Vars, k : {0}]
Lines ==
  [kind : {"assign"}, t : Vars, e : Exprs]
  \cup [kind : {"print"}, t : {""}, e : [op : {"var", "mul"}, r : Vars, k : {0}]]

Reads(e) == IF e.op = "lit" THEN {} ELSE {e.r}
Compound(e) == e.op \in {"add"}             \* an expression that needs parentheses under *
Tight(e) == e.op = "mul"                    \* the read is an operand of *

Unbound == 0 - 0   \* environments map every variable; 0 = not yet bound (values are >= 1)
Eval(e, env) ==
  CASE e.op = "lit" -> e.k
    [] e.op = "var" -> env[e.r]
    [] e.op = "add" -> env[e.r] + e.k
    [] e.op = "mul" -> env[e.r] * 2

\* bound variables after a prefix
BoundAfter(p) == { p[i].t : i \in { i \in DOMAIN p : p[i].kind = "assign" } }

RECURSIVE ExecFrom(_, _, _, _)
ExecFrom(p, i, env, out) ==
  IF i > Len(p) THEN out
  ELSE IF p[i].kind = "assign"
       THEN ExecFrom(p, i + 1, [env EXCEPT ![p[i].t] = Eval(p[i].e, env)], out)
       ELSE ExecFrom(p, i + 1, env, Append(out, Eval(p[i].e, env)))
Exec(p) == ExecFrom(p, 1, [x \in Vars |-> 0], <<>>)

---------------------------------------------------------------------------
Defs(p) == { i \in DOMAIN p : p[i].kind = "assign" /\ p[i].t = V }
ReadsOfV(p) == { i \in DOMAIN p : V \in Reads(p[i].e) }
DefLine(p) == CHOOSE i \in Defs(p) : TRUE
Replaced(p, only, cur) == IF only THEN {cur} ELSE ReadsOfV(p)

IntervalClean(p, d, j) ==
  \A i \in (d + 1)..(j - 1) : ~(p[i].kind = "assign" /\ p[i].t \in Reads(p[d].e))

Legal(p, remove, only, cur) ==
  /\ Cardinality(Defs(p)) = 1
  /\ ReadsOfV(p) # {}
  /\ cur \in ReadsOfV(p)
  /\ LET d == DefLine(p) IN
       /\ V \notin Reads(p[d].e)
       /\ \A j \in ReadsOfV(p) : j > d
       /\ CheckInterval => \A j \in Replaced(p, only, cur) : IntervalClean(p, d, j)
  /\ (~only) => cur = CHOOSE j \in ReadsOfV(p) : \A k \in ReadsOfV(p) : j <= k
  /\ (only /\ remove) => Cardinality(ReadsOfV(p)) = 1

\* evaluation of line i's expression when its read of V is replaced by V's expression
EvalRepl(e, dexpr, env) ==
  LET inner == Eval(dexpr, env) IN
  CASE e.op = "var" -> inner
    [] e.op = "add" -> inner + e.k
    [] e.op = "mul" -> inner * 2

\* defect model: the expression is spliced as text, `r + k` under `* 2` becomes r + k * 2
EvalReplD(e, dexpr, env) ==
  IF e.op = "mul" /\ dexpr.op = "add" THEN env[dexpr.r] + dexpr.k * 2 ELSE EvalRepl(e, dexpr, env)

RECURSIVE ExecInlFrom(_, _, _, _, _, _, _, _)
ExecInlFrom(p, i, env, out, d, repl, remove, parens) ==
  IF i > Len(p) THEN out
  ELSE LET val == IF i \in repl
                  THEN (IF parens THEN EvalRepl(p[i].e, p[d].e, env) ELSE EvalReplD(p[i].e, p[d].e, env))
                  ELSE Eval(p[i].e, env) IN
       IF i = d /\ remove THEN ExecInlFrom(p, i + 1, env, out, d, repl, remove, parens)
       ELSE IF p[i].kind = "assign"
            THEN ExecInlFrom(p, i + 1, [env EXCEPT ![p[i].t] = val], out, d, repl, remove, parens)
            ELSE ExecInlFrom(p, i + 1, env, Append(out, val), d, repl, remove, parens)
ExecInl(p, remove, only, cur) ==
  ExecInlFrom(p, 1, [x \in Vars |-> 0], <<>>, DefLine(p), Replaced(p, only, cur), remove, TRUE)
ExecInlD(p, remove, only, cur) ==
  ExecInlFrom(p, 1, [x \in Vars |-> 0], <<>>, DefLine(p), Replaced(p, only, cur), remove, FALSE)

\* a replaced read that is an operand of * while V's expression is a sum:
\* the substitution must add parentheses
NeedsParens(p, only, cur) ==
  /\ Compound(p[DefLine(p)].e)
  /\ \E j \in Replaced(p, only, cur) : Tight(p[j].e)

---------------------------------------------------------------------------
VARIABLES prog, phase, req, out0, out1
vars == <<prog, phase, req, out0, out1>>

NoReq == [remove |-> FALSE, only |-> FALSE, cur |-> 0]

Init == prog = <<>> /\ phase = "build" /\ req = NoReq /\ out0 = <<>> /\ out1 = <<>>

AddLine(l) ==
  /\ phase = "build"
  /\ Len(prog) < MaxLines
  /\ Reads(l.e) \subseteq BoundAfter(prog)
  /\ prog' = Append(prog, l)
  /\ UNCHANGED <<phase, req, out0, out1>>

InlineVar(remove, only, cur) ==
  /\ phase = "build"
  /\ Legal(prog, remove, only, cur)
  /\ phase' = "done"
  /\ req' = [remove |-> remove, only |-> only, cur |-> cur]
  /\ out0' = Exec(prog)
  /\ out1' = ExecInl(prog, remove, only, cur)
  /\ UNCHANGED prog

Next ==
  \/ \E l \in Lines : AddLine(l)
  \/ \E remove \in BOOLEAN, only \in BOOLEAN, cur \in 1..MaxLines : InlineVar(remove, only, cur)
Spec == Init /\ [][Next]_vars

ObsPreserved == phase = "done" => out1 = out0
\* the defect model (must be violated: sensitivity)
ObsPreservedD == phase = "done" => ExecInlD(prog, req.remove, req.only, req.cur) = out0
\* after removal nothing reads V any more
NoDanglingRead ==
  (phase = "done" /\ req.remove) => ReadsOfV(prog) \subseteq Replaced(prog, req.only, req.cur)
=============================================================================
