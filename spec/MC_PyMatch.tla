---------------------------- MODULE MC_PyMatch ----------------------------
EXTENDS PyMatch, Json

\* Behaviour export: one JSON line per finished (module, pattern, layout):
\* what the replay needs (token sequences) and everything the spec predicts.
TokStrs(r) == [i \in DOMAIN r.toks |-> <<r.toks[i].s, r.toks[i].d>>]
SigPairs(m) == {<<w, SigmaOf(m)[w]>> : w \in WildNames(pat)}
MatchRec(m) == [bp |-> m.bp, i |-> m.i, n |-> m.n, sg |-> SigPairs(m)]
GoalRec(gl) ==
  [id |-> gl.id, g |-> gl.g, toks |-> TokStrs(Toks(gl.g, NoDeco)), res |-> Rewrite(gl.g),
   legal |-> Legal(gl.g), mech |-> MechRewrite(gl.g), alts |-> Alternatives(gl.g), bpar |-> BindingNeedsParen(gl.g), gpar |-> GoalNeedsParen(gl.g)]
Behaviour ==
  [mod |-> mod, src |-> TokStrs(Toks(mod, deco)), deco |-> deco,
   pat |-> pat, patsrc |-> TokStrs(Toks(pat, NoDeco)), exact |-> exact,
   focus |-> focus, stmtpat |-> IsStmtPat,
   matches |-> {MatchRec(m) : m \in AllMatches},
   regions |-> {[r |-> r, ms |-> {[bp |-> m.bp, i |-> m.i] : m \in MatchesIn(r)}] : r \in Regions},
   ambiguous |-> Ambiguous, earlier |-> {TokStrs(Toks(e, NoDeco)) : e \in Earlier}, accepted |-> (IF IsStmtPat THEN {[bp |-> x.bp, i |-> x.i] : x \in RopeAccepted} ELSE {}), mlb |-> BrokenBinding, orderskip |-> OrderSkip, elifhit |-> IsStmtPat /\ ElifHit,
   goals |-> {GoalRec(gl) : gl \in Goals}]
Export == Done => PrintT(<<"BEH", ToJson(Behaviour)>>)
=============================================================================
