----------------------------- MODULE RopeEffects -----------------------------
(***************************************************************************)
(* What a refactoring request may do to the disk (C09).                    *)
(*                                                                         *)
(* Files live in one of three regions: "project" (inside the root, not     *)
(* ignored), "ignored" (inside the root but matched by ignored_resources,  *)
(* e.g. the .ropeproject folder) and "outside" (a sibling folder on        *)
(* python_path whose modules the project imports).  A request goes         *)
(*   Idle --Compute--> Computed(announced) --Perform--> Done               *)
(*   Idle --Refuse(errClass)--> Refused                                    *)
(* Compute must not touch the disk, Perform may only touch announced       *)
(* files, all of them in the project region, writing exactly the previewed *)
(* contents; a refusal leaves the disk alone and is one of rope's own      *)
(* error types.  Some requests cannot be honoured at all (`impossible`:     *)
(* the destination of a move is the defining module itself, however it is  *)
(* addressed; it does not exist; it is a plain folder): for those Compute  *)
(* is not enabled, only Refuse.  The environment (what rope actually did) is completely    *)
(* nondeterministic here: the module states the contract as action         *)
(* properties; TraceEffects.tla evaluates the same formulas on effect      *)
(* traces recorded from the real refactorings.                             *)
(***************************************************************************)
EXTENDS Naturals, FiniteSets, TLC

CONSTANTS Files,        \* file ids
          RegionOf,     \* Files -> {"project","ignored","outside"}
          ErrClasses    \* {"rope","internal"}

VARIABLES disk,         \* Files -> version number (0 = absent)
          phase,        \* "idle" | "computed" | "done" | "refused"
          announced,    \* files the change object lists
          preview,      \* Files -> version the preview promises
          err,
          impossible    \* the request cannot be honoured (fixed per request)

vars == <<disk, phase, announced, preview, err, impossible>>

Versions == 0..2

Init ==
  /\ disk \in [Files -> 1..1]
  /\ phase = "idle"
  /\ announced = {}
  /\ preview = disk
  /\ err = "none"
  /\ impossible \in BOOLEAN

\* a well-behaved implementation
Compute ==
  /\ phase = "idle"
  /\ ~impossible
  /\ \E A \in SUBSET { f \in Files : RegionOf[f] = "project" } :
       /\ announced' = A
       /\ preview' \in { pv \in [Files -> Versions] : \A f \in Files \ A : pv[f] = disk[f] }
  /\ phase' = "computed"
  /\ UNCHANGED <<disk, err, impossible>>

Perform ==
  /\ phase = "computed"
  /\ disk' = preview
  /\ phase' = "done"
  /\ UNCHANGED <<announced, preview, err, impossible>>

Refuse ==
  /\ phase = "idle"
  /\ phase' = "refused"
  /\ err' = "rope"
  /\ UNCHANGED <<disk, announced, preview, impossible>>

Next == Compute \/ Perform \/ Refuse
Spec == Init /\ [][Next]_vars

(***************************************************************************)
(* The contract, as properties of any step sequence                        *)
(***************************************************************************)
Changed(d1, d2) == { f \in Files : d1[f] # d2[f] }

PureCompute    == [][phase = "idle" /\ phase' = "computed" => disk' = disk]_vars
OnlyAnnounced  == [][phase = "computed" /\ phase' = "done" => Changed(disk, disk') \subseteq announced]_vars
InsideProject  == phase \in {"computed", "done"} => \A f \in announced : RegionOf[f] = "project"
PreviewMatches == [][phase = "computed" /\ phase' = "done" => \A f \in Changed(disk, disk') : disk'[f] = preview[f]]_vars
RefusalClean   == [][phase' = "refused" => (disk' = disk /\ err' = "rope")]_vars
RefusesImpossible == impossible => phase \in {"idle", "refused"}
=============================================================================
