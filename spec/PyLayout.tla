------------------------------ MODULE PyLayout ------------------------------
(***************************************************************************)
(* Property C08, generated part: the source regions of a syntax tree.      *)
(*                                                                         *)
(* A behaviour picks a small tree - a context (one of ~80 statement and    *)
(* expression shapes covering the grammar's constructs) with an expression *)
(* from a pool plugged into its hole - and then layout decisions: up to    *)
(* two redundant pairs of parentheses on the plugged expression or on one  *)
(* of its operands, a trailing comma, a spacing style, and up to two       *)
(* decorated gaps between tokens: a comment (whose text may contain        *)
(* brackets, quotes, a hash or a keyword), a line break inside brackets, a *)
(* backslash continuation, a blank or comment-only line between            *)
(* statements.  The token sequence and the first / last token of every     *)
(* node come from PyTree!Toks, so the expected region of every node is     *)
(* known by construction; the binding renders the tokens, lets CPython     *)
(* confirm tree and positions, and compares rope's annotation with it.     *)
(***************************************************************************)
EXTENDS PyTree

CONSTANTS CtxOn,        \* names of the contexts to use
          ExprOn,       \* names of the plugged expressions to use
          ParenKinds,   \* subset of {"none", "root1", "root2", "kid1", "rootkid"}
          GapKinds,     \* subset of {"cmt", "nl", "cont", "cmtline", "blank", "ffline"}
          CmtTexts,     \* comment texts; <ff> <vt> <fs> <nel> <ls> stand for the characters U+000C, U+000B,
                        \* U+001C, U+0085, U+2028, which str.splitlines takes for line ends but Python does not
          Styles,       \* subset of {"tight", "house", "wide"}
          MaxGaps,      \* decorated gaps per behaviour (0..2)
          Sim           \* TRUE: Decorate draws its choices at random

VARIABLES names,  \* [cn, en]: which context and which plugged expression
          tree,   \* the module (a Block)
          hole,   \* path of the plugged expression in tree
          deco,   \* parentheses / trailing comma decisions (PyTree!Toks)
          gaps,   \* set of [at, kind, txt]: the separator before token `at` is decorated
          style,
          lay,    \* derived: Toks(tree, deco)
          stage   \* "tree" | "done"
vars == <<names, tree, hole, deco, gaps, style, lay, stage>>

----------------------------------------------------------------------------
\* Plugged expressions
nA == Name("a")  nB == Name("b")  nC == Name("c")  nF == Name("f")  nX == Name("x")  nY == Name("y")
n1 == Num("1")
PassB == <<PassS>>
Args(ps) == Node("arguments", "", ps)
Comp(t, i) == Node("comprehension", "", <<t, i>>)
CompIf(t, i, cnd) == Node("comprehension", "", <<t, i, cnd>>)

ExprByName(n) ==
  CASE n = "name"    -> nA
    [] n = "int"     -> n1
    [] n = "hex"     -> Num("0x1F")
    [] n = "float"   -> Num("1.5")
    [] n = "exp"     -> Num("1e3")
    [] n = "imag"    -> Num("2j")
    [] n = "under"   -> Num("1_000")
    [] n = "hexupper" -> Num("0XFF")
    [] n = "bin"     -> Num("0b101")
    [] n = "oct"     -> Num("0o17")
    [] n = "dotfive" -> Num(".5")
    [] n = "onedot"  -> Num("1.")
    [] n = "expneg"  -> Num("1E-3")
    [] n = "stropen" -> Str("'('")
    [] n = "strkw"   -> Str("'def'")
    [] n = "str1"    -> Str("'s'")
    [] n = "str2"    -> Str("\"s\"")
    [] n = "strhash" -> Str("'#'")
    [] n = "strparen" -> Str("')'")
    [] n = "bytes"   -> Str("b'x'")
    [] n = "raw"     -> Str("r'\\d'")
    [] n = "triple"  -> Str("'''t'''")
    [] n = "concat"  -> Leaf("Str2", "'a'")
    [] n = "none"    -> Leaf("Const", "None")
    [] n = "true"    -> Leaf("Const", "True")
    [] n = "dots"    -> Leaf("Const", "...")
    [] n = "add"     -> BinOp("+", nA, nB)
    [] n = "mulnest" -> BinOp("*", nA, BinOp("+", nB, nC))
    [] n = "addmul"  -> BinOp("+", nA, BinOp("*", nB, nC))
    [] n = "pow"     -> BinOp("**", nA, UnOp("-", nB))
    [] n = "neg"     -> UnOp("-", nA)
    [] n = "not"     -> UnOp("not", nA)
    [] n = "inv"     -> UnOp("~", nA)
    [] n = "and"     -> BoolOp("and", <<nA, nB>>)
    [] n = "or3"     -> BoolOp("or", <<nA, nB, nC>>)
    [] n = "lt"      -> Cmp("<", nA, nB)
    [] n = "isnot"   -> Cmp("is not", nA, nB)
    [] n = "notin"   -> Cmp("not in", nA, nB)
    [] n = "attr"    -> Attr(nA, "p")
    [] n = "attr2"   -> Attr(Attr(nA, "p"), "q")
    [] n = "call0"   -> Call(nF, <<>>)
    [] n = "call1"   -> Call(nF, <<nA>>)
    [] n = "call2"   -> Call(nF, <<nA, nB>>)
    [] n = "callkw"  -> Call(nF, <<nA, Node("keyword", "k", <<nB>>)>>)
    [] n = "callstar" -> Call(nF, <<Node("Starred", "", <<nA>>), Node("keyword", "", <<nB>>)>>)
    [] n = "callcall" -> Call(Call(nF, <<nA>>), <<nB>>)
    [] n = "method"  -> Call(Attr(nA, "m"), <<nB>>)
    [] n = "sub"     -> Sub(nA, n1)
    [] n = "subsub"  -> Sub(Sub(nA, n1), nB)
    [] n = "subtuple" -> Sub(nA, Tup(<<nB, nC>>))
    [] n = "slice"   -> Sub(nA, Node("Slice", "lu", <<n1, nB>>))
    [] n = "slicel"  -> Sub(nA, Node("Slice", "l", <<n1>>))
    [] n = "sliceu"  -> Sub(nA, Node("Slice", "u", <<nB>>))
    [] n = "slices"  -> Sub(nA, Node("Slice", "s", <<nB>>))
    [] n = "slice3"  -> Sub(nA, Node("Slice", "lus", <<n1, nB, nC>>))
    [] n = "sliceall" -> Sub(nA, Node("Slice", "", <<>>))
    [] n = "tuple"   -> Tup(<<nA, nB>>)
    [] n = "tuple1"  -> Tup(<<nA>>)
    [] n = "tuple0"  -> Tup(<<>>)
    [] n = "tuplestar" -> Tup(<<nA, Node("Starred", "", <<nB>>)>>)
    [] n = "list"    -> Lst(<<nA, nB>>)
    [] n = "list0"   -> Lst(<<>>)
    [] n = "set"     -> Node("Set", "", <<nA, nB>>)
    [] n = "dict"    -> Node("Dict", "", <<nA, nB>>)
    [] n = "dict2"   -> Node("Dict", "", <<nA, nB, nC, n1>>)
    [] n = "dict0"   -> Node("Dict", "", <<>>)
    [] n = "ifexp"   -> IfExp(nA, nB, nC)
    [] n = "lambda0" -> Lam("", nA)
    [] n = "lambda1" -> Node("Lambda", "", <<Args(<<Leaf("arg", "x")>>), nX>>)
    [] n = "lambdadef" -> Node("Lambda", "", <<Args(<<Leaf("arg", "x"), Leaf("arg", "y"), n1>>), nX>>)
    [] n = "lambdastar" -> Node("Lambda", "", <<Args(<<Leaf("vararg", "x"), Leaf("kwarg", "y")>>), nX>>)
    [] n = "listcomp" -> Node("ListComp", "", <<nX, Comp(nX, nA)>>)
    [] n = "listcompif" -> Node("ListComp", "", <<nX, CompIf(nX, nA, nB)>>)
    [] n = "listcomp2" -> Node("ListComp", "", <<nX, Comp(nX, nA), Comp(nY, nX)>>)
    [] n = "setcomp" -> Node("SetComp", "", <<nX, Comp(nX, nA)>>)
    [] n = "dictcomp" -> Node("DictComp", "", <<nX, nY, Comp(Tup(<<nX, nY>>), nA)>>)
    [] n = "genexp"  -> Node("GeneratorExp", "", <<nX, Comp(nX, nA)>>)
    [] n = "fstr"    -> Node("JoinedStr", "", <<Node("FormattedValue", "", <<nA>>)>>)
    [] n = "fstradd" -> Node("JoinedStr", "", <<Node("FormattedValue", "", <<BinOp("+", nA, nB)>>)>>)
    [] n = "walrus"  -> Node("NamedExpr", "", <<nY, nA>>)

AllExprNames ==
  {"hexupper", "bin", "oct", "dotfive", "onedot", "expneg", "stropen", "strkw",
   "name", "int", "hex", "float", "exp", "imag", "under", "str1", "str2", "strhash", "strparen", "bytes", "raw",
   "triple", "concat", "none", "true", "dots", "add", "mulnest", "addmul", "pow", "neg", "not", "inv", "and",
   "or3", "lt", "isnot", "notin", "attr", "attr2", "call0", "call1", "call2", "callkw", "callstar", "callcall",
   "method", "sub", "subsub", "subtuple", "slice", "slicel", "sliceu", "slices", "slice3", "sliceall", "tuple",
   "tuple1", "tuple0", "tuplestar", "list", "list0", "set", "dict", "dict2", "dict0", "ifexp", "lambda0",
   "lambda1", "lambdadef", "lambdastar", "listcomp", "listcompif", "listcomp2", "setcomp", "dictcomp", "genexp",
   "fstr", "fstradd", "walrus"}

----------------------------------------------------------------------------
\* Contexts: nA statement list with the expression e in its hole, and the hole's path
Ctx(stmts, hole_) == [t |-> Block(stmts), h |-> hole_]
FDef(name, kids) == Node("FunctionDef", name, kids)
CDef(name, kids) == Node("ClassDef", name, kids)
Deco(e) == Node("decorator", "", <<e>>)
WI1(e) == Node("withitem", "", <<e>>)
WI2(e, v) == Node("withitem", "", <<e, v>>)
Handler(name, kids) == Node("ExceptHandler", name, kids)
Case(kids) == Node("match_case", "", kids)

CtxByName(n, e) ==
  CASE n = "expr"      -> Ctx(<<ExprS(e)>>, <<1, 1>>)
    [] n = "assign"    -> Ctx(<<Assign(nX, e)>>, <<1, 2>>)
    [] n = "assign2"   -> Ctx(<<Node("Assign", "", <<nX, nY, e>>)>>, <<1, 3>>)
    [] n = "assigntup" -> Ctx(<<Assign(Tup(<<nX, nY>>), e)>>, <<1, 2>>)
    [] n = "aug"       -> Ctx(<<AugAssign("+", nX, e)>>, <<1, 2>>)
    [] n = "ann"       -> Ctx(<<Node("AnnAssign", "", <<nX, nA, e>>)>>, <<1, 3>>)
    [] n = "anntype"   -> Ctx(<<Node("AnnAssign", "", <<nX, e>>)>>, <<1, 2>>)
    [] n = "two"       -> Ctx(<<Assign(nX, e), ExprS(Call(nF, <<nX>>))>>, <<1, 2>>)
    [] n = "second"    -> Ctx(<<ExprS(Call(nF, <<>>)), Assign(nX, e)>>, <<2, 2>>)
    [] n = "ret"       -> Ctx(<<FDef("g", <<Block(<<Return(e)>>)>>)>>, <<1, 1, 1, 1>>)
    [] n = "call"      -> Ctx(<<ExprS(Call(nF, <<e>>))>>, <<1, 1, 2>>)
    [] n = "call2nd"   -> Ctx(<<ExprS(Call(nF, <<nA, e>>))>>, <<1, 1, 3>>)
    [] n = "call1st"   -> Ctx(<<ExprS(Call(nF, <<e, nB>>))>>, <<1, 1, 2>>)
    [] n = "kw"        -> Ctx(<<ExprS(Call(nF, <<Node("keyword", "k", <<e>>)>>))>>, <<1, 1, 2, 1>>)
    [] n = "star"      -> Ctx(<<ExprS(Call(nF, <<Node("Starred", "", <<e>>)>>))>>, <<1, 1, 2, 1>>)
    [] n = "dstar"     -> Ctx(<<ExprS(Call(nF, <<Node("keyword", "", <<e>>)>>))>>, <<1, 1, 2, 1>>)
    [] n = "callee"    -> Ctx(<<ExprS(Call(e, <<nA>>))>>, <<1, 1, 1>>)
    [] n = "attrof"    -> Ctx(<<ExprS(Attr(e, "p"))>>, <<1, 1, 1>>)
    [] n = "index"     -> Ctx(<<ExprS(Sub(nA, e))>>, <<1, 1, 2>>)
    [] n = "indexed"   -> Ctx(<<ExprS(Sub(e, n1))>>, <<1, 1, 1>>)
    [] n = "slicelo"   -> Ctx(<<ExprS(Sub(nA, Node("Slice", "lu", <<e, nB>>)))>>, <<1, 1, 2, 1>>)
    [] n = "slicehi"   -> Ctx(<<ExprS(Sub(nA, Node("Slice", "u", <<e>>)))>>, <<1, 1, 2, 1>>)
    [] n = "binl"      -> Ctx(<<Assign(nX, BinOp("+", e, nB))>>, <<1, 2, 1>>)
    [] n = "binr"      -> Ctx(<<Assign(nX, BinOp("*", nA, e))>>, <<1, 2, 2>>)
    [] n = "powl"      -> Ctx(<<Assign(nX, BinOp("**", e, n1))>>, <<1, 2, 1>>)
    [] n = "neg"       -> Ctx(<<Assign(nX, UnOp("-", e))>>, <<1, 2, 1>>)
    [] n = "not"       -> Ctx(<<Assign(nX, UnOp("not", e))>>, <<1, 2, 1>>)
    [] n = "and"       -> Ctx(<<Assign(nX, BoolOp("and", <<nA, e>>))>>, <<1, 2, 2>>)
    [] n = "or3"       -> Ctx(<<Assign(nX, BoolOp("or", <<nA, e, nC>>))>>, <<1, 2, 2>>)
    [] n = "cmp"       -> Ctx(<<Assign(nX, Cmp("<", nA, e))>>, <<1, 2, 2>>)
    [] n = "isnot"     -> Ctx(<<Assign(nX, Cmp("is not", e, nB))>>, <<1, 2, 1>>)
    [] n = "notin"     -> Ctx(<<Assign(nX, Cmp("not in", nA, e))>>, <<1, 2, 2>>)
    [] n = "tuple"     -> Ctx(<<Assign(nX, Tup(<<nA, e>>))>>, <<1, 2, 2>>)
    [] n = "tuple1"    -> Ctx(<<Assign(nX, Tup(<<e>>))>>, <<1, 2, 1>>)
    [] n = "list"      -> Ctx(<<Assign(nX, Lst(<<e, nB>>))>>, <<1, 2, 1>>)
    [] n = "set"       -> Ctx(<<Assign(nX, Node("Set", "", <<nA, e>>))>>, <<1, 2, 2>>)
    [] n = "dictv"     -> Ctx(<<Assign(nX, Node("Dict", "", <<nA, e>>))>>, <<1, 2, 2>>)
    [] n = "dictk"     -> Ctx(<<Assign(nX, Node("Dict", "", <<e, nB>>))>>, <<1, 2, 1>>)
    [] n = "ifexpt"    -> Ctx(<<Assign(nX, IfExp(nA, e, nC))>>, <<1, 2, 2>>)
    [] n = "ifexpb"    -> Ctx(<<Assign(nX, IfExp(e, nB, nC))>>, <<1, 2, 1>>)
    [] n = "ifexpe"    -> Ctx(<<Assign(nX, IfExp(nA, nB, e))>>, <<1, 2, 3>>)
    [] n = "lambody"   -> Ctx(<<Assign(nX, Node("Lambda", "", <<Args(<<Leaf("arg", "y")>>), e>>))>>, <<1, 2, 2>>)
    [] n = "lamdef"    -> Ctx(<<Assign(nX, Node("Lambda", "", <<Args(<<Leaf("arg", "y"), e>>), nY>>))>>, <<1, 2, 1, 2>>)
    [] n = "compelt"   -> Ctx(<<Assign(nX, Node("ListComp", "", <<e, Comp(nY, nA)>>))>>, <<1, 2, 1>>)
    [] n = "compiter"  -> Ctx(<<Assign(nX, Node("ListComp", "", <<nY, Comp(nY, e)>>))>>, <<1, 2, 2, 2>>)
    [] n = "compif"    -> Ctx(<<Assign(nX, Node("ListComp", "", <<nY, CompIf(nY, nA, e)>>))>>, <<1, 2, 2, 3>>)
    [] n = "genelt"    -> Ctx(<<Assign(nX, Node("GeneratorExp", "", <<e, Comp(nY, nA)>>))>>, <<1, 2, 1>>)
    [] n = "dcompv"    -> Ctx(<<Assign(nX, Node("DictComp", "", <<nY, e, Comp(nY, nA)>>))>>, <<1, 2, 2>>)
    [] n = "fstr"      -> Ctx(<<Assign(nX, Node("JoinedStr", "", <<Node("FormattedValue", "", <<e>>)>>))>>, <<1, 2, 1, 1>>)
    [] n = "walrus"    -> Ctx(<<Node("If", "", <<Node("NamedExpr", "", <<nY, e>>), Block(PassB), Block(<<>>)>>)>>, <<1, 1, 2>>)
    [] n = "if"        -> Ctx(<<If(e, PassB, <<>>)>>, <<1, 1>>)
    [] n = "ifelse"    -> Ctx(<<If(e, PassB, <<ExprS(nA)>>)>>, <<1, 1>>)
    [] n = "elif"      -> Ctx(<<If(nA, PassB, <<If(e, PassB, <<ExprS(nB)>>)>>)>>, <<1, 3, 1, 1>>)
    [] n = "ifbody"    -> Ctx(<<If(nA, <<Assign(nX, e)>>, <<Assign(nX, nB)>>)>>, <<1, 2, 1, 2>>)
    [] n = "nested"    -> Ctx(<<If(nA, <<If(nB, <<Assign(nX, e)>>, <<>>), ExprS(nC)>>, <<>>)>>, <<1, 2, 1, 2, 1, 2>>)
    \* a statement ending in e directly followed, in the same (nested) block, by a statement that starts
    \* with a string literal, and a later statement pending at an enclosing level
    [] n = "pairtop"   -> Ctx(<<Assign(nX, e), ExprS(Str("'t'")), ExprS(nC)>>, <<1, 2>>)
    [] n = "pairif"    -> Ctx(<<If(nA, <<Assign(nX, e), ExprS(Str("'t'"))>>, <<>>), ExprS(nC)>>, <<1, 2, 1, 2>>)
    [] n = "pairdef"   -> Ctx(<<FDef("g", <<Block(<<ExprS(e), ExprS(Call(Attr(Str("','"), "join"), <<nY>>)), Return(nX)>>)>>),
                                Assign(nX, Call(Name("g"), <<>>))>>, <<1, 1, 1, 1>>)
    [] n = "pairclass" -> Ctx(<<CDef("C", <<Block(<<Assign(nX, e), ExprS(Str("\"The x.\"")), Assign(nY, n1)>>)>>), ExprS(nC)>>, <<1, 1, 1, 2>>)
    [] n = "pairdeep"  -> Ctx(<<If(nA, <<Node("For", "", <<nX, nC, Block(<<Assign(nY, e), ExprS(Call(Attr(Str("'t'"), "strip"), <<>>))>>)>>),
                                         Assign(nX, n1)>>, <<>>)>>, <<1, 2, 1, 3, 1, 2>>)
    [] n = "pairlast"  -> Ctx(<<FDef("g", <<Block(<<Assign(nX, e), ExprS(Str("'t'"))>>)>>)>>, <<1, 1, 1, 2>>)
    [] n = "while"     -> Ctx(<<While(e, PassB)>>, <<1, 1>>)
    [] n = "whileelse" -> Ctx(<<Node("While", "", <<e, Block(<<Leaf("Break", "")>>), Block(PassB)>>)>>, <<1, 1>>)
    [] n = "for"       -> Ctx(<<Node("For", "", <<nX, e, Block(PassB)>>)>>, <<1, 2>>)
    [] n = "fortuple"  -> Ctx(<<Node("For", "", <<Tup(<<nX, nY>>), e, Block(<<Leaf("Continue", "")>>), Block(PassB)>>)>>, <<1, 2>>)
    [] n = "with"      -> Ctx(<<Node("With", "", <<WI1(e), Block(PassB)>>)>>, <<1, 1, 1>>)
    [] n = "withas"    -> Ctx(<<Node("With", "", <<WI2(e, nX), Block(PassB)>>)>>, <<1, 1, 1>>)
    [] n = "with2"     -> Ctx(<<Node("With", "", <<WI2(nA, nX), WI2(e, nY), Block(PassB)>>)>>, <<1, 2, 1>>)
    [] n = "withparen" -> Ctx(<<Node("With", "paren", <<WI2(nA, nX), WI2(e, nY), Block(PassB)>>)>>, <<1, 2, 1>>)
    [] n = "try"       -> Ctx(<<Node("Try", "", <<Block(<<Assign(nX, e)>>), Handler("", <<Block(PassB)>>)>>)>>, <<1, 1, 1, 2>>)
    [] n = "except"    -> Ctx(<<Node("Try", "", <<Block(PassB), Handler("", <<e, Block(PassB)>>)>>)>>, <<1, 2, 1>>)
    [] n = "exceptas"  -> Ctx(<<Node("Try", "else", <<Block(PassB), Handler("z", <<e, Block(PassB)>>), Block(PassB)>>)>>, <<1, 2, 1>>)
    [] n = "finally"   -> Ctx(<<Node("Try", "finally", <<Block(PassB), Block(<<Assign(nX, e)>>)>>)>>, <<1, 2, 1, 2>>)
    [] n = "tryall"    -> Ctx(<<Node("Try", "else+finally", <<Block(PassB), Handler("", <<nA, Block(PassB)>>),
                                   Handler("", <<Block(PassB)>>), Block(<<ExprS(e)>>), Block(PassB)>>)>>, <<1, 4, 1, 1>>)
    [] n = "deco"      -> Ctx(<<FDef("g", <<Deco(e), Block(PassB)>>)>>, <<1, 1, 1>>)
    [] n = "deco2"     -> Ctx(<<FDef("g", <<Deco(nA), Deco(e), Args(<<Leaf("arg", "x")>>), Block(PassB)>>)>>, <<1, 2, 1>>)
    [] n = "default"   -> Ctx(<<FDef("g", <<Args(<<Leaf("arg", "x"), Leaf("arg", "y"), e>>), Block(PassB)>>)>>, <<1, 1, 3>>)
    [] n = "defstar"   -> Ctx(<<FDef("g", <<Args(<<Leaf("arg", "x"), e, Leaf("vararg", "y"), Leaf("kwarg", "z")>>), Block(PassB)>>)>>, <<1, 1, 2>>)
    [] n = "returns"   -> Ctx(<<FDef("g", <<Node("returns", "", <<e>>), Block(PassB)>>)>>, <<1, 1, 1>>)
    [] n = "method"    -> Ctx(<<CDef("C", <<Block(<<FDef("m", <<Args(<<Leaf("arg", "self")>>), Block(<<Return(e)>>)>>)>>)>>)>>, <<1, 1, 1, 2, 1, 1>>)
    [] n = "base"      -> Ctx(<<CDef("C", <<e, Block(PassB)>>)>>, <<1, 1>>)
    [] n = "base2"     -> Ctx(<<CDef("C", <<nA, e, Block(PassB)>>)>>, <<1, 2>>)
    [] n = "basekw"    -> Ctx(<<CDef("C", <<nA, Node("keyword", "k", <<e>>), Block(PassB)>>)>>, <<1, 2, 1>>)
    [] n = "classdeco" -> Ctx(<<CDef("C", <<Deco(e), Block(PassB)>>)>>, <<1, 1, 1>>)
    [] n = "assert"    -> Ctx(<<Node("Assert", "", <<e>>)>>, <<1, 1>>)
    [] n = "assertmsg" -> Ctx(<<Node("Assert", "", <<nA, e>>)>>, <<1, 2>>)
    [] n = "raise"     -> Ctx(<<Node("Raise", "", <<e>>)>>, <<1, 1>>)
    [] n = "raisefrom" -> Ctx(<<Node("Raise", "", <<nA, e>>)>>, <<1, 2>>)
    [] n = "del"       -> Ctx(<<Node("Delete", "", <<nX, Sub(nA, e)>>)>>, <<1, 2, 2>>)
    [] n = "import"    -> Ctx(<<Node("Import", "", <<Leaf("alias", "m"), Leaf("aliasas", "a.b")>>), Assign(nX, e)>>, <<2, 2>>)
    [] n = "fromimp"   -> Ctx(<<Node("ImportFrom", ".m", <<Leaf("aliasas", "m"), Leaf("alias", "b")>>), Assign(nX, e)>>, <<2, 2>>)
    [] n = "fromdot"   -> Ctx(<<Node("ImportFrom", ".", <<Leaf("alias", "m")>>), Node("ImportFrom", "a.b", <<Leaf("alias", "c")>>), Assign(nX, e)>>, <<3, 2>>)
    [] n = "global"    -> Ctx(<<FDef("g", <<Block(<<Leaf("Global", "a"), Leaf("Global2", ""), Assign(nX, e)>>)>>)>>, <<1, 1, 3, 2>>)
    [] n = "match"     -> Ctx(<<Node("Match", "", <<e, Case(<<Node("MatchValue", "", <<n1>>), Block(PassB)>>),
                                  Case(<<Leaf("MatchAs", "z"), Block(PassB)>>)>>)>>, <<1, 1>>)
    [] n = "matchseq"  -> Ctx(<<Node("Match", "", <<nA, Case(<<Node("MatchSequence", "", <<Leaf("MatchAs", "z"), Leaf("MatchAs", "")>>),
                                  Block(<<Assign(nX, e)>>)>>)>>)>>, <<1, 2, 2, 1, 2>>)
    [] n = "matchguard" -> Ctx(<<Node("Match", "", <<nA, Case(<<Leaf("MatchAs", ""), e, Block(PassB)>>)>>)>>, <<1, 2, 2>>)

AllCtxNames ==
  {"pairtop", "pairif", "pairdef", "pairclass", "pairdeep", "pairlast",
   "expr", "assign", "assign2", "assigntup", "aug", "ann", "anntype", "two", "second", "ret", "call", "call2nd",
   "call1st", "kw", "star", "dstar", "callee", "attrof", "index", "indexed", "slicelo", "slicehi", "binl", "binr",
   "powl", "neg", "not", "and", "or3", "cmp", "isnot", "notin", "tuple", "tuple1", "list", "set", "dictv", "dictk",
   "ifexpt", "ifexpb", "ifexpe", "lambody", "lamdef", "compelt", "compiter", "compif", "genelt", "dcompv", "fstr",
   "walrus", "if", "ifelse", "elif", "ifbody", "nested", "while", "whileelse", "for", "fortuple", "with", "withas",
   "with2", "withparen", "try", "except", "exceptas", "finally", "tryall", "deco", "deco2", "default", "defstar",
   "returns", "method", "base", "base2", "basekw", "classdeco", "assert", "assertmsg", "raise", "raisefrom", "del",
   "import", "fromimp", "fromdot", "global", "match", "matchseq", "matchguard"}

\* an f-string cannot hold another string with the same quote before 3.12 and
\* never a backslash; keep strings and nested f-strings out of f-string holes
InFString(cn) == cn = "fstr"
Compatible(cn, en) ==
  IF InFString(cn) THEN en \notin {"stropen", "strkw", "set", "dict", "dict2", "dict0", "setcomp", "dictcomp", "str2", "concat", "raw", "fstr", "fstradd", "triple", "strhash", "strparen", "str1", "bytes"}
  ELSE IF cn = "with" THEN en \notin {"tuple", "tuple1", "tuplestar"}   \* with (a, b): is two items, not a tuple
  ELSE TRUE

Trees == { [cn |-> cn, en |-> en] : cn \in CtxOn \cap AllCtxNames, en \in ExprOn \cap AllExprNames }

----------------------------------------------------------------------------
\* Layout decisions
ParenChoices(t, h) ==
  LET e == At(t, h)
      Parenable == ExprKinds \ {"Starred", "Slice"}
      kid == IF Len(e.c) > 0 /\ e.c[1].k \in Parenable /\ e.k # "NamedExpr" THEN {h \o <<1>>} ELSE {}
      lastkid == IF Len(e.c) > 1 /\ e.c[Len(e.c)].k \in Parenable THEN {h \o <<Len(e.c)>>} ELSE {}
  IN (IF "none" \in ParenKinds THEN {<<>>} ELSE {})
     \cup (IF "root1" \in ParenKinds THEN {<<h>>} ELSE {})
     \cup (IF "root2" \in ParenKinds THEN {<<h, h>>} ELSE {})
     \cup (IF "kid1" \in ParenKinds THEN {<<k>> : k \in kid \cup lastkid} ELSE {})
     \cup (IF "rootkid" \in ParenKinds THEN {<<h, k>> : k \in kid} ELSE {})

Commable(n) == n.k \in {"Call", "Tuple", "List", "Set", "Dict", "ClassDef"} /\ Len(n.c) > (IF n.k = "Call" THEN 1 ELSE IF n.k = "ClassDef" THEN 1 ELSE 0)
             /\ ~(n.k = "Tuple" /\ Len(n.c) = 1)
             /\ ~(n.k = "Call" /\ n.c[Len(n.c)].k = "GeneratorExp" /\ Len(n.c) = 2)
CommaChoices(t, h) ==
  {{}} \cup { {p} : p \in {q \in {h, SubSeq(h, 1, Len(h) - 1)} : Commable(At(t, q))} }

\* bracket depth after token i (brackets that are single tokens)
Opens == {"(", "[", "{"}
Closes == {")", "]", "}"}
RECURSIVE DepthAfter(_, _)
DepthAfter(toks, i) ==
  IF i = 0 THEN 0
  ELSE DepthAfter(toks, i - 1) + (IF toks[i].s \in Opens THEN 1 ELSE IF toks[i].s \in Closes THEN -1 ELSE 0)

\* gap g stands before token g (2..n), or after the last token (n + 1)
InsideFString(l, g) ==
  \E s \in l.sp : At(tree, s.p).k = "JoinedStr" /\ s.a < g /\ g <= s.b
GapLegal(l, g, kind) ==
  LET toks == l.toks
      n == Len(toks)
      lineEnd == g = n + 1 \/ (g <= n /\ toks[g].d >= 0)           \* the gap ends a logical line
      lineStart == g >= 2 /\ g <= n + 1 /\ toks[g - 1].d >= 0      \* right after a line marker
      glued == g <= n /\ toks[g].d = -3
      depth == DepthAfter(toks, g - 1)
  IN /\ g >= 2 /\ g <= n + 1
     /\ ~glued /\ ~InsideFString(l, g)
     /\ ~lineStart
     /\ CASE kind = "cmt"     -> (depth > 0 /\ ~lineEnd) \/ (lineEnd /\ depth = 0)
          [] kind = "nl"      -> depth > 0 /\ ~lineEnd
          [] kind = "cont"    -> ~lineEnd
          [] kind = "cmtline" -> lineEnd /\ depth = 0 /\ g <= n
          [] kind = "blank"   -> lineEnd /\ depth = 0 /\ g <= n
          [] kind = "ffline"  -> lineEnd /\ depth = 0 /\ g <= n      \* a line holding only a form feed

\* the gaps worth decorating: around the plugged expression and inside it
HoleSpan(l, h) == CHOOSE s \in l.sp : s.p = h
NearGaps(l, h) ==
  LET s == HoleSpan(l, h)
      n == Len(l.toks)
      \* the end of the first line: layout there comes before everything else in the module
      firstEnd == {g \in 2..n : l.toks[g].d >= 0 /\ \A j \in 2..(g - 1) : l.toks[j].d < 0}
  IN {g \in {s.pa, s.pa + 1, s.a + 1, s.b, s.b + 1, s.pb + 1, s.pb + 2, n + 1} \cup firstEnd : g >= 2 /\ g <= n + 1}

GapChoices(l, h) ==
  { [at |-> g, kind |-> k, txt |-> (IF k \in {"cmt", "cmtline"} THEN txt ELSE "")] :
      g \in NearGaps(l, h), k \in GapKinds, txt \in CmtTexts }
LegalGapChoices(l, h) == {gc \in GapChoices(l, h) : GapLegal(l, gc.at, gc.kind)}

GapSets(l, h) ==
  LET one_ == LegalGapChoices(l, h)
  IN {{}} \cup (IF MaxGaps >= 1 THEN {{g1} : g1 \in one_} ELSE {})
          \cup (IF MaxGaps >= 2 THEN {{pr[1], pr[2]} : pr \in {q \in one_ \X one_ : q[2].at > q[1].at}} ELSE {})

----------------------------------------------------------------------------
Init ==
  /\ \E tr \in Trees :
        /\ Compatible(tr.cn, tr.en)
        /\ names = tr
        /\ LET cx == CtxByName(tr.cn, ExprByName(tr.en))
           IN tree = cx.t /\ hole = cx.h
  /\ deco = [rp |-> <<>>, br |-> {}, tc |-> {}, sp |-> TRUE]
  /\ gaps = {}
  /\ style = "house"
  /\ lay = [toks |-> <<>>, sp |-> {}]
  /\ stage = "tree"

Decorate ==
  /\ stage = "tree"
  /\ \E rp \in (IF Sim THEN {RandomElement(ParenChoices(tree, hole))} ELSE ParenChoices(tree, hole)) :
     \E tc \in (IF Sim THEN {RandomElement(CommaChoices(tree, hole))} ELSE CommaChoices(tree, hole)) :
     \E st \in (IF Sim THEN {RandomElement(Styles)} ELSE Styles) :
       LET d == [rp |-> rp, br |-> {}, tc |-> tc, sp |-> TRUE]
           l == Toks(tree, d)
       IN \E gs \in (IF Sim THEN {RandomElement(GapSets(l, hole))} ELSE GapSets(l, hole)) :
            /\ deco' = d
            /\ lay' = l
            /\ gaps' = gs
            /\ style' = st
  /\ stage' = "done"
  /\ UNCHANGED <<names, tree, hole>>

Next == Decorate
Spec == Init /\ [][Next]_vars
Done == stage = "done"

----------------------------------------------------------------------------
\* Consistency of the generator (checked by TLC on every behaviour)
SpanOf(p) == CHOOSE s \in lay.sp : s.p = p
Parent(p) == SubSeq(p, 1, Len(p) - 1)

TypeOK == stage \in {"tree", "done"} /\ tree.k = "Block"

\* every node of the tree has exactly one span (except the root block)
AllSpanned ==
  Done => /\ \A p \in Paths(tree) \ {<<>>} : At(tree, p).k = "Block" \/ Cardinality({s \in lay.sp : s.p = p}) = 1
          /\ \A s \in lay.sp : s.p \in Paths(tree)

\* a node with its own parentheses lies within its parent's own tokens
Nesting ==
  Done => \A s \in lay.sp :
            LET pp == Parent(s.p)
                ps == IF At(tree, pp).k = "Block" THEN Parent(pp) ELSE pp
            IN (Len(s.p) > 1 /\ ps # <<>> /\ At(tree, ps).k # "Block")
                 => LET q == SpanOf(ps) IN q.a <= s.pa /\ s.pb <= q.b /\ s.pa <= s.a /\ s.a <= s.b /\ s.b <= s.pb

\* siblings do not overlap and come in child order
SiblingsOrdered ==
  Done => \A s1 \in lay.sp, s2 \in lay.sp :
            (Len(s1.p) > 0 /\ Parent(s1.p) = Parent(s2.p) /\ s1.p[Len(s1.p)] < s2.p[Len(s2.p)])
               => s1.pb < s2.pa

\* what surrounds a node's own tokens inside pa..pb is parentheses only, as many
\* opening as closing
ParensOwned ==
  Done => \A s \in lay.sp :
            /\ \A i \in s.pa..(s.a - 1) : lay.toks[i].s = "("
            /\ \A i \in (s.b + 1)..s.pb : lay.toks[i].s = ")"
            /\ s.a - s.pa = s.pb - s.b

\* brackets are balanced inside every node
Balanced ==
  Done => \A s \in lay.sp : DepthAfter(lay.toks, s.pb) = DepthAfter(lay.toks, s.pa - 1)

GapsLegal == Done => \A g \in gaps : GapLegal(lay, g.at, g.kind)
=============================================================================
