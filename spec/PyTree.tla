------------------------------- MODULE PyTree -------------------------------
(***************************************************************************)
(* Small Python syntax trees, their concrete token sequences, and the      *)
(* structural pattern matching / substitution relation of restructuring.   *)
(*                                                                         *)
(* A tree node is a record [k, v, c]: kind, label (operator, identifier,   *)
(* literal spelling ...), sequence of children in source order.  Statement *)
(* lists are nodes of kind "Block", so a position in a program is a path   *)
(* (sequence of child indexes) and a run of statements is (path of its     *)
(* Block, first index, count).                                             *)
(*                                                                         *)
(* Two things are defined here and used by PyMatch (property C19) and      *)
(* PyLayout (property C08):                                                *)
(*                                                                         *)
(*  1. Toks(t, D): the token sequence of a tree under layout decisions D   *)
(*     (redundant parentheses, trailing commas, line breaks in brackets),  *)
(*     with the parentheses that Python's grammar requires (a restatement  *)
(*     of the operator-precedence part of the grammar), together with, for *)
(*     every node, the index of its first and last token.  CPython is the  *)
(*     referee: the rendered text must parse back to the same tree and the *)
(*     token spans must be CPython's node positions.                       *)
(*                                                                         *)
(*  2. Matches / Subst / Rewrite: what "an instance of a pattern" and      *)
(*     "replace every instance by the goal" mean at tree level.            *)
(***************************************************************************)
EXTENDS Integers, Sequences, FiniteSets, TLC

----------------------------------------------------------------------------
\* Trees
Node(k, v, c) == [k |-> k, v |-> v, c |-> c]
Leaf(k, v)    == Node(k, v, <<>>)

Name(x)          == Leaf("Name", x)
Num(x)           == Leaf("Num", x)           \* v = spelling of the literal
Str(x)           == Leaf("Str", x)           \* v = spelling including quotes
Wild(w)          == Leaf("Wild", w)          \* ${w} in a pattern or goal
BinOp(o, l, r)   == Node("BinOp", o, <<l, r>>)
UnOp(o, e)       == Node("UnaryOp", o, <<e>>)
BoolOp(o, es)    == Node("BoolOp", o, es)
Cmp(o, l, r)     == Node("Compare", o, <<l, r>>)
Kw(n, e)         == Node("Kw", n, <<e>>)     \* keyword argument n=e
Call(f, args)    == Node("Call", "", <<f>> \o args)
Attr(e, a)       == Node("Attribute", a, <<e>>)
Sub(e, i)        == Node("Subscript", "", <<e, i>>)
Tup(es)          == Node("Tuple", "", es)
Lst(es)          == Node("List", "", es)
IfExp(b, t, o)   == Node("IfExp", "", <<b, t, o>>)   \* body if test else orelse
Lam(p, b)        == Node("Lambda", p, <<b>>)         \* lambda p: b   (p may be "")

Block(ss)        == Node("Block", "", ss)
ExprS(e)         == Node("Expr", "", <<e>>)
Assign(t, e)     == Node("Assign", "", <<t, e>>)
AugAssign(o,t,e) == Node("AugAssign", o, <<t, e>>)
Return(e)        == Node("Return", "", <<e>>)
PassS            == Leaf("Pass", "")
If(t, b, o)      == Node("If", "", <<t, Block(b), Block(o)>>)   \* o = <<>>: no else
While(t, b)      == Node("While", "", <<t, Block(b)>>)
Def(n, b)        == Node("Def", n, <<Block(b)>>)                \* def n(): b

ExprKinds == {"Name", "Num", "Str", "Str2", "Const", "Wild", "BinOp", "UnaryOp", "BoolOp", "Compare",
              "Call", "Attribute", "Subscript", "Tuple", "List", "IfExp", "Lambda",
              "Dict", "Set", "Slice", "Starred", "ListComp", "SetComp", "DictComp", "GeneratorExp",
              "JoinedStr", "NamedExpr"}
StmtKinds == {"Expr", "Assign", "AugAssign", "AnnAssign", "Return", "Pass", "Break", "Continue", "If",
              "While", "For", "Def", "FunctionDef", "ClassDef", "With", "Try", "ExceptHandler", "Import",
              "ImportFrom", "Global", "Global2", "Assert", "Delete", "Raise", "Match", "match_case"}
\* kinds that are neither: Block, Kw, keyword, arguments, arg, vararg, kwarg, comprehension,
\* FormattedValue, decorator, returns, withitem, alias, aliasas, MatchValue, MatchAs, MatchSequence, MatchOr

----------------------------------------------------------------------------
\* Paths
IsPrefix(p, q) == Len(p) <= Len(q) /\ SubSeq(q, 1, Len(p)) = p

RECURSIVE At(_, _)
At(t, p) == IF p = <<>> THEN t ELSE At(t.c[Head(p)], Tail(p))

RECURSIVE Paths(_)
Paths(t) == {<<>>} \cup UNION { { <<i>> \o q : q \in Paths(t.c[i]) } : i \in DOMAIN t.c }

RECURSIVE ReplaceAt(_, _, _)
ReplaceAt(t, p, new) ==
  IF p = <<>> THEN new
  ELSE [t EXCEPT !.c = [i \in DOMAIN t.c |-> IF i = Head(p) THEN ReplaceAt(t.c[i], Tail(p), new)
                                                             ELSE t.c[i]]]

RECURSIVE SumSizes(_, _)
RECURSIVE Size(_)
Size(t) == 1 + SumSizes(t.c, 1)
SumSizes(cs, i) == IF i > Len(cs) THEN 0 ELSE Size(cs[i]) + SumSizes(cs, i + 1)

ExprPaths(t)  == {p \in Paths(t) : At(t, p).k \in ExprKinds}
BlockPaths(t) == {p \in Paths(t) : At(t, p).k = "Block"}
StmtPaths(t)  == {p \in Paths(t) : At(t, p).k \in StmtKinds}

\* lexicographic (= source) order of paths
RECURSIVE LexLE(_, _)
LexLE(p, q) == IF p = <<>> THEN TRUE
               ELSE IF q = <<>> THEN FALSE
               ELSE IF Head(p) < Head(q) THEN TRUE
               ELSE IF Head(p) > Head(q) THEN FALSE
               ELSE LexLE(Tail(p), Tail(q))
LexMin(S) == CHOOSE p \in S : \A q \in S : LexLE(p, q)

----------------------------------------------------------------------------
\* Operator precedence (Python grammar, lowest binds loosest)
PTUPLE == 0   PTEST == 1   POR == 2   PAND == 3   PNOT == 4   PCMP == 5
PBOR == 6     PBXOR == 7   PBAND == 8 PSHIFT == 9 PARITH == 10 PTERM == 11
PFACTOR == 12 PPOWER == 13 PAWAIT == 14 PATOM == 15

BinPrec(o) == CASE o = "|" -> PBOR [] o = "^" -> PBXOR [] o = "&" -> PBAND
                [] o \in {"<<", ">>"} -> PSHIFT [] o \in {"+", "-"} -> PARITH
                [] o \in {"*", "/", "//", "%", "@"} -> PTERM [] o = "**" -> PPOWER

Prec(t) ==
  CASE t.k = "Tuple"   -> IF Len(t.c) = 0 THEN PATOM ELSE PTUPLE
    [] t.k \in {"IfExp", "Lambda"} -> PTEST
    [] t.k = "BoolOp"  -> IF t.v = "or" THEN POR ELSE PAND
    [] t.k = "UnaryOp" -> IF t.v = "not" THEN PNOT ELSE PFACTOR
    [] t.k = "Compare" -> PCMP
    [] t.k = "BinOp"   -> BinPrec(t.v)
    [] t.k = "NamedExpr" -> -1        \* always in parentheses here
    [] OTHER -> PATOM

\* precedence the i-th child must have to stand without parentheses
Req(t, i) ==
  CASE t.k = "BinOp" ->
         IF t.v = "**" THEN (IF i = 1 THEN PAWAIT ELSE PFACTOR)
         ELSE (IF i = 1 THEN BinPrec(t.v) ELSE BinPrec(t.v) + 1)
    [] t.k = "UnaryOp"   -> IF t.v = "not" THEN PNOT ELSE PFACTOR
    [] t.k = "BoolOp"    -> IF t.v = "or" THEN PAND ELSE PNOT
    [] t.k = "Compare"   -> PBOR
    [] t.k = "IfExp"     -> IF i = 3 THEN PTEST ELSE POR
    [] t.k = "Lambda"    -> PTEST
    [] t.k = "Call"      -> IF i = 1 THEN PATOM ELSE PTEST
    [] t.k = "Kw"        -> PTEST
    [] t.k = "Attribute" -> PATOM
    [] t.k = "Subscript" -> IF i = 1 THEN PATOM ELSE PTUPLE
    [] t.k \in {"Tuple", "List", "Set", "Dict"} -> PTEST
    [] t.k \in {"Starred", "keyword"} -> IF t.k = "Starred" THEN PBOR ELSE PTEST
    [] t.k = "Slice"     -> PTEST
    [] t.k \in {"If", "While", "Assert", "Raise", "Delete", "withitem", "decorator", "returns", "AnnAssign",
                 "ExceptHandler", "ClassDef", "arguments", "NamedExpr", "match_case", "Match",
                 "ListComp", "SetComp", "DictComp", "GeneratorExp"} -> PTEST
    [] t.k = "comprehension" -> IF i = 1 THEN PTUPLE ELSE POR
    [] t.k = "FormattedValue" -> POR
    [] t.k = "For"       -> IF i = 1 THEN PTUPLE ELSE PTUPLE
    [] t.k = "MatchValue" -> PATOM
    [] t.k = "AugAssign" -> IF i = 1 THEN PATOM ELSE PTUPLE
    [] OTHER -> PTUPLE

\* the i-th child c of t must be parenthesised
NeedsParen(t, i, c) ==
  IF Prec(c) < Req(t, i) THEN TRUE
  ELSE IF t.k = "Attribute" /\ c.k = "Num" THEN TRUE     \* 1.p does not lex as an attribute
  ELSE FALSE

----------------------------------------------------------------------------
\* Tokens.  d = -1: ordinary token; d >= 0: start of a logical line indented
\* d levels (s = ""); d = -2: line break inside brackets (s = "").
Tk(s)     == [s |-> s, d |-> -1]
LineAt(d) == [s |-> "", d |-> d]
SoftBreak == [s |-> "", d |-> -2]

\* A tokenisation result: tokens and spans.  A span [p, a, b, pa, pb] says node
\* at path p occupies tokens a..b and, together with the parentheses around it
\* that belong to nobody else, tokens pa..pb.
Res(toks, sp) == [toks |-> toks, sp |-> sp]
Lit(s)        == Res(<<Tk(s)>>, {})
Empty         == Res(<<>>, {})
Shift(sp, n)  == IF sp = {} \/ n = 0 THEN sp ELSE { [s EXCEPT !.a = @ + n, !.b = @ + n, !.pa = @ + n, !.pb = @ + n] : s \in sp }

RECURSIVE Cat(_)
Cat(parts) == IF parts = <<>> THEN Empty
              ELSE LET h == Head(parts)
                       r == Cat(Tail(parts))
                   IN Res(h.toks \o r.toks, h.sp \cup Shift(r.sp, Len(h.toks)))

RECURSIVE Rep(_, _)
Rep(x, n) == IF n = 0 THEN <<>> ELSE <<x>> \o Rep(x, n - 1)

\* layout decisions: rp = bag of paths (sequence) that get one redundant pair of
\* parentheses per occurrence; br = paths whose bracketed text is broken over
\* two lines after its first operator / comma; tc = paths of displays / calls
\* that get a trailing comma.
\* sp = FALSE: spans are not wanted (only the tokens), which saves the work.
NoDeco == [rp |-> <<>>, br |-> {}, tc |-> {}, sp |-> FALSE]
RECURSIVE CountIn(_, _)
CountIn(seq, x) == IF seq = <<>> THEN 0
                   ELSE (IF Head(seq) = x THEN 1 ELSE 0) + CountIn(Tail(seq), x)

\* wrap body in np pairs of parentheses and record the span of the node;
\* own = TRUE when the innermost pair is part of the node itself (tuples)
Wrap(path, body, np, own, want) ==
  LET n == Len(body.toks)
      a == IF own /\ np > 0 THEN np ELSE np + 1
      b == IF own /\ np > 0 THEN np + n + 1 ELSE np + n
      toks == IF np = 0 THEN body.toks ELSE Rep(Tk("("), np) \o body.toks \o Rep(Tk(")"), np)
  IN IF want
     THEN Res(toks, Shift(body.sp, np) \cup {[p |-> path, a |-> a, b |-> b, pa |-> 1, pb |-> n + 2 * np]})
     ELSE Res(toks, {})

BreakIf(path, D) == IF path \in D.br THEN Res(<<SoftBreak>>, {}) ELSE Empty
CommaIf(path, D) == IF path \in D.tc THEN Lit(",") ELSE Empty

RECURSIVE TE(_, _, _, _)        \* expression: tree, path, parenthesise?, deco
RECURSIVE TEBody(_, _, _)
RECURSIVE TList(_, _, _, _, _, _) \* children i.. of t joined by separator tokens
RECURSIVE TS(_, _, _, _, _)     \* statement: tree, path, depth, deco, keyword ("if"/"elif")
RECURSIVE TBlock(_, _, _, _)

TE(t, path, forced, D) ==
  LET np == (IF forced THEN 1 ELSE 0) + CountIn(D.rp, path)
  IN Wrap(path, TEBody(t, path, D), np, t.k = "Tuple" /\ Len(t.c) > 0, D.sp)

Child(t, path, i, D) == TE(t.c[i], path \o <<i>>, NeedsParen(t, i, t.c[i]), D)

\* children from..to of t separated by sep; a soft break after the first separator
TList(t, path, from, to, sep, D) ==
  IF from > to THEN Empty
  ELSE IF from = to THEN Child(t, path, from, D)
  ELSE Cat(<<Child(t, path, from, D), Lit(sep), BreakIf(path, D), TList(t, path, from + 1, to, sep, [D EXCEPT !.br = @ \ {path}])>>)

\* pieces used by several kinds
Opt(cond, part) == IF cond THEN part ELSE Empty
Glued(s)        == Res(<<[s |-> s, d |-> -3]>>, {})      \* no space allowed before this token
LineKw(depth, kw) == Cat(<<Res(<<LineAt(depth)>>, {}), Lit(kw)>>)
IsArgKind(k) == k \in {"arg", "vararg", "kwarg"}

\* parameters: arg [= default] separated by commas; * and ** stand before the
\* name and are not part of the arg node
RECURSIVE TParams(_, _, _, _)
TParams(t, path, i, D) ==
  IF i > Len(t.c) THEN Empty
  ELSE LET c == t.c[i]
           star == IF c.k = "vararg" THEN Lit("*") ELSE IF c.k = "kwarg" THEN Lit("**") ELSE Empty
           hasdef == i < Len(t.c) /\ ~IsArgKind(t.c[i + 1].k)
           next == IF hasdef THEN i + 2 ELSE i + 1
       IN Cat(<<star, Child(t, path, i, D),
                Opt(hasdef, Cat(<<Lit("="), Child(t, path, i + 1, D)>>)),
                Opt(next <= Len(t.c), Lit(",")),
                TParams(t, path, next, D)>>)

\* key: value pairs of a dict display
RECURSIVE TPairs(_, _, _, _)
TPairs(t, path, i, D) ==
  IF i > Len(t.c) THEN Empty
  ELSE Cat(<<Child(t, path, i, D), Lit(":"), Child(t, path, i + 1, D),
             Opt(i + 2 <= Len(t.c), Lit(",")), TPairs(t, path, i + 2, D)>>)

\* children from..to one after the other (no separator)
RECURSIVE TRun(_, _, _, _, _)
TRun(t, path, from, to, D) ==
  IF from > to THEN Empty ELSE Cat(<<Child(t, path, from, D), TRun(t, path, from + 1, to, D)>>)

ModuleToks(m) ==
  CASE m = "m" -> <<Lit("m")>> [] m = "." -> <<Lit(".")>> [] m = ".m" -> <<Lit("."), Lit("m")>>
    [] m = "a.b" -> <<Lit("a"), Lit("."), Lit("b")>> [] OTHER -> <<Lit(m)>>

TEBody(t, path, D) ==
  CASE t.k \in {"Name", "Num", "Str", "Const", "arg", "vararg", "kwarg"} -> Lit(t.v)
    [] t.k = "Wild"      -> Lit("${" \o t.v \o "}")
    [] t.k = "Str2"      -> Cat(<<Lit(t.v), Lit("\"b\"")>>)          \* implicit concatenation
    [] t.k = "BinOp"     -> Cat(<<Child(t, path, 1, D), Lit(t.v), BreakIf(path, D), Child(t, path, 2, D)>>)
    [] t.k = "Compare"   -> Cat(<<Child(t, path, 1, D),
                                  IF t.v = "is not" THEN Cat(<<Lit("is"), Lit("not")>>)
                                  ELSE IF t.v = "not in" THEN Cat(<<Lit("not"), Lit("in")>>)
                                  ELSE Lit(t.v),
                                  BreakIf(path, D), Child(t, path, 2, D)>>)
    [] t.k = "BoolOp"    -> TList(t, path, 1, Len(t.c), t.v, D)
    [] t.k = "UnaryOp"   -> Cat(<<Lit(t.v), Child(t, path, 1, D)>>)
    [] t.k = "Kw"        -> Cat(<<Lit(t.v), Lit("="), Child(t, path, 1, D)>>)
    [] t.k = "keyword"   -> IF t.v = "" THEN Cat(<<Lit("**"), Child(t, path, 1, D)>>)
                            ELSE Cat(<<Lit(t.v), Lit("="), Child(t, path, 1, D)>>)
    [] t.k = "Starred"   -> Cat(<<Lit("*"), Child(t, path, 1, D)>>)
    [] t.k = "Call"      -> Cat(<<Child(t, path, 1, D), Lit("("),
                                  TList(t, path, 2, Len(t.c), ",", D),
                                  IF Len(t.c) > 1 THEN CommaIf(path, D) ELSE Empty, Lit(")")>>)
    [] t.k = "Attribute" -> Cat(<<Child(t, path, 1, D), Lit("."), Lit(t.v)>>)
    [] t.k = "Subscript" -> Cat(<<Child(t, path, 1, D), Lit("["), Child(t, path, 2, D), Lit("]")>>)
    [] t.k = "Slice"     -> \* v lists the parts present: l(ower) u(pper) s(tep)
        (CASE t.v = ""    -> Lit(":")
           [] t.v = "l"   -> Cat(<<Child(t, path, 1, D), Lit(":")>>)
           [] t.v = "u"   -> Cat(<<Lit(":"), Child(t, path, 1, D)>>)
           [] t.v = "lu"  -> Cat(<<Child(t, path, 1, D), Lit(":"), Child(t, path, 2, D)>>)
           [] t.v = "s"   -> Cat(<<Lit(":"), Lit(":"), Child(t, path, 1, D)>>)
           [] t.v = "lus" -> Cat(<<Child(t, path, 1, D), Lit(":"), Child(t, path, 2, D), Lit(":"), Child(t, path, 3, D)>>))
    [] t.k = "Tuple"     -> IF Len(t.c) = 0 THEN Cat(<<Lit("("), Lit(")")>>)
                            ELSE IF Len(t.c) = 1 THEN Cat(<<Child(t, path, 1, D), Lit(",")>>)
                            ELSE Cat(<<TList(t, path, 1, Len(t.c), ",", D), CommaIf(path, D)>>)
    [] t.k = "List"      -> Cat(<<Lit("["), TList(t, path, 1, Len(t.c), ",", D),
                                  IF Len(t.c) > 0 THEN CommaIf(path, D) ELSE Empty, Lit("]")>>)
    [] t.k = "Set"       -> Cat(<<Lit("{"), TList(t, path, 1, Len(t.c), ",", D), CommaIf(path, D), Lit("}")>>)
    [] t.k = "Dict"      -> Cat(<<Lit("{"), TPairs(t, path, 1, D),
                                  IF Len(t.c) > 0 THEN CommaIf(path, D) ELSE Empty, Lit("}")>>)
    [] t.k = "IfExp"     -> Cat(<<Child(t, path, 1, D), Lit("if"), BreakIf(path, D), Child(t, path, 2, D),
                                  Lit("else"), Child(t, path, 3, D)>>)
    [] t.k = "Lambda"    -> IF Len(t.c) = 2
                            THEN Cat(<<Lit("lambda"), Child(t, path, 1, D), Lit(":"), Child(t, path, 2, D)>>)
                            ELSE Cat(<<Lit("lambda"), IF t.v = "" THEN Empty ELSE Lit(t.v), Lit(":"),
                                       Child(t, path, 1, D)>>)
    [] t.k = "arguments" -> TParams(t, path, 1, D)
    [] t.k = "NamedExpr" -> Cat(<<Child(t, path, 1, D), Lit(":="), Child(t, path, 2, D)>>)
    [] t.k = "comprehension" ->
         Cat(<<Lit("for"), Child(t, path, 1, D), Lit("in"), Child(t, path, 2, D),
               Opt(Len(t.c) = 3, Cat(<<Lit("if"), IF Len(t.c) = 3 THEN Child(t, path, 3, D) ELSE Empty>>))>>)
    [] t.k = "ListComp"     -> Cat(<<Lit("["), TRun(t, path, 1, Len(t.c), D), Lit("]")>>)
    [] t.k = "SetComp"      -> Cat(<<Lit("{"), TRun(t, path, 1, Len(t.c), D), Lit("}")>>)
    [] t.k = "GeneratorExp" -> Cat(<<Lit("("), TRun(t, path, 1, Len(t.c), D), Lit(")")>>)
    [] t.k = "DictComp"     -> Cat(<<Lit("{"), Child(t, path, 1, D), Lit(":"), TRun(t, path, 2, Len(t.c), D), Lit("}")>>)
    [] t.k = "JoinedStr"    -> Cat(<<Lit("f\"a"), Child(t, path, 1, D), Glued("b\"")>>)
    [] t.k = "FormattedValue" -> Cat(<<Glued("{"), Child(t, path, 1, D), Lit("}")>>)
    \* virtual nodes (no counterpart in the interpreter's tree)
    [] t.k = "decorator"    -> Cat(<<Lit("@"), Child(t, path, 1, D)>>)
    [] t.k = "returns"      -> Cat(<<Lit("->"), Child(t, path, 1, D)>>)
    [] t.k = "withitem"     -> IF Len(t.c) = 1 THEN Child(t, path, 1, D)
                               ELSE Cat(<<Child(t, path, 1, D), Lit("as"), Child(t, path, 2, D)>>)
    [] t.k = "alias"        -> Cat(ModuleToks(t.v))
    [] t.k = "aliasas"      -> Cat(ModuleToks(t.v) \o <<Lit("as"), Lit("z")>>)
    \* match patterns
    [] t.k = "MatchValue"    -> Child(t, path, 1, D)
    [] t.k = "MatchAs"       -> Lit(IF t.v = "" THEN "_" ELSE t.v)
    [] t.k = "MatchSequence" -> Cat(<<Lit("["), TList(t, path, 1, Len(t.c), ",", D), Lit("]")>>)
    [] t.k = "MatchOr"       -> TList(t, path, 1, Len(t.c), "|", D)

TBlock(b, path, depth, D) ==
  LET RECURSIVE Go(_)
      Go(i) == IF i > Len(b.c) THEN Empty
               ELSE Cat(<<Res(<<LineAt(depth)>>, {}), TS(b.c[i], path \o <<i>>, depth, D, "if"), Go(i + 1)>>)
  IN Go(1)

StmtSpan(path, want, body) ==
  IF want
  THEN Res(body.toks, body.sp \cup {[p |-> path, a |-> 1, b |-> Len(body.toks), pa |-> 1, pb |-> Len(body.toks)]})
  ELSE body

Blk(t, path, j, depth, D) == TBlock(t.c[j], path \o <<j>>, depth + 1, D)

\* the leading children of kind k (decorators), each on its own line
RECURSIVE TDecos(_, _, _, _, _)
TDecos(t, path, i, depth, D) ==
  IF i > Len(t.c) THEN Empty
  ELSE IF t.c[i].k # "decorator" THEN Empty
  ELSE Cat(<<Child(t, path, i, D), Res(<<LineAt(depth)>>, {}), TDecos(t, path, i + 1, depth, D)>>)
RECURSIVE NDecos(_, _)
NDecos(t, i) == IF i > Len(t.c) THEN 0 ELSE IF t.c[i].k # "decorator" THEN 0 ELSE 1 + NDecos(t, i + 1)

\* except handlers i.. of a try statement
RECURSIVE THandlers(_, _, _, _, _)
THandlers(t, path, i, depth, D) ==
  IF i > Len(t.c) THEN Empty
  ELSE IF t.c[i].k # "ExceptHandler" THEN Empty
  ELSE Cat(<<Res(<<LineAt(depth)>>, {}), TS(t.c[i], path \o <<i>>, depth, D, "if"),
             THandlers(t, path, i + 1, depth, D)>>)
RECURSIVE NHandlers(_, _)
NHandlers(t, i) == IF i > Len(t.c) THEN 0 ELSE IF t.c[i].k # "ExceptHandler" THEN 0 ELSE 1 + NHandlers(t, i + 1)

\* match_case children i.. of a match statement
RECURSIVE TCases(_, _, _, _, _)
TCases(t, path, i, depth, D) ==
  IF i > Len(t.c) THEN Empty
  ELSE Cat(<<Res(<<LineAt(depth + 1)>>, {}), TS(t.c[i], path \o <<i>>, depth + 1, D, "if"),
             TCases(t, path, i + 1, depth, D)>>)

TS(t, path, depth, D, kw) ==
  StmtSpan(path, D.sp,
    CASE t.k = "Expr"      -> Child(t, path, 1, D)
      [] t.k = "Assign"    -> TList(t, path, 1, Len(t.c), "=", D)
      [] t.k = "AugAssign" -> Cat(<<Child(t, path, 1, D), Lit(t.v \o "="), Child(t, path, 2, D)>>)
      [] t.k = "AnnAssign" -> Cat(<<Child(t, path, 1, D), Lit(":"), Child(t, path, 2, D),
                                    Opt(Len(t.c) = 3, Cat(<<Lit("="), IF Len(t.c) = 3 THEN Child(t, path, 3, D) ELSE Empty>>))>>)
      [] t.k = "Return"    -> IF Len(t.c) = 0 THEN Lit("return") ELSE Cat(<<Lit("return"), Child(t, path, 1, D)>>)
      [] t.k = "Pass"      -> Lit("pass")
      [] t.k = "Break"     -> Lit("break")
      [] t.k = "Continue"  -> Lit("continue")
      [] t.k = "Global"    -> Cat(<<Lit("global"), Lit(t.v)>>)
      [] t.k = "Global2"   -> Cat(<<Lit("global"), Lit("a"), Lit(","), Lit("b")>>)
      [] t.k = "Assert"    -> Cat(<<Lit("assert"), TList(t, path, 1, Len(t.c), ",", D)>>)
      [] t.k = "Delete"    -> Cat(<<Lit("del"), TList(t, path, 1, Len(t.c), ",", D)>>)
      [] t.k = "Raise"     -> IF Len(t.c) = 0 THEN Lit("raise")
                              ELSE Cat(<<Lit("raise"), TList(t, path, 1, Len(t.c), "from", D)>>)
      [] t.k = "Import"    -> Cat(<<Lit("import"), TList(t, path, 1, Len(t.c), ",", D)>>)
      [] t.k = "ImportFrom" -> Cat(<<Lit("from")>> \o ModuleToks(t.v) \o <<Lit("import"), TList(t, path, 1, Len(t.c), ",", D)>>)
      [] t.k = "While"     -> Cat(<<Lit("while"), Child(t, path, 1, D), Lit(":"), Blk(t, path, 2, depth, D),
                                    Opt(Len(t.c) = 3, Cat(<<LineKw(depth, "else"), Lit(":"),
                                                            IF Len(t.c) = 3 THEN Blk(t, path, 3, depth, D) ELSE Empty>>))>>)
      [] t.k = "For"       -> Cat(<<Lit("for"), Child(t, path, 1, D), Lit("in"), Child(t, path, 2, D), Lit(":"),
                                    Blk(t, path, 3, depth, D),
                                    Opt(Len(t.c) = 4, Cat(<<LineKw(depth, "else"), Lit(":"),
                                                            IF Len(t.c) = 4 THEN Blk(t, path, 4, depth, D) ELSE Empty>>))>>)
      [] t.k = "With"      -> Cat(<<Lit("with"), Opt(t.v = "paren", Lit("(")),
                                    TList(t, path, 1, Len(t.c) - 1, ",", D),
                                    Opt(t.v = "paren", Lit(")")), Lit(":"), Blk(t, path, Len(t.c), depth, D)>>)
      [] t.k = "Try"       ->
           LET nh == NHandlers(t, 2)
               hasElse == t.v \in {"else", "else+finally"}
               hasFin  == t.v \in {"finally", "else+finally"}
               je == 2 + nh
               jf == IF hasElse THEN je + 1 ELSE je
           IN Cat(<<Lit("try"), Lit(":"), Blk(t, path, 1, depth, D), THandlers(t, path, 2, depth, D),
                    Opt(hasElse, Cat(<<LineKw(depth, "else"), Lit(":"), IF hasElse THEN Blk(t, path, je, depth, D) ELSE Empty>>)),
                    Opt(hasFin, Cat(<<LineKw(depth, "finally"), Lit(":"), IF hasFin THEN Blk(t, path, jf, depth, D) ELSE Empty>>))>>)
      [] t.k = "ExceptHandler" ->
           IF Len(t.c) = 1 THEN Cat(<<Lit("except"), Lit(":"), Blk(t, path, 1, depth, D)>>)
           ELSE Cat(<<Lit("except"), Child(t, path, 1, D), Opt(t.v # "", Cat(<<Lit("as"), Lit(t.v)>>)), Lit(":"),
                      Blk(t, path, 2, depth, D)>>)
      [] t.k = "Def"       -> Cat(<<Lit("def"), Lit(t.v), Lit("("), Lit(")"), Lit(":"),
                                    TBlock(t.c[1], path \o <<1>>, depth + 1, D)>>)
      [] t.k = "FunctionDef" ->
           LET nd == NDecos(t, 1)
               n  == Len(t.c)
               hasArgs == nd + 1 < n /\ t.c[nd + 1].k = "arguments"
               jr == IF hasArgs THEN nd + 2 ELSE nd + 1
               hasRet == jr < n /\ t.c[jr].k = "returns"
           IN Cat(<<TDecos(t, path, 1, depth, D), Lit("def"), Lit(t.v), Lit("("),
                    IF hasArgs THEN Child(t, path, nd + 1, D) ELSE Empty, Lit(")"),
                    IF hasRet THEN Child(t, path, jr, D) ELSE Empty, Lit(":"), Blk(t, path, n, depth, D)>>)
      [] t.k = "ClassDef"  ->
           LET nd == NDecos(t, 1)
               n  == Len(t.c)
           IN Cat(<<TDecos(t, path, 1, depth, D), Lit("class"), Lit(t.v),
                    Opt(n - nd > 1, Cat(<<Lit("("), TList(t, path, nd + 1, n - 1, ",", D), CommaIf(path, D), Lit(")")>>)),
                    Lit(":"), Blk(t, path, n, depth, D)>>)
      [] t.k = "Match"     -> Cat(<<Lit("match"), Child(t, path, 1, D), Lit(":"), TCases(t, path, 2, depth, D)>>)
      [] t.k = "match_case" ->
           Cat(<<Lit("case"), Child(t, path, 1, D),
                 Opt(Len(t.c) = 3, Cat(<<Lit("if"), IF Len(t.c) = 3 THEN Child(t, path, 2, D) ELSE Empty>>)),
                 Lit(":"), Blk(t, path, Len(t.c), depth, D)>>)
      [] t.k = "If"        ->
           LET head == <<Lit(kw), Child(t, path, 1, D), Lit(":"), TBlock(t.c[2], path \o <<2>>, depth + 1, D)>>
               els  == t.c[3].c
           IN IF Len(els) = 0 THEN Cat(head)
              ELSE IF Len(els) = 1 /\ els[1].k = "If"
                   THEN \* an else block that is exactly one if statement is written elif
                        Cat(head \o <<Res(<<LineAt(depth)>>, {}),
                                      TS(els[1], path \o <<3, 1>>, depth, D, "elif")>>)
              ELSE Cat(head \o <<Res(<<LineAt(depth)>>, {}), Lit("else"), Lit(":"),
                                 TBlock(t.c[3], path \o <<3>>, depth + 1, D)>>))

\* a whole module / pattern / goal
Toks(t, D) ==
  IF t.k = "Block" THEN TBlock(t, <<>>, 0, D)
  ELSE IF t.k \in StmtKinds THEN TS(t, <<>>, 0, D, "if")
  ELSE TE(t, <<>>, FALSE, D)

----------------------------------------------------------------------------
\* Patterns.  A wildcard named w stands for any expression, unless w is in
\* `exact`, in which case it stands for the name w only.
WildPaths(pat) == {q \in Paths(pat) : At(pat, q).k = "Wild"}
WildNames(pat) == {At(pat, q).v : q \in WildPaths(pat)}
Occ(pat, w)    == {q \in WildPaths(pat) : At(pat, q).v = w}
FirstOcc(pat, w) == LexMin(Occ(pat, w))

KindOK(w, n, exact) == IF w \in exact THEN n = Name(w) ELSE n.k \in ExprKinds

RECURSIVE Subst(_, _)
Subst(g, s) == IF g.k = "Wild" THEN s[g.v]
               ELSE [g EXCEPT !.c = [i \in DOMAIN g.c |-> Subst(g.c[i], s)]]

\* the skeleton of the pattern (everything but the wildcards) is the node's
RECURSIVE Skel(_, _)
Skel(p, n) == IF p.k = "Wild" THEN TRUE
              ELSE /\ p.k = n.k
                   /\ p.v = n.v
                   /\ Len(p.c) = Len(n.c)
                   /\ \A i \in DOMAIN p.c : Skel(p.c[i], n.c[i])

Sigma(pat, n) == [w \in WildNames(pat) |-> At(n, FirstOcc(pat, w))]

\* n is an instance of pat: some binding of the wildcards turns pat into n
Matches(pat, n, exact) ==
  /\ Skel(pat, n)
  /\ \A w \in WildNames(pat) :
        /\ KindOK(w, At(n, FirstOcc(pat, w)), exact)
        /\ \A q \in Occ(pat, w) : At(n, q) = At(n, FirstOcc(pat, w))

\* The matcher as a mechanism (rope's _ASTMatcher): walk pattern and node
\* together, threading the binding; first occurrence binds, later ones compare.
NoBinding == [w \in {} |-> 0]
RECURSIVE MA(_, _, _, _)
RECURSIVE MAList(_, _, _, _, _)
MA(p, n, m, exact) ==
  IF p.k = "Wild" THEN
       IF p.v \in DOMAIN m THEN [ok |-> m[p.v] = n, m |-> m]
       ELSE IF KindOK(p.v, n, exact) THEN [ok |-> TRUE, m |-> m @@ (p.v :> n)]
       ELSE [ok |-> FALSE, m |-> m]
  ELSE IF p.k # n.k THEN [ok |-> FALSE, m |-> m]
  ELSE IF p.v # n.v THEN [ok |-> FALSE, m |-> m]
  ELSE IF Len(p.c) # Len(n.c) THEN [ok |-> FALSE, m |-> m]
  ELSE MAList(p.c, n.c, 1, m, exact)
MAList(ps, ns, i, m, exact) ==
  IF i > Len(ps) THEN [ok |-> TRUE, m |-> m]
  ELSE LET r == MA(ps[i], ns[i], m, exact)
       IN IF r.ok THEN MAList(ps, ns, i + 1, r.m, exact) ELSE r

=============================================================================
