------------------------------ MODULE MC_PyLex ------------------------------
EXTENDS PyLex, Json

\* Behaviour export: one JSON line per complete text (every accepting state)
Behaviour ==
  LET F == Final(lx) IN
  [syms |-> syms, chars |-> lx.chars, regions |-> F.regions, stmts |-> F.stmts,
   names |-> F.names, joins |-> F.joins, bjoins |-> F.bjoins, kws |-> F.kws, lstarts |-> LineStarts(lx)]
Export == Accepting(lx) => PrintT(<<"BEH", ToJson(Behaviour)>>)
=============================================================================
