-------------------------- MODULE MC_PyInlineSeq --------------------------
EXTENDS PyInlineSeq, Json

MCNames == {"t", "u"}

\* one JSON line per history of >= 1 performed requests: the program (names), the
\* requests in order, the output every intermediate program must print
Behaviour ==
  [nfuncs |-> NFuncs, names |-> names, hist |-> hist, out |-> Exec,
   clashes |-> { <<i, j>> \in Funcs \X Funcs : i < j /\ names[i] = names[j] }]
Export == (hist # <<>>) => PrintT(<<"BEH", ToJson(Behaviour)>>)
=============================================================================
