------------------------------ MODULE PyCalls ------------------------------
(***************************************************************************)
(* Python's argument binding, signature changers and call inlining.        *)
(*                                                                         *)
(* A signature is a sequence of <= MaxParams named parameters, each with   *)
(* or without a default, plus the flags *args (va) and **kw (kw) and an    *)
(* optional keyword-only tail `*, k` / `*, k=14` (ko).  A call             *)
(* is a sequence of positional values followed by a sequence of keyword    *)
(* arguments.  Accepts / Binding restate CPython's binding rule (the       *)
(* harness cross-checks them by running every rendered program).           *)
(*                                                                         *)
(* Task = "sig"  (C06): a sequence of <= MaxChangers signature changers    *)
(*   (normalize, reorder, add, remove, remove_va, remove_kw,               *)
(*   inline_default, intro) is applied                                     *)
(*   to the signature and to EVERY call shape the signature accepts.  The  *)
(*   effect of a changer is specified twice and independently:             *)
(*     - on the binding (exp):  which value every surviving parameter      *)
(*       must receive -- the property;                                     *)
(*     - on the call text (calls): a canonical re-emission of the call     *)
(*       for the new signature.                                            *)
(*   BindPreserved says that binding the re-emitted call with Python's     *)
(*   rule gives exp; StillAccepted that Python accepts it.  This validates *)
(*   the oracle and the legal-request predicates (an illegal request, e.g. *)
(*   a default-less parameter after a defaulted one, breaks them).         *)
(*                                                                         *)
(* Task = "inline" (C04): see the second half of the module.               *)
(***************************************************************************)
EXTENDS Naturals, Sequences, FiniteSets, TLC

CONSTANTS MaxParams,     \* named parameters per signature
          MaxArgs,       \* arguments supplied per call
          Kinds,         \* kinds of callable each behaviour is rendered as (function, method,
                         \*   constructor, classmethod, staticmethod): binding does not depend on it,
                         \*   so it is not a state variable; it is exported with every behaviour
          Stars,         \* BOOLEAN: signatures may have *args / **kw
          KoSet,         \* keyword-only tail explored: subset of {0, 1, 2}
                         \*   0 = none, 1 = `*, k` (required), 2 = `*, k=14`
          MaxChangers,   \* length of the changer sequence (Task = "sig")
          Task,          \* "sig" | "inline"
          MaxSites,      \* call sites per program (Task = "inline")
          Uses,          \* how the body uses a parameter: subset of {"plain", "tight", "reassign"}
          Cxs,           \* subset of BOOLEAN: arguments written as compound expressions `h + k`
          Hosts,         \* subset of BOOLEAN: a site's own scope has a live local named like a local
                         \*   of the inlined body
          Dups,          \* subset of BOOLEAN: a site may repeat the call text of site 1
          Mods,          \* modules holding call sites (Task = "inline"): 1 = the defining module, 2, 3 = importers
          Imps,          \* subset of BOOLEAN: the inlined body needs a name imported in the defining module
          Ctxs,          \* syntactic contexts a call site is rendered in (statement, right-hand side, nested,
                         \*   followed by more expression, on a continuation line of a multi-line statement);
                         \*   like Kinds a rendering dimension exported with every behaviour
          Furniture,     \* what else the modules of Task = "sig" contain around the call sites ("none",
                         \*   "from_then_lazy_import": `raise .. from` / `yield from` before and function-level
                         \*   imports after call sites); rendering dimension exported with every behaviour
          MaxRecv,       \* receivers of bound calls are attribute chains of 1..MaxRecv components
          MaxPreviews,   \* requests computed and discarded before the performed request (Task = "sig")
          PreviewKinds   \* subset of {"intro", "same"}: what is previewed (introduce-parameter / the very
                         \*   request that is performed afterwards)

PNames == <<"a", "b", "c">>
XNames == {"x", "y"}          \* keyword names that no signature declares
NewName == "n"                \* name used by add
IntroName == "p"              \* name used by introduce-parameter
NoVal == 0
DefOf(i) == 10 + i            \* default value of the i-th original parameter
AddDef == 20
AddVal == 21
AutoDef == 30
IntroDef == 40
KoName == "k"                 \* the keyword-only parameter
KoDef == 14

StarSet == IF Stars THEN BOOLEAN ELSE {FALSE}

---------------------------------------------------------------------------
(* Signatures *)
ParamSeqs ==
  UNION { { [i \in 1..n |-> [n |-> PNames[i],
                             d |-> IF i > n - k THEN DefOf(i) ELSE NoVal]] : k \in 0..n }
          : n \in 0..MaxParams }
Sigs == { [ps |-> ps, va |-> va, kw |-> kw, ko |-> ko] :
            ps \in ParamSeqs, va \in StarSet, kw \in StarSet, ko \in KoSet }

Names(sig) == { sig.ps[i].n : i \in DOMAIN sig.ps }
Idx(sig, name) == CHOOSE i \in DOMAIN sig.ps : sig.ps[i].n = name
\* what `def` itself demands: distinct names, no default-less parameter after a defaulted one
WellFormedSig(sig) ==
  /\ \A i, j \in DOMAIN sig.ps : i # j => sig.ps[i].n # sig.ps[j].n
  /\ \A i, j \in DOMAIN sig.ps : (i < j /\ sig.ps[i].d # NoVal) => sig.ps[j].d # NoVal

---------------------------------------------------------------------------
(* Calls and Python's binding rule *)
KwNames(call) == { call.kws[j].k : j \in DOMAIN call.kws }
KwVal(call, name) == call.kws[CHOOSE j \in DOMAIN call.kws : call.kws[j].k = name].v

How(sig, call, i) ==
  IF i <= Len(call.pos) THEN "pos"
  ELSE IF sig.ps[i].n \in KwNames(call) THEN "kw"
  ELSE IF sig.ps[i].d # NoVal THEN "def" ELSE "missing"

ValOf(sig, call, i) ==
  IF i <= Len(call.pos) THEN call.pos[i]
  ELSE IF sig.ps[i].n \in KwNames(call) THEN KwVal(call, sig.ps[i].n)
  ELSE sig.ps[i].d

\* names a keyword may address
Declared(sig) == Names(sig) \cup (IF sig.ko > 0 THEN {KoName} ELSE {})
Accepts(sig, call) ==
  /\ (Len(call.pos) > Len(sig.ps)) => sig.va                        \* too many positionals
  /\ \A j, k \in DOMAIN call.kws : j # k => call.kws[j].k # call.kws[k].k   \* repeated keyword
  /\ \A i \in DOMAIN sig.ps : i <= Len(call.pos) => sig.ps[i].n \notin KwNames(call)  \* multiple values
  /\ (KwNames(call) \ Declared(sig) # {}) => sig.kw                 \* unexpected keyword
  /\ (sig.ko = 1) => KoName \in KwNames(call)                      \* missing keyword-only argument
  /\ \A i \in DOMAIN sig.ps : How(sig, call, i) # "missing"         \* missing required argument

ExtraPos(sig, call) == SubSeq(call.pos, Len(sig.ps) + 1, Len(call.pos))
ExtraKws(sig, call) == SelectSeq(call.kws, LAMBDA e : e.k \notin Declared(sig))

Binding(sig, call) ==
  [par |-> { <<sig.ps[i].n, ValOf(sig, call, i)>> : i \in DOMAIN sig.ps }
           \cup (IF sig.ko > 0
                 THEN {<<KoName, IF KoName \in KwNames(call) THEN KwVal(call, KoName) ELSE KoDef>>}
                 ELSE {}),
   va  |-> IF sig.va THEN ExtraPos(sig, call) ELSE <<>>,
   kw  |-> { <<call.kws[j].k, call.kws[j].v>> :
             j \in { j \in DOMAIN call.kws : call.kws[j].k \notin Declared(sig) } },
   rc  |-> call.rc]       \* the object the implicit first parameter is bound to (end of the chain)

\* parameters a call supplies itself (not left to the default)
Supplied(sig, call) == { sig.ps[i].n : i \in { i \in DOMAIN sig.ps : How(sig, call, i) # "def" } }
                       \cup ({KoName} \cap KwNames(call))

\* every call shape: np positionals, then an injective sequence of keyword
\* names; the k-th supplied argument carries the value k
InjSeqs(S, n) ==
  UNION { { s \in [1..k -> S] : \A i, j \in 1..k : i # j => s[i] # s[j] } : k \in 0..n }
\* a bound call (method, classmethod) has a receiver expression; it is an attribute chain
\* of rc components (obj / w2.o / w3.w.o), rc a function of the call shape so that all depths occur
RecvDepth(n) == 1 + (n % MaxRecv)
MkCall(np, ks) ==
  [rc |-> RecvDepth(np + Len(ks)),
   pos |-> [i \in 1..np |-> i],
   kws |-> [j \in 1..Len(ks) |-> [k |-> ks[j], v |-> np + j]]]
KwUniverse(sig) == Declared(sig) \cup (IF sig.kw THEN XNames ELSE {})
AllCalls(sig) ==
  { c \in { MkCall(np, ks) : np \in 0..MaxArgs, ks \in InjSeqs(KwUniverse(sig), MaxArgs) } :
      Len(c.pos) + Len(c.kws) <= MaxArgs /\ Accepts(sig, c) }

---------------------------------------------------------------------------
(* Re-emission of a call for a (new) signature from the values wanted.     *)
(* want: [Names(sig) -> value | NoVal]  (NoVal: leave it to the default)   *)
(* Python forces: extra positionals need every parameter before them to be *)
(* positional, so an omitted one must pass its default explicitly.         *)
Emit(sig, want, extras, kopart, kwx) ==
  LET n == Len(sig.ps)
      present(i) == want[sig.ps[i].n] # NoVal
      pp == IF extras # <<>> THEN n
            ELSE CHOOSE k \in 0..n : /\ \A i \in 1..k : present(i)
                                     /\ (k < n => ~present(k + 1))
      posv == [i \in 1..pp |-> IF present(i) THEN want[sig.ps[i].n] ELSE sig.ps[i].d]
      rest == SelectSeq([i \in 1..n |-> [k |-> sig.ps[i].n, v |-> want[sig.ps[i].n], i |-> i]],
                        LAMBDA e : e.i > pp /\ e.v # NoVal)
  IN [pos |-> posv \o extras,
      kws |-> [j \in 1..Len(rest) |-> [k |-> rest[j].k, v |-> rest[j].v]] \o kopart \o kwx]

\* call c, bound under sig1, re-emitted for sig2; newname gets newval;
\* parameter inl (if any) passes its default explicitly
Recall(sig1, sig2, c, newname, newval, inl) ==
  LET want == [name \in Names(sig2) |->
                 IF name = newname THEN newval
                 ELSE LET i == Idx(sig1, name) IN
                      IF How(sig1, c, i) = "def"
                      THEN (IF name = inl THEN sig1.ps[i].d ELSE NoVal)
                      ELSE ValOf(sig1, c, i)]
      e == Emit(sig2, want,
                IF sig2.va THEN ExtraPos(sig1, c) ELSE <<>>,
                SelectSeq(c.kws, LAMBDA x : x.k = KoName),      \* the keyword-only argument stays a keyword
                IF sig2.kw THEN ExtraKws(sig1, c) ELSE <<>>)
  IN [rc |-> c.rc, pos |-> e.pos, kws |-> e.kws]      \* the receiver is the whole chain, unchanged

---------------------------------------------------------------------------
VARIABLES sig0,    \* signature before
          sig,     \* current signature
          calls,   \* [AllCalls(sig0) -> call]  current text of every call site
          exp,     \* [AllCalls(sig0) -> binding] what every site must bind (the property)
          expl,    \* [AllCalls(sig0) -> SUBSET names] parameters a site must pass itself
          chg,     \* sequence of changer requests applied
          pre,     \* requests computed (get_changes) and discarded before the performed one
          \* ---- Task = "inline"
          sites,   \* sequence of call-site records
          opt,     \* [remove, only, cur] options of the inline request
          shown,   \* [site index -> set of <<param, value>>] what each inlined site shows
          shownD,  \* the same in the defect model: parameter map kept across sites, textual splice
          shownS,  \* defect model, shared parameter map only
          shownL,  \* defect model, textual splice / reassigned parameter only
          carry,   \* parameter maps of the two generators (defect model only)
          stale,   \* sites at which the carried map differs from the site's own binding
          hostval, \* [site -> value of the host scope's own local after the request | 0 = none]
          hostvalC,\* the same in the defect model "generated body cached by call text"
          cache,   \* per generator: set of [c, vb, renamed] bodies generated so far (defect model)
          imported,  \* modules that were given the imports the body needs
          importedD, \* the same in the defect model "the list of needed imports can be read once"
          todo,    \* sites still to be visited, in rope's visiting order
          defgone  \* definition removed

vars == <<sig0, sig, calls, exp, expl, chg, pre, sites, opt, shown, shownD, shownS, shownL, carry, stale, hostval, hostvalC, cache, imported, importedD, todo, defgone>>
inlvars == <<sites, opt, shown, shownD, shownS, shownL, carry, stale, hostval, hostvalC, cache, imported, importedD, todo, defgone>>
sigvars == <<calls, exp, expl, chg, pre>>

\* nm: the name an add introduces / a remove takes away ("" for the other changers)
Changer(op, i, perm, auto, d, v) == [op |-> op, i |-> i, perm |-> perm, auto |-> auto, d |-> d, v |-> v, nm |-> ""]

\* one changer step: new signature, new expected bindings, re-emitted calls
Step(c, sig2, newname, newval, inl, exp2, expl2) ==
  /\ Task = "sig"
  /\ Len(chg) < MaxChangers
  /\ IF chg = <<>> THEN TRUE ELSE chg[1].op # "intro"   \* introduce-parameter is a request of its own
  /\ sig' = sig2
  /\ chg' = Append(chg, c)
  /\ exp' = exp2
  /\ expl' = expl2
  /\ calls' = [c0 \in DOMAIN calls |-> Recall(sig, sig2, calls[c0], newname, newval, inl)]
  /\ UNCHANGED <<sig0, pre>>
  /\ UNCHANGED inlvars

\* A request whose changes are computed and then thrown away (preview / cancel), before the
\* request that is performed.  It must leave no trace: nothing but `pre` changes.
Discard(kind) ==
  /\ Task = "sig"
  /\ chg = <<>>
  /\ Len(pre) < MaxPreviews
  /\ kind \in PreviewKinds
  /\ pre' = Append(pre, kind)
  /\ UNCHANGED <<sig0, sig, calls, exp, expl, chg>>
  /\ UNCHANGED inlvars

Normalize ==
  Step(Changer("normalize", 0, <<>>, FALSE, 0, 0), sig, "", NoVal, "", exp, expl)

\* perm[k] = old (1-based) index of the parameter that goes to place k
Perms(n) == { p \in [1..n -> 1..n] : \A i, j \in 1..n : i # j => p[i] # p[j] }
Reordered(s, perm, auto) ==
  LET moved == [k \in 1..Len(s.ps) |-> s.ps[perm[k]]]
      fixed == [k \in 1..Len(s.ps) |->
                  IF auto /\ moved[k].d = NoVal /\ \E j \in 1..(k - 1) : moved[j].d # NoVal
                  THEN [moved[k] EXCEPT !.d = AutoDef] ELSE moved[k]]
  IN [s EXCEPT !.ps = fixed]
ReorderLegal(perm, auto) ==
  /\ Len(sig.ps) >= 2
  /\ perm # [k \in 1..Len(sig.ps) |-> k]
  /\ WellFormedSig(Reordered(sig, perm, auto))
Reorder(perm, auto) ==
  /\ ReorderLegal(perm, auto)
  /\ Step(Changer("reorder", 0, perm, auto, 0, 0), Reordered(sig, perm, auto), "", NoVal, "", exp, expl)

\* insert parameter NewName after the first i parameters
InsertAt(s, i, p) == [s EXCEPT !.ps = SubSeq(s.ps, 1, i) \o <<p>> \o SubSeq(s.ps, i + 1, Len(s.ps))]
AddLegal(name, i, d, v) ==
  /\ name \notin Names(sig)
  /\ Len(sig.ps) < MaxParams + 1
  /\ IF d # NoVal THEN TRUE ELSE v # NoVal        \* some value must reach the new parameter
  /\ WellFormedSig(InsertAt(sig, i, [n |-> name, d |-> d]))
AddStep(opname, name, i, d, v) ==
  /\ AddLegal(name, i, d, v)
  /\ Step([Changer(opname, i, <<>>, FALSE, d, v) EXCEPT !.nm = name], InsertAt(sig, i, [n |-> name, d |-> d]),
          name, v, "",
          [c0 \in DOMAIN exp |->
             [exp[c0] EXCEPT !.par = @ \cup {<<name, IF v # NoVal THEN v ELSE d>>}]],
          [c0 \in DOMAIN expl |-> IF v # NoVal THEN expl[c0] \cup {name} ELSE expl[c0]])
Add(i, d, v) == AddStep("add", NewName, i, d, v)
\* A later changer of the same request may re-use the name of a parameter an earlier changer removed.
\* The re-added parameter is a NEW parameter: it gets the value the request supplies, never what the
\* calls passed to the removed one.  Only requests that supply a value are in the legal set (with a
\* default alone it is debatable whether "remove + add" means "move", so that is not charged).
Removed == Names(sig0) \ Names(sig)
ReAdd(name, i, d) == name \in Removed /\ AddStep("add", name, i, d, AddVal)
\* introduce-parameter: a new last named parameter whose default is the expression
Intro == chg = <<>> /\ AddStep("intro", IntroName, Len(sig.ps), IntroDef, NoVal)

\* the parameter is unused in the body (rendering guarantees it)
Without(s, i) == [s EXCEPT !.ps = SubSeq(s.ps, 1, i - 1) \o SubSeq(s.ps, i + 1, Len(s.ps))]
Remove(i) ==
  /\ i \in DOMAIN sig.ps
  /\ Step([Changer("remove", i, <<>>, FALSE, 0, 0) EXCEPT !.nm = sig.ps[i].n], Without(sig, i), "", NoVal, "",
          [c0 \in DOMAIN exp |->
             [exp[c0] EXCEPT !.par = { e \in @ : e[1] # sig.ps[i].n }]],
          [c0 \in DOMAIN expl |-> expl[c0] \ {sig.ps[i].n}])
\* *args / **kw can go only if no call site uses them
RemoveVa ==
  /\ sig.va
  /\ \A c0 \in DOMAIN exp : exp[c0].va = <<>>
  /\ Step(Changer("remove_va", 0, <<>>, FALSE, 0, 0), [sig EXCEPT !.va = FALSE], "", NoVal, "", exp, expl)
RemoveKw ==
  /\ sig.kw
  /\ \A c0 \in DOMAIN exp : exp[c0].kw = {}
  /\ Step(Changer("remove_kw", 0, <<>>, FALSE, 0, 0), [sig EXCEPT !.kw = FALSE], "", NoVal, "", exp, expl)

InlineDefault(i) ==
  /\ i \in DOMAIN sig.ps
  /\ sig.ps[i].d # NoVal
  /\ Step(Changer("inline_default", i, <<>>, FALSE, 0, 0), sig, "", NoVal, sig.ps[i].n, exp,
          [c0 \in DOMAIN expl |-> expl[c0] \cup {sig.ps[i].n}])

SigNext ==
  \/ Normalize
  \/ \E perm \in Perms(Len(sig.ps)), auto \in BOOLEAN : Reorder(perm, auto)
  \/ \E i \in 0..Len(sig.ps), d \in {NoVal, AddDef}, v \in {NoVal, AddVal} : Add(i, d, v)
  \/ \E i \in 1..(MaxParams + 1) : Remove(i)
  \/ \E name \in Names(sig0), i \in 0..Len(sig.ps), d \in {NoVal, AddDef} : ReAdd(name, i, d)
  \/ RemoveVa
  \/ RemoveKw
  \/ \E i \in 1..(MaxParams + 1) : InlineDefault(i)
  \/ Intro
  \/ \E kind \in {"intro", "same"} : Discard(kind)

---------------------------------------------------------------------------
(* Task = "inline": inlining the calls of a function (C04).                *)
(*                                                                         *)
(* sites: sequence of [c: call, m: module index (1 = defining module,      *)
(* 2 = other module)]; the syntactic context of a site (statement, right   *)
(* hand side, nested in an expression) is a rendering dimension chosen by  *)
(* the harness.  The request has                                           *)
(* options remove / only_current(cur).  Sites are visited one by one       *)
(* (InlineCall); a visited site shows the body with the parameters         *)
(* replaced by the values this very call binds (shown).  shownD is the     *)
(* defect model of pinned rope: the parameter map lives in the generator   *)
(* (one for the defining module, one for all other modules) and is         *)
(* updated, not rebuilt, per site.  SitesIndependent holds for shown and   *)
(* is violated by shownD (checked as a sensitivity run).                   *)
(*                                                                         *)
(* What a site shows is what the body prints for each parameter:           *)
(*   use = "plain"     print(p)           -> the value                     *)
(*   use = "tight"     print(p * 2)       -> twice the value               *)
(*   use = "reassign"  p = p + 7; print(p) -> the value plus 7             *)
(* and an argument may be written as the compound expression `100*i + k`   *)
(* (cx).  The defect model also covers the two limitations documented at   *)
(* the top of rope/refactor/inline.py: the argument text is spliced        *)
(* without parentheses (100*i + k * 2), and only the reads of a reassigned *)
(* parameter are replaced (print shows the value without the 7).           *)
(* shownS = shared map only, shownL = splice / reassign only, shownD =      *)
(* both; the harness accepts a deviation as a known finding only when the  *)
(* observed output equals exactly one of these predictions.                *)
(*                                                                         *)
(* Scopes and names.  Every site sits in a scope of its own; h says that   *)
(* this scope has a live local named like a local of the inlined body      *)
(* (value HostVal, read again after the call), so the inlined locals must  *)
(* be kept apart from it at THIS site, whatever was generated for other    *)
(* sites.  dup says that the site repeats the call text of site 1 (same    *)
(* call shape, same argument values), so two sites can be textually        *)
(* identical while their scopes differ.  HostLocalsKept: the host's local  *)
(* has its own value after the request.  hostvalC / cache model a body     *)
(* generated once per call text and reused (renamed or not as the first    *)
(* such site needed): it must violate HostLocalsKept (sensitivity).        *)
InlineSigs == { s \in Sigs : ~s.va /\ ~s.kw /\ s.ko = 0 }
AsPairs(m) == { <<name, m[name]>> : name \in DOMAIN m }
\* argument values are site-unique unless the site repeats the text of site 1:
\* the k-th argument of site i is 100*VB(i) + k
\* one generator serves the defining module, another one all the other modules
Gen(m) == IF m = 1 THEN 1 ELSE 2
VB(i) == IF sites[i].dup THEN 1 ELSE i
SV(i, v) == IF v < 10 THEN 100 * VB(i) + v ELSE v
HostVal(i) == IF sites[i].h THEN 900 + i ELSE 0
\* sites whose call text is identical (same shape, same values) and that the same generator handles
Twins == { <<i, j>> \in (DOMAIN sites) \X (DOMAIN sites) :
             i < j /\ sites[i].c = sites[j].c /\ VB(i) = VB(j) /\ Gen(sites[i].m) = Gen(sites[j].m) }
DefaultMap(s) == [name \in Names(s) |-> s.ps[Idx(s, name)].d]
ParMap(s, c, i) == [name \in Names(s) |-> SV(i, ValOf(s, c, Idx(s, name)))]
SiteBinding(i) == AsPairs(ParMap(sig, sites[i].c, i))
\* map updated with what the call supplies itself
Updated(m, s, c, i) ==
  [name \in Names(s) |-> IF name \in Supplied(s, c) THEN SV(i, ValOf(s, c, Idx(s, name))) ELSE m[name]]

Printed(use, val) ==
  CASE use = "plain" -> val [] use = "tight" -> val * 2 [] use = "reassign" -> val + 7
\* as pinned rope prints it: textual splice of `h + k` under `* 2`; reads of a
\* reassigned parameter replaced by the passed value
PrintedD(use, cx, val) ==
  CASE use = "plain" -> val
    [] use = "tight" -> IF cx /\ val >= 100 THEN (val - (val % 100)) + (val % 100) * 2 ELSE val * 2
    [] use = "reassign" -> val
ShowMap(m) == { <<name, Printed(opt.use, m[name])>> : name \in DOMAIN m }
ShowMapD(m) == { <<name, PrintedD(opt.use, opt.cx, m[name])>> : name \in DOMAIN m }

Targets == IF opt.only THEN {opt.cur} ELSE DOMAIN sites
\* the definition goes iff remove was asked
InlineCall ==
  /\ Task = "inline"
  /\ todo # <<>>
  /\ LET s == Head(todo)
         g == Gen(sites[s].m)
         m2 == Updated(carry[g], sig, sites[s].c, s)
     IN /\ shown' = [shown EXCEPT ![s] = ShowMap(ParMap(sig, sites[s].c, s))]
        /\ shownD' = [shownD EXCEPT ![s] = ShowMapD(m2)]
        /\ shownS' = [shownS EXCEPT ![s] = ShowMap(m2)]
        /\ shownL' = [shownL EXCEPT ![s] = ShowMapD(ParMap(sig, sites[s].c, s))]
        /\ carry' = [carry EXCEPT ![g] = m2]
        /\ stale' = IF m2 # ParMap(sig, sites[s].c, s) THEN stale \cup {s} ELSE stale
        /\ hostval' = [hostval EXCEPT ![s] = HostVal(s)]
        \* a module other than the defining one that receives the body also receives its imports
        /\ imported' = IF opt.imp /\ sites[s].m # 1 THEN imported \cup {sites[s].m} ELSE imported
        /\ importedD' = IF opt.imp /\ sites[s].m # 1 /\ importedD = {} THEN {sites[s].m} ELSE importedD
        /\ LET hit == { e \in cache[g] : e.c = sites[s].c /\ e.vb = VB(s) }
               renamed == IF hit = {} THEN sites[s].h ELSE (CHOOSE e \in hit : TRUE).renamed
           IN /\ hostvalC' = [hostvalC EXCEPT ![s] = IF sites[s].h /\ ~renamed THEN 1 ELSE HostVal(s)]
              /\ cache' = IF hit = {}
                          THEN [cache EXCEPT ![g] = @ \cup {[c |-> sites[s].c, vb |-> VB(s), renamed |-> sites[s].h]}]
                          ELSE cache
  /\ todo' = Tail(todo)
  /\ defgone' = (opt.remove /\ todo' = <<>>)
  /\ UNCHANGED <<sig0, sig, sites, opt>>
  /\ UNCHANGED sigvars

InlineDone == Task = "inline" /\ todo = <<>>

\* sites are visited in textual order, module by module
VisitOrder(ss, tg) == SelectSeq([i \in 1..Len(ss) |-> i], LAMBDA i : i \in tg)

---------------------------------------------------------------------------
NoInline ==
  /\ sites = <<>> /\ opt = [remove |-> FALSE, only |-> FALSE, cur |-> 0, use |-> "plain", cx |-> FALSE, imp |-> FALSE]
  /\ shown = <<>> /\ shownD = <<>> /\ shownS = <<>> /\ shownL = <<>> /\ carry = <<>> /\ stale = {} /\ hostval = <<>> /\ hostvalC = <<>> /\ cache = <<>> /\ imported = {} /\ importedD = {} /\ todo = <<>> /\ defgone = FALSE

InitSig ==
  /\ Task = "sig"
  /\ sig0 \in Sigs
  /\ sig = sig0
  /\ calls = [c \in AllCalls(sig0) |-> c]
  /\ exp = [c \in AllCalls(sig0) |-> Binding(sig0, c)]
  /\ expl = [c \in AllCalls(sig0) |-> Supplied(sig0, c)]
  /\ chg = <<>>
  /\ pre = <<>>
  /\ NoInline

SiteSeqs(s) ==
  UNION { [1..k -> [c : AllCalls(s), m : Mods, h : Hosts, dup : Dups]] : k \in 1..MaxSites }

InitInline ==
  /\ Task = "inline"
  /\ sig0 \in InlineSigs
  /\ sig = sig0
  /\ calls = <<>> /\ exp = <<>> /\ expl = <<>> /\ chg = <<>> /\ pre = <<>>
  /\ sites \in SiteSeqs(sig0)
  /\ \A i, j \in DOMAIN sites : (i < j) => sites[i].m <= sites[j].m    \* numbered module by module
  /\ ~sites[1].dup
  /\ \A i \in DOMAIN sites : sites[i].dup => sites[i].c = sites[1].c  \* a repeat of site 1's call text
  /\ \E rm \in BOOLEAN, only \in BOOLEAN, cur \in DOMAIN sites, use \in Uses, cx \in Cxs, imp \in Imps :
        /\ (~only => cur = 1)
        \* legal request: asking to remove the definition while inlining only one
        \* of several call sites would leave calls to nothing
        /\ ((only /\ rm) => Len(sites) = 1)
        /\ opt = [remove |-> rm, only |-> only, cur |-> cur, use |-> use, cx |-> cx, imp |-> imp]
  /\ shown = [i \in DOMAIN sites |-> {}]
  /\ shownD = [i \in DOMAIN sites |-> {}]
  /\ shownS = [i \in DOMAIN sites |-> {}]
  /\ shownL = [i \in DOMAIN sites |-> {}]
  /\ carry = <<DefaultMap(sig0), DefaultMap(sig0)>>
  /\ stale = {}
  /\ hostval = [i \in DOMAIN sites |-> HostVal(i)]
  /\ hostvalC = [i \in DOMAIN sites |-> HostVal(i)]
  /\ cache = <<{}, {}>>
  /\ imported = {}
  /\ importedD = {}
  /\ todo = VisitOrder(sites, IF opt.only THEN {opt.cur} ELSE DOMAIN sites)
  /\ defgone = FALSE

Init == InitSig \/ InitInline
Next == SigNext \/ InlineCall
Spec == Init /\ [][Next]_vars

---------------------------------------------------------------------------
(* Invariants, Task = "sig" *)
SigWellFormed == WellFormedSig(sig)
StillAccepted == Task = "sig" => \A c0 \in DOMAIN calls : Accepts(sig, calls[c0])
BindPreserved == Task = "sig" => \A c0 \in DOMAIN calls : Binding(sig, calls[c0]) = exp[c0]
\* a parameter that must be passed by the site itself is not left to a default
ExplicitPassed == Task = "sig" => \A c0 \in DOMAIN calls : expl[c0] \subseteq Supplied(sig, calls[c0])
\* the property in terms of the original program: every surviving original
\* parameter keeps the value the original call gave it; *args / **kw too
\* names (re-)introduced by an add of this request: those are new parameters, not survivors
AddedNames == { chg[j].nm : j \in { j \in DOMAIN chg : chg[j].op \in {"add", "intro"} } }
\* a (re-)added parameter with a supplied value is bound to that value at every site
AddedGetSupplied ==
  Task = "sig" =>
    \A j \in DOMAIN chg :
      (chg[j].op = "add" /\ chg[j].v # NoVal /\ chg[j].nm \in Names(sig)
         /\ \A k \in DOMAIN chg : (k > j) => chg[k].nm # chg[j].nm) =>
        \A c0 \in DOMAIN calls : <<chg[j].nm, chg[j].v>> \in Binding(sig, calls[c0]).par
SurvivorsKeep ==
  Task = "sig" =>
    \A c0 \in DOMAIN calls :
      LET b0 == Binding(sig0, c0) b1 == Binding(sig, calls[c0]) IN
      /\ \A e \in b0.par : (e[1] \in Declared(sig) /\ e[1] \notin AddedNames) => e \in b1.par
      /\ sig.va => b1.va = b0.va
      /\ sig.kw => b1.kw = b0.kw
      /\ b1.rc = b0.rc                 \* the implicit first parameter is still the same object
\* whatever was previewed and discarded, until a request is performed the program is the original
DiscardedLeavesNoTrace ==
  (Task = "sig" /\ chg = <<>>) =>
     /\ sig = sig0
     /\ \A c0 \in DOMAIN calls : calls[c0] = c0 /\ exp[c0] = Binding(sig0, c0)

(* Invariants, Task = "inline" *)
\* each visited site shows the binding of its own call, whatever was visited before
SitesIndependent ==
  Task = "inline" =>
    \A s \in DOMAIN sites :
      (s \in Targets /\ ~(\E k \in DOMAIN todo : todo[k] = s)) =>
         shown[s] = { <<e[1], Printed(opt.use, SV(s, e[2]))>> : e \in Binding(sig, sites[s].c).par }
\* sites outside the request stay calls; the definition is removed iff asked
OnlyTargets ==
  Task = "inline" => \A s \in DOMAIN sites : (s \notin Targets) => shown[s] = {}
DefinitionRemovedIffAsked ==
  (Task = "inline" /\ todo = <<>>) => (defgone = opt.remove)
\* nothing may still call a removed definition
\* the defect model (must be violated: sensitivity of the invariant)
SitesIndependentD ==
  Task = "inline" =>
    \A s \in DOMAIN sites :
      (s \in Targets /\ ~(\E k \in DOMAIN todo : todo[k] = s)) =>
         shownD[s] = { <<e[1], Printed(opt.use, SV(s, e[2]))>> : e \in Binding(sig, sites[s].c).par }
\* the host scope's own local keeps its value at every site, inlined or not
HostLocalsKept ==
  Task = "inline" => \A s \in DOMAIN sites : hostval[s] = HostVal(s)
\* defect model "body cached by call text" (must be violated: sensitivity)
HostLocalsKeptC ==
  Task = "inline" => \A s \in DOMAIN sites : hostvalC[s] = HostVal(s)
\* every importing module into which the body was inlined has the imports the body needs
NeedImports == { sites[s].m : s \in { s \in Targets : sites[s].m # 1 /\ opt.imp } }
ImportsWhereNeeded == (Task = "inline" /\ todo = <<>>) => imported = NeedImports
ImportsWhereNeededD == (Task = "inline" /\ todo = <<>>) => importedD = NeedImports
NoDanglingCall ==
  (Task = "inline" /\ defgone) => \A s \in DOMAIN sites : s \in Targets
=============================================================================
