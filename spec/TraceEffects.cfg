SPECIFICATION TraceSpec
INVARIANT PureCompute
INVARIANT OnlyAnnounced
INVARIANT InsideProject
INVARIANT NothingOutside
INVARIANT PreviewMatches
INVARIANT RefusalClean
CHECK_DEADLOCK TRUE
INVARIANT RefusesImpossible
