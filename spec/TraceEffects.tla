---------------------------- MODULE TraceEffects ----------------------------
(***************************************************************************)
(* Trace validation for C09.  bind/c09.py records, for every refactoring   *)
(* request it issues against the real rope, one effect trace:              *)
(*   [kind, events |-> << [ev |-> "compute", changed, announced],          *)
(*                         [ev |-> "perform", changed, unpreviewed] >> ]   *)
(*   or                  << [ev |-> "refuse", changed, err] >>             *)
(* with every file given as [id, region].  A batch of traces is read from  *)
(* IOEnv.TRACE_FILE; there is one initial state per trace; each event is   *)
(* consumed by the action of RopeEffects' contract it corresponds to, and  *)
(* the contract's clauses are evaluated as invariants after every event    *)
(* (on the recorded sets).  A trace with events in an order the contract   *)
(* does not allow deadlocks.  A trace also says whether the driver issued  *)
(* a request of a class that cannot be honoured (`impossible`, decided by  *)
(* the scenario, not by rope): then only a refusal is accepted.            *)
(***************************************************************************)
EXTENDS Naturals, Sequences, FiniteSets, TLC, Json, IOUtils

Batch == JsonDeserialize(IOEnv.TRACE_FILE)
Traces == Batch.traces

VARIABLES tid, l, phase, announced, lastChanged, lastUnpreviewed, err, impossible
vars == <<tid, l, phase, announced, lastChanged, lastUnpreviewed, err, impossible>>

Ev == Traces[tid].events
ToSet(s) == { s[k] : k \in 1..Len(s) }

TraceInit ==
  /\ tid \in 1..Len(Traces)
  /\ l = 1
  /\ phase = "idle"
  /\ announced = {}
  /\ lastChanged = {}
  /\ lastUnpreviewed = {}
  /\ err = "none"
  /\ impossible = Traces[tid].impossible

IsEvent(e) == l <= Len(Ev) /\ Ev[l].ev = e /\ l' = l + 1 /\ UNCHANGED <<tid, impossible>>

TraceCompute ==
  /\ IsEvent("compute")
  /\ phase = "idle"
  /\ phase' = "computed"
  /\ announced' = ToSet(Ev[l].announced)
  /\ lastChanged' = ToSet(Ev[l].changed)
  /\ UNCHANGED <<lastUnpreviewed, err>>

TracePerform ==
  /\ IsEvent("perform")
  /\ phase = "computed"
  /\ phase' = "done"
  /\ lastChanged' = ToSet(Ev[l].changed)
  /\ lastUnpreviewed' = ToSet(Ev[l].unpreviewed)
  /\ UNCHANGED <<announced, err>>

TraceRefuse ==
  /\ IsEvent("refuse")
  /\ phase = "idle"
  /\ phase' = "refused"
  /\ lastChanged' = ToSet(Ev[l].changed)
  /\ err' = Ev[l].err
  /\ UNCHANGED <<announced, lastUnpreviewed>>

Finished == l > Len(Ev) /\ UNCHANGED vars

TraceNext == TraceCompute \/ TracePerform \/ TraceRefuse \/ Finished
TraceSpec == TraceInit /\ [][TraceNext]_vars

\* the clauses of RopeEffects on the recorded sets
PureCompute    == phase = "computed" => lastChanged = {}
OnlyAnnounced  == phase = "done" => \A f \in lastChanged : \E a \in announced : a.id = f.id
InsideProject  == phase \in {"computed", "done"} => \A a \in announced : a.region = "project"
NothingOutside == \A f \in lastChanged : f.region = "project"
PreviewMatches == phase = "done" => lastUnpreviewed = {}
RefusalClean   == phase = "refused" => (lastChanged = {} /\ err = "rope")
RefusesImpossible == impossible => phase \in {"idle", "refused"}
=============================================================================
