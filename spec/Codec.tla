------------------------------- MODULE Codec -------------------------------
(***************************************************************************)
(* C16 - files survive byte-for-byte apart from the intended edit.          *)
(*                                                                         *)
(* The spec owns the bytes.  A Python source file is modelled abstractly   *)
(* (`file`): optional BOM, head lines (shebang / blank / code / comment /  *)
(* PEP 263 coding line in one of several spellings and positions), body    *)
(* lines of a few kinds that carry a payload of character classes inside a *)
(* string literal or a comment, a newline convention and a final-newline   *)
(* flag.  `Bytes(file)` is the file on disk, built from per-encoding byte  *)
(* tables; `Text(file)` is the decoded, newline-normalised text.           *)
(*                                                                         *)
(* Independently of the abstract file the spec models the *mechanism* a    *)
(* tool has to implement on the bytes: Read = strip BOM, decode with the   *)
(* declared encoding, detect the newline convention, normalise to LF;      *)
(* Write = restore the convention, encode, put the BOM back.  Every action *)
(* updates the abstract file by its meaning (replace payload of line i,    *)
(* insert / delete a line, rename the identifier) and the disk through the *)
(* mechanism applied to the previous bytes.  TLC checks that both agree    *)
(* (Glue) and that the three clauses of the property hold on the model:    *)
(* Identity, LocalEdit, ReadBack (plus UndoRestores).                      *)
(*                                                                         *)
(* The declared encoding follows Python's rule (PEP 263, as implemented by *)
(* the tokenizer): a cookie counts on line 1, or on line 2 if line 1 is a  *)
(* comment or blank; the first `coding[:=]` on the line is the cookie; a   *)
(* BOM means UTF-8.  The binding cross-checks this against CPython on      *)
(* every rendered file.                                                    *)
(***************************************************************************)
EXTENDS Naturals, Sequences, FiniteSets, TLC

CONSTANTS
  Classes,      \* payload character classes in play (subset of DOMAIN ClassCp)
  Cookies,      \* set of <<form, spelling>> usable on the coding line
  Layouts,      \* where the coding line sits: "none","p1","p2s","p2b","p2x","p3"
  NLs,          \* subset of {"LF","CRLF","CR"}
  Finals,       \* subset of BOOLEAN: file ends with a newline
  Boms,         \* subset of BOOLEAN
  BodyKinds,    \* subset of {"def","use","str","com","two"}
  MaxBody,      \* body lines
  MaxPayload,   \* characters per payload
  MaxChars,     \* payload characters per file
  NewNames,     \* subset of {"long","short","lat","cjk"}
  Ops,          \* subset of {"rwb-write","rwb-force","edit","insert","delete","rename"}
  InsertKinds,  \* kinds of line InsertLine may add: subset of {"com","str"}
  UndoModes,    \* subset of {"session","reopen"}
  HeadClasses,  \* character classes a comment line *before* the coding line may carry (layout "p2p")
  AllowConvert, \* BOOLEAN: the file's newline convention may be converted outside the tool
                \* between the tool's first read and the edit
  RestoreNL,    \* TRUE: Write restores the newline convention (the property needs it)
  KeepBom       \* TRUE: Write puts the BOM back

VARIABLES file,    \* abstract file (see TypeOK)
          phase,   \* "build" | "loaded" | "converted" | "done" | "undone"
          act,     \* the action taken: [op, k, kind, p, name]
          file0,   \* abstract file before the action
          rd,      \* what the tool read before the action: [text, nl, bom]
          pre,     \* bytes the tool saw at its first read, if the file was converted after that
          disk0,   \* bytes before the action
          disk1,   \* bytes after the action
          disk     \* bytes now

vars == <<file, phase, act, file0, rd, pre, disk0, disk1, disk>>

----------------------------------------------------------------------------
(* Characters are code points.  Payload classes: *)
ClassCp ==
  [ a   |-> 97,      \* ASCII letter
    ff  |-> 12,      \* form feed (ASCII control; a line boundary for str.splitlines)
    eac |-> 233,     \* e-acute: Latin-1 range
    cur |-> 164,     \* currency sign: 0xA4 in latin-1/cp1252, absent from iso-8859-15
    nel |-> 133,     \* U+0085 NEXT LINE: C1 control, 0x85 in latin-1, absent from cp1252
    A1  |-> 193,     \* A-acute: UTF-8 C3 81, and 0x81 is undefined in cp1252
    eur |-> 8364,    \* euro: BMP; 0x80 in cp1252, 0xA4 in iso-8859-15, absent from latin-1
    ls  |-> 8232,    \* U+2028 LINE SEPARATOR (BMP, 3 bytes in UTF-8)
    zw  |-> 65279,   \* U+FEFF inside the text (not a BOM there)
    so  |-> 12477,   \* katakana SO: shift_jis 83 5C (trail byte is a backslash)
    hi  |-> 12354,   \* hiragana A: shift_jis 82 A0
    ast |-> 128512 ] \* astral (4 bytes in UTF-8)

S_shebang == <<35,33,112,121,116,104,111,110>>                  \* '#!python'
S_comment == <<35,32,110,111,116,101>>                          \* '# note'
S_code    == <<105,109,112,111,114,116,32,111,115>>             \* 'import os'
S_old     == <<111,108,100>>                                    \* 'old'
N_long    == <<114,101,110,97,109,101,100>>                     \* 'renamed'
N_short   == <<110>>                                            \* 'n'
N_lat     == <<110,233>>                                        \* 'n' e-acute
N_cjk     == <<12477>>                                          \* katakana SO
T_def_mid == <<32,61,32,34>>                                    \* ' = "'
T_quote   == <<34>>                                             \* '"'
T_use_pre == <<119,32,61,32>>                                   \* 'w = '
T_use_mid == <<32,32,35,32>>                                    \* '  # '
T_str_pre == <<115,32,61,32,34>>                                \* 's = "'
T_com_pre == <<35,32>>                                          \* '# '
T_two_pre == <<116,32,61,32,34>>                                \* 't = "'
T_two_mid == <<34,59,32,117,32,61,32>>                          \* '"; u = '

NameCp(n) == CASE n = "old" -> S_old [] n = "long" -> N_long [] n = "short" -> N_short
               [] n = "lat" -> N_lat [] n = "cjk" -> N_cjk

(* Cookie line = prefix, spelling, suffix *)
FormPre(f) ==
  CASE f = "F1" -> <<35,32,45,42,45,32,99,111,100,105,110,103,58,32>>           \* '# -*- coding: '
    [] f = "F2" -> <<35,32,118,105,109,58,32,115,101,116,32,102,105,108,101,101,110,99,111,100,105,110,103,61>>  \* '# vim: set fileencoding='
    [] f = "F3" -> <<35,99,111,100,105,110,103,61>>                               \* '#coding='
    [] f = "F4" -> <<35,32,99,111,100,105,110,103,58,9,32>>                       \* '# coding:<TAB> '
    [] f = "F5" -> <<35,32,100,101,99,111,100,105,110,103,32,110,111,116,101,59,32,99,111,100,105,110,103,58,32>> \* '# decoding note; coding: '
    [] f = "F6" -> <<32,32,35,32,99,111,100,105,110,103,58,32>>                   \* '  # coding: '
    [] f = "F7" -> <<35,32,99,111,100,105,110,103,58,32>>                         \* '# coding: '
    [] f = "F8" -> <<35,32,45,42,45,32,101,110,99,111,100,105,110,103,58,32>>     \* '# -*- encoding: '
    [] f = "F9" -> <<12,35,32,45,42,45,32,99,111,100,105,110,103,58,32>>          \* '<FF># -*- coding: ' (PEP 263 allows [ \t\f]* before #)
FormSuf(f) ==
  CASE f = "F1" -> <<32,45,42,45>>                     \* ' -*-'
    [] f = "F2" -> <<32,58>>                           \* ' :'
    [] f = "F7" -> <<32,40,108,101,103,97,99,121,41>>  \* ' (legacy)'
    [] f = "F8" -> <<32,45,42,45>>
    [] f = "F9" -> <<32,45,42,45>>
    [] OTHER -> <<>>

SpellCp(s) ==
  CASE s = "utf-8" -> <<117,116,102,45,56>>
    [] s = "UTF-8" -> <<85,84,70,45,56>>
    [] s = "utf8" -> <<117,116,102,56>>
    [] s = "utf-8-sig" -> <<117,116,102,45,56,45,115,105,103>>
    [] s = "latin-1" -> <<108,97,116,105,110,45,49>>
    [] s = "Latin_1" -> <<76,97,116,105,110,95,49>>
    [] s = "iso-8859-1" -> <<105,115,111,45,56,56,53,57,45,49>>
    [] s = "cp1252" -> <<99,112,49,50,53,50>>
    [] s = "windows-1252" -> <<119,105,110,100,111,119,115,45,49,50,53,50>>
    [] s = "iso-8859-15" -> <<105,115,111,45,56,56,53,57,45,49,53>>
    [] s = "latin9" -> <<108,97,116,105,110,57>>
    [] s = "ascii" -> <<97,115,99,105,105>>
    [] s = "us-ascii" -> <<117,115,45,97,115,99,105,105>>
    [] s = "shift_jis" -> <<115,104,105,102,116,95,106,105,115>>
    [] s = "sjis" -> <<115,106,105,115>>

(* canonical encoding named by a spelling (Python codec registry names) *)
Canon(s) ==
  CASE s \in {"utf-8", "UTF-8", "utf8", "utf-8-sig"} -> "utf-8"
    [] s \in {"latin-1", "Latin_1", "iso-8859-1"} -> "latin-1"
    [] s \in {"cp1252", "windows-1252"} -> "cp1252"
    [] s \in {"iso-8859-15", "latin9"} -> "iso8859-15"
    [] s \in {"ascii", "us-ascii"} -> "ascii"
    [] s \in {"shift_jis", "sjis"} -> "shift_jis"

Encodings == {"utf-8", "latin-1", "cp1252", "iso8859-15", "ascii", "shift_jis"}

----------------------------------------------------------------------------
(* Byte tables.  <<>> = not encodable.  All encodings here are ASCII       *)
(* transparent for code points below 128.                                  *)
UTF8(c) ==
  IF c < 128 THEN <<c>>
  ELSE IF c < 2048 THEN <<192 + (c \div 64), 128 + (c % 64)>>
  ELSE IF c < 65536 THEN <<224 + (c \div 4096), 128 + ((c \div 64) % 64), 128 + (c % 64)>>
  ELSE <<240 + (c \div 262144), 128 + ((c \div 4096) % 64), 128 + ((c \div 64) % 64), 128 + (c % 64)>>

EncChar(c, e) ==
  IF c < 128 THEN <<c>>
  ELSE CASE e = "utf-8"   -> UTF8(c)
         [] e = "latin-1" -> IF c < 256 THEN <<c>> ELSE <<>>
         [] e = "cp1252"  -> IF c \in 160..255 THEN <<c>> ELSE IF c = 8364 THEN <<128>> ELSE <<>>
         [] e = "iso8859-15" ->
              IF c \in 128..255 /\ c \notin {164, 166, 168, 180, 184, 188, 189, 190} THEN <<c>>
              ELSE IF c = 8364 THEN <<164>> ELSE <<>>
         [] e = "ascii"   -> <<>>
         [] e = "shift_jis" -> IF c = 12477 THEN <<131, 92>> ELSE IF c = 12354 THEN <<130, 160>> ELSE <<>>

CanEnc(c, e) == EncChar(c, e) # <<>>

RECURSIVE Cat(_)
Cat(ss) == IF ss = <<>> THEN <<>> ELSE Head(ss) \o Cat(Tail(ss))

Encode(cps, e) == IF \A j \in 1..Len(cps) : cps[j] < 128 THEN cps
                  ELSE Cat([j \in 1..Len(cps) |-> EncChar(cps[j], e)])
CanEncAll(cps, e) == \A j \in 1..Len(cps) : CanEnc(cps[j], e)

BOM == <<239, 187, 191>>
NLSeq(nl) == CASE nl = "LF" -> <<10>> [] nl = "CRLF" -> <<13, 10>> [] nl = "CR" -> <<13>>

----------------------------------------------------------------------------
(* The abstract file *)
NoCookie == <<"-", "-">>

HeadKinds(layout) ==
  CASE layout = "none" -> <<>>
    [] layout = "p1"   -> <<"cookie">>
    [] layout = "p2s"  -> <<"shebang", "cookie">>
    [] layout = "p2b"  -> <<"blank", "cookie">>
    [] layout = "p2p"  -> <<"paycomment", "cookie">>         \* after a comment that carries characters
    [] layout = "l1"   -> <<"longcomment">>                  \* a very long first line, no cookie
    [] layout = "p2l"  -> <<"longcomment", "cookie">>        \* cookie after a very long comment line
    [] layout = "p2x"  -> <<"code", "cookie">>               \* after code: not a declaration
    [] layout = "p3"   -> <<"shebang", "comment", "cookie">> \* third line: not a declaration

(* PEP 263: first or second line, the first only if comment-only or blank *)
Effective(layout) == layout \in {"p1", "p2s", "p2b", "p2p", "p2l"}
NoCookieLayouts == {"none", "l1"}

(* Run-length abstraction of a very long line: PadMark stands for a run of K ASCII  *)
(* letters, K chosen by the renderer (4 092 .. 5 000: the line is longer than any   *)
(* buffer a tool may sniff).  All the spec needs to know: the run is ASCII, holds no *)
(* line break, and is one byte per character in every encoding of the model.        *)
PadMark == 1

DeclEnc(f) == IF Effective(f.layout) THEN Canon(f.cookie[2]) ELSE "utf-8"

(* With a BOM an effective cookie must *normalise* to utf-8 in the tokenizer's *)
(* own table (lower case, "_" = "-", "utf-8" or "utf-8-..."); the alias       *)
(* "utf8" is a SyntaxError there ("encoding problem: utf8 with BOM").         *)
BomOK(f) == f.bom => (~Effective(f.layout) \/ f.layout \in NoCookieLayouts
                      \/ f.cookie[2] \in {"utf-8", "UTF-8", "utf-8-sig"})

HeadLine(kind, cookie, hp) ==
  CASE kind = "shebang" -> S_shebang
    [] kind = "paycomment" -> T_com_pre \o [j \in 1..Len(hp) |-> ClassCp[hp[j]]]
    [] kind = "longcomment" -> T_com_pre \o <<PadMark>>
    [] kind = "blank"   -> <<>>
    [] kind = "code"    -> S_code
    [] kind = "comment" -> S_comment
    [] kind = "cookie"  -> FormPre(cookie[1]) \o SpellCp(cookie[2]) \o FormSuf(cookie[1])

PayCp(p) == [j \in 1..Len(p) |-> ClassCp[p[j]]]

BodyLine(l, name) ==
  LET n == NameCp(name) p == PayCp(l.p) IN
  CASE l.k = "def" -> n \o T_def_mid \o p \o T_quote
    [] l.k = "use" -> T_use_pre \o n \o T_use_mid \o p
    [] l.k = "str" -> T_str_pre \o p \o T_quote
    [] l.k = "com" -> T_com_pre \o p
    [] l.k = "two" -> T_two_pre \o p \o T_two_mid \o n

UsesName(l) == l.k \in {"def", "use", "two"}

NHead(f) == Len(HeadKinds(f.layout))

(* all lines of the file as code point sequences *)
Lines(f) ==
  LET hk == HeadKinds(f.layout) IN
  [j \in 1..Len(hk) |-> HeadLine(hk[j], f.cookie, f.hp)] \o
  [j \in 1..Len(f.body) |-> BodyLine(f.body[j], f.name)]

RECURSIVE JoinWith(_, _)
JoinWith(ss, sep) ==
  IF ss = <<>> THEN <<>>
  ELSE IF Len(ss) = 1 THEN ss[1]
  ELSE ss[1] \o sep \o JoinWith(Tail(ss), sep)

(* decoded, newline-normalised text: what a refactoring works on *)
Text(f) == JoinWith(Lines(f), <<10>>) \o (IF f.final THEN <<10>> ELSE <<>>)

(* the bytes on disk: the oracle *)
Bytes(f) ==
  LET e == DeclEnc(f)
      ls == Lines(f)
      bl == [j \in 1..Len(ls) |-> Encode(ls[j], e)]
  IN (IF f.bom THEN BOM ELSE <<>>) \o JoinWith(bl, NLSeq(f.nl))
     \o (IF f.final THEN NLSeq(f.nl) ELSE <<>>)

NTerms(f) == Len(Lines(f)) - (IF f.final THEN 0 ELSE 1)

RECURSIVE SumPay(_)
SumPay(b) == IF b = <<>> THEN 0 ELSE Len(Head(b).p) + SumPay(Tail(b))
PayChars(f) == SumPay(f.body)

(* valid Python source in the declared encoding; closed under prefixes of the body *)
Prefixable(f) ==
  /\ (f.layout \in NoCookieLayouts) <=> (f.cookie = NoCookie)
  /\ f.bom => DeclEnc(f) = "utf-8"                 \* a BOM with another cookie is a SyntaxError
  /\ BomOK(f)
  /\ \A j \in 1..Len(f.body) :
       /\ CanEncAll(PayCp(f.body[j].p), DeclEnc(f))
       /\ f.body[j].k \in {"use", "two"} => \E i \in 1..(j - 1) : f.body[i].k = "def"
  /\ CanEncAll(NameCp(f.name), DeclEnc(f))
  /\ CanEncAll(PayCp(f.hp), DeclEnc(f))
  /\ (f.hp # <<>>) => f.layout = "p2p"

WellFormed(f) ==
  /\ Prefixable(f)
  /\ Len(f.body) >= 1
  /\ NTerms(f) = 0 => f.nl = "LF"                  \* no terminator: no convention to speak of

----------------------------------------------------------------------------
(* The mechanism on bytes *)
IsPrefix(s, t) == Len(s) <= Len(t) /\ \A j \in 1..Len(s) : s[j] = t[j]
Drop(s, n) == SubSeq(s, n + 1, Len(s))

NonAscii == {ClassCp[c] : c \in DOMAIN ClassCp} \cup {233, 12477}

RECURSIVE Decode(_, _)
Decode(bs, e) ==
  IF bs = <<>> THEN <<>>
  ELSE IF bs[1] < 128 THEN <<bs[1]>> \o Decode(Tail(bs), e)
  ELSE LET c == CHOOSE c \in NonAscii : CanEnc(c, e) /\ IsPrefix(EncChar(c, e), bs)
       IN <<c>> \o Decode(Drop(bs, Len(EncChar(c, e))), e)

HasBom(bs) == IsPrefix(BOM, bs)

DetectNL(cps) ==
  IF \E j \in 1..(Len(cps) - 1) : cps[j] = 13 /\ cps[j + 1] = 10 THEN "CRLF"
  ELSE IF \E j \in 1..Len(cps) : cps[j] = 13 THEN "CR"
  ELSE "LF"

RECURSIVE Norm(_)
Norm(s) ==
  IF s = <<>> THEN <<>>
  ELSE IF s[1] = 13
       THEN IF Len(s) > 1 /\ s[2] = 10 THEN <<10>> \o Norm(Drop(s, 2)) ELSE <<10>> \o Norm(Tail(s))
       ELSE <<s[1]>> \o Norm(Tail(s))

Denorm(text, nl) == Cat([j \in 1..Len(text) |-> IF text[j] = 10 THEN NLSeq(nl) ELSE <<text[j]>>])

Read(bs, e) ==
  LET bom == HasBom(bs)
      raw == Decode(IF bom THEN Drop(bs, 3) ELSE bs, e)
  IN [text |-> Norm(raw), nl |-> DetectNL(raw), bom |-> bom]

Write(text, e, nl, bom) ==
  (IF bom /\ KeepBom THEN BOM ELSE <<>>) \o Encode(IF RestoreNL THEN Denorm(text, nl) ELSE text, e)

(* pieces between separators x: k separators give k+1 pieces *)
RECURSIVE SplitOn(_, _, _)
SplitOn(s, x, cur) ==
  IF s = <<>> THEN <<cur>>
  ELSE IF s[1] = x THEN <<cur>> \o SplitOn(Tail(s), x, <<>>)
  ELSE SplitOn(Tail(s), x, Append(cur, s[1]))

Pieces(text) == SplitOn(text, 10, <<>>)
Unpieces(ps) == JoinWith(ps, <<10>>)

InsertAt(s, k, x) == SubSeq(s, 1, k - 1) \o <<x>> \o SubSeq(s, k, Len(s))
DeleteAt(s, k) == SubSeq(s, 1, k - 1) \o SubSeq(s, k + 1, Len(s))

RECURSIVE ReplaceAll(_, _, _)
ReplaceAll(s, old, new) ==
  IF Len(s) < Len(old) THEN s
  ELSE IF IsPrefix(old, s) THEN new \o ReplaceAll(Drop(s, Len(old)), old, new)
  ELSE <<s[1]>> \o ReplaceAll(Tail(s), old, new)

----------------------------------------------------------------------------
Payloads == UNION {[1..n -> Classes] : n \in 0..MaxPayload}
EditPayloads == {<<>>} \cup {<<c>> : c \in Classes}

NoAct == [op |-> "none", k |-> 0, kind |-> "-", p |-> <<>>, name |-> "-", undo |-> "-"]
NoRead == [text |-> <<>>, nl |-> "LF", bom |-> FALSE]

Init ==
  /\ \E layout \in Layouts, nl \in NLs, final \in Finals, bom \in Boms :
       \E cookie \in (IF layout \in NoCookieLayouts THEN {NoCookie} ELSE Cookies),
          hp \in (IF layout = "p2p" THEN {<<>>} \cup {<<c>> : c \in HeadClasses} ELSE {<<>>}) :
         file = [bom |-> bom, layout |-> layout, cookie |-> cookie, hp |-> hp, body |-> <<>>,
                 name |-> "old", nl |-> nl, final |-> final]
  /\ file.bom => DeclEnc(file) = "utf-8"
  /\ BomOK(file)
  /\ CanEncAll(PayCp(file.hp), DeclEnc(file))
  /\ phase = "build"
  /\ act = NoAct
  /\ file0 = file
  /\ rd = NoRead
  /\ pre = <<>>
  /\ disk0 = <<>> /\ disk1 = <<>> /\ disk = <<>>

(* build the file line by line; every prefix with a consistent newline field is a file *)
AddLine(kind, p) ==
  /\ phase = "build"
  /\ Len(file.body) < MaxBody
  /\ LET f == [file EXCEPT !.body = Append(@, [k |-> kind, p |-> p])] IN
       /\ Prefixable(f)
       /\ PayChars(f) <= MaxChars
       /\ file' = f
  /\ UNCHANGED <<phase, act, file0, rd, pre, disk0, disk1, disk>>

(* the file is put on disk and the tool reads it *)
Load ==
  /\ phase = "build"
  /\ WellFormed(file)
  /\ phase' = "loaded"
  /\ disk0' = Bytes(file)
  /\ disk' = disk0'
  /\ rd' = Read(disk0', DeclEnc(file))
  /\ file0' = file
  /\ UNCHANGED <<file, act, pre, disk1>>

(* Something outside the tool (an editor, dos2unix, git autocrlf) converts the   *)
(* file to another newline convention after the tool has read it once and     *)
(* before it edits it through the same long-lived handle.  A correct tool      *)
(* looks at the file again when it edits: the convention to preserve is the    *)
(* one the file has *now*.                                                     *)
Convert(n2) ==
  /\ phase = "loaded" /\ AllowConvert
  /\ n2 \in NLs /\ n2 # file.nl
  /\ NTerms(file) > 0
  /\ LET f1 == [file EXCEPT !.nl = n2] IN
       /\ file' = f1 /\ file0' = f1
       /\ pre' = disk0
       /\ disk0' = Bytes(f1)
       /\ disk' = disk0'
       /\ rd' = Read(disk0', DeclEnc(f1))
  /\ phase' = "converted"
  /\ UNCHANGED <<act, disk1>>

Ready == phase \in {"loaded", "converted"}
Enc == DeclEnc(file)

Take(a, f1, d1) ==
  /\ phase' = "done"
  /\ act' = a
  /\ file' = f1
  /\ disk1' = d1
  /\ disk' = d1
  /\ UNCHANGED <<file0, disk0, rd, pre>>

(* File.write(File.read()) or a forced ChangeContents with the text just read *)
ReadWriteBack(v) ==
  /\ Ready /\ v \in Ops
  /\ Take([NoAct EXCEPT !.op = v], file, Write(rd.text, Enc, rd.nl, rd.bom))

(* replace the payload of body line i *)
EditLine(i, p) ==
  /\ Ready /\ "edit" \in Ops
  /\ i \in 1..Len(file.body)
  /\ p # file.body[i].p
  /\ LET f1 == [file EXCEPT !.body[i].p = p]
         k == NHead(file) + i
         ps == Pieces(rd.text)
     IN /\ WellFormed(f1)
        /\ Take([NoAct EXCEPT !.op = "edit", !.k = k, !.p = p], f1,
                Write(Unpieces([ps EXCEPT ![k] = BodyLine(f1.body[i], f1.name)]), Enc, rd.nl, rd.bom))

(* insert a new line before body position i (Len+1 = append).  A text that   *)
(* ends in a newline has an empty last piece, so a new last line lands      *)
(* before it; appending to an unterminated last line terminates that line.  *)
InsertLine(i, kind, p) ==
  /\ Ready /\ "insert" \in Ops
  /\ i \in 1..(Len(file.body) + 1)
  /\ kind \in InsertKinds
  /\ NTerms(file) > 0                       \* there is a convention to preserve
  /\ LET l == [k |-> kind, p |-> p]
         f1 == [file EXCEPT !.body = InsertAt(@, i, l)]
         k == NHead(file) + i
         ps == Pieces(rd.text)
     IN /\ WellFormed(f1)                    \* in particular the new line is encodable
        /\ Take([NoAct EXCEPT !.op = "insert", !.k = k, !.kind = kind, !.p = p], f1,
                Write(Unpieces(InsertAt(ps, k, BodyLine(l, file.name))), Enc, rd.nl, rd.bom))

DeleteLine(i) ==
  /\ Ready /\ "delete" \in Ops
  /\ Len(file.body) >= 2
  /\ i \in 1..Len(file.body)
  /\ LET f1 == [file EXCEPT !.body = DeleteAt(@, i)]
         k == NHead(file) + i
         ps == Pieces(rd.text)
     IN /\ WellFormed(f1)
        /\ NTerms(f1) > 0
        /\ Take([NoAct EXCEPT !.op = "delete", !.k = k], f1,
                Write(Unpieces(DeleteAt(ps, k)), Enc, rd.nl, rd.bom))

FirstDef(f) == CHOOSE i \in 1..Len(f.body) :
                 f.body[i].k = "def" /\ \A j \in 1..(i - 1) : f.body[j].k # "def"

(* the refactoring: rename the identifier bound by the first "def" line *)
Rename(n) ==
  /\ Ready /\ "rename" \in Ops
  /\ \E i \in 1..Len(file.body) : file.body[i].k = "def"
  /\ n \in NewNames
  /\ CanEncAll(NameCp(n), Enc)
  /\ Take([NoAct EXCEPT !.op = "rename", !.k = NHead(file) + FirstDef(file), !.name = n],
          [file EXCEPT !.name = n],
          Write(ReplaceAll(rd.text, NameCp(file.name), NameCp(n)), Enc, rd.nl, rd.bom))

(* undo of the change through the history: the text read before the change *)
(* is written back with the file's convention.  m = "session": right away;  *)
(* m = "reopen": after the project was closed and opened again (the history *)
(* is persistent), when the tool has to look at the file again to know the  *)
(* convention.                                                              *)
Undo(m) ==
  /\ phase = "done"
  /\ m \in UndoModes
  /\ act.op # "rwb-write"                   \* File.write of equal text records no change
  /\ LET r1 == IF m = "session" THEN rd ELSE Read(disk, DeclEnc(file)) IN
       disk' = Write(rd.text, DeclEnc(file0), r1.nl, r1.bom)
  /\ phase' = "undone"
  /\ file' = file0
  /\ act' = [act EXCEPT !.undo = m]
  /\ UNCHANGED <<file0, rd, pre, disk0, disk1>>

Next ==
  \/ \E kind \in BodyKinds, p \in Payloads : AddLine(kind, p)
  \/ Load
  \/ \E n2 \in {"LF", "CRLF", "CR"} : Convert(n2)
  \/ \E v \in {"rwb-write", "rwb-force"} : ReadWriteBack(v)
  \/ \E i \in 1..(MaxBody + 1), p \in EditPayloads : EditLine(i, p)
  \/ \E i \in 1..(MaxBody + 1), kind \in InsertKinds, p \in EditPayloads : InsertLine(i, kind, p)
  \/ \E i \in 1..(MaxBody + 1) : DeleteLine(i)
  \/ \E n \in NewNames : Rename(n)
  \/ \E m \in {"session", "reopen"} : Undo(m)

Spec == Init /\ [][Next]_vars

----------------------------------------------------------------------------
(* Invariants *)
FileOK(f) ==
  /\ f.bom \in BOOLEAN /\ f.final \in BOOLEAN /\ f.nl \in {"LF", "CRLF", "CR"}
  /\ f.layout \in {"none", "p1", "p2s", "p2b", "p2p", "p2x", "p3", "l1", "p2l"}
  /\ f.hp \in Seq(DOMAIN ClassCp)
  /\ f.name \in {"old", "long", "short", "lat", "cjk"}
  /\ \A j \in 1..Len(f.body) :
       f.body[j].k \in {"def", "use", "str", "com", "two"} /\ f.body[j].p \in Seq(DOMAIN ClassCp)

TypeOK ==
  /\ FileOK(file) /\ FileOK(file0)
  /\ phase \in {"build", "loaded", "converted", "done", "undone"}
  /\ phase = "done" => \A j \in 1..Len(disk) : disk[j] \in 0..255

(* the abstract meaning of every action and the mechanism on bytes agree *)
Glue == phase # "build" => disk = Bytes(file) /\ WellFormed(file)

(* what the tool read is the file's text, convention and BOM *)
ReadOK == phase \in {"loaded", "converted"} =>
            /\ rd.text = Text(file) /\ rd.bom = file.bom
            /\ NTerms(file) > 0 => rd.nl = file.nl

(* clause 1: reading and writing the same text back leaves the bytes unchanged *)
Identity == phase = "done" /\ act.op \in {"rwb-write", "rwb-force"} => disk = disk0

(* byte-level lines and terminators of a file image *)
RECURSIVE ByteLines(_, _)
ByteLines(bs, cur) ==
  IF bs = <<>> THEN <<[l |-> cur, t |-> "EOF"]>>
  ELSE IF bs[1] = 13 /\ Len(bs) > 1 /\ bs[2] = 10
       THEN <<[l |-> cur, t |-> "CRLF"]>> \o ByteLines(Drop(bs, 2), <<>>)
  ELSE IF bs[1] = 13 THEN <<[l |-> cur, t |-> "CR"]>> \o ByteLines(Tail(bs), <<>>)
  ELSE IF bs[1] = 10 THEN <<[l |-> cur, t |-> "LF"]>> \o ByteLines(Tail(bs), <<>>)
  ELSE ByteLines(Tail(bs), Append(cur, bs[1]))

BL(bs) == ByteLines(IF HasBom(bs) THEN Drop(bs, 3) ELSE bs, <<>>)

(* clause 2: an edit preserves everything else - BOM, every other line's    *)
(* bytes (hence the coding line and all non-ASCII characters), every line  *)
(* terminator, and the presence or absence of the final newline            *)
LocalEdit ==
  phase = "done" /\ act.op \in {"edit", "insert", "delete", "rename"} =>
    LET A == BL(disk0) B == BL(disk) k == act.k IN
    /\ HasBom(disk) = HasBom(disk0)
    /\ (B[Len(B)].l = <<>>) = (A[Len(A)].l = <<>>)  \* final newline kept present / absent
    /\ \A j \in 1..Len(B) : B[j].t \in {"EOF", file0.nl}
    /\ CASE act.op = "edit" ->
              /\ Len(B) = Len(A)
              /\ \A j \in 1..Len(A) : j # k => B[j] = A[j]
              /\ B[k].t = A[k].t
         [] act.op = "insert" ->
              /\ Len(B) = Len(A) + 1
              /\ \A j \in 1..(k - 1) : B[j].l = A[j].l /\ (j < Len(A) => B[j].t = A[j].t)
              /\ \A j \in (k + 1)..Len(A) : B[j + 1].l = A[j].l
              \* (when the new line becomes the last unterminated one, the old
              \* last line gains a terminator; its bytes stay)
              /\ k <= Len(A) => B[k + 1].l = A[k].l
         [] act.op = "delete" ->
              /\ Len(B) = Len(A) - 1
              /\ \A j \in 1..(k - 1) : B[j].l = A[j].l
              /\ \A j \in (k + 1)..Len(A) : B[j - 1].l = A[j].l
         [] act.op = "rename" ->
              /\ Len(B) = Len(A)
              /\ \A j \in 1..Len(A) :
                   /\ B[j].t = A[j].t
                   /\ (j <= NHead(file0) \/ (j <= NHead(file0) + Len(file0.body)
                                             /\ ~UsesName(file0.body[j - NHead(file0)])))
                        => B[j].l = A[j].l

(* clause 3: text written through the tool reads back equal, with the same convention *)
ReadBack ==
  phase = "done" =>
    LET r == Read(disk, DeclEnc(file)) IN
    /\ r.text = Text(file)
    /\ NTerms(file) > 0 => r.nl = file.nl
    /\ r.bom = file.bom

UndoRestores == phase = "undone" => disk = disk0

(* an external conversion changes line terminators only *)
ConvertOnlyNewlines ==
  pre # <<>> =>
    LET A == BL(pre) B == BL(disk0) IN
    /\ Len(A) = Len(B)
    /\ \A j \in 1..Len(A) : A[j].l = B[j].l /\ (A[j].t = "EOF") = (B[j].t = "EOF")

(* the encoding a file declares does not change under any action *)
EncStable == DeclEnc(file) = DeclEnc(file0)
=============================================================================
