---------------------------- MODULE TraceHistory ----------------------------
(***************************************************************************)
(* Trace validation for C11 (and the success path of C10): every           *)
(* History.do / undo / redo call made by the repository's own test-suite   *)
(* (and by our drivers), recorded by rec/verif_rec.py, must be a step of   *)
(* the history model:                                                      *)
(*   do    : tree1 = leaves applied to tree0; undo1 = undo0 + id truncated *)
(*           to the limit (if the change is interesting); redo1 empty      *)
(*   undo  : the changes moved to redo are exactly the dependency closure  *)
(*           of the chosen one (as in RopeHistory.DepSet), in list order;  *)
(*           tree1 = tree0 with those changes un-applied last-to-first     *)
(*   redo  : symmetric                                                     *)
(*   a call that raised leaves tree and lists as they were (do only)       *)
(* The tree is re-synchronised from the recorded before-tree at every      *)
(* event (tests also edit files behind rope's back), so each event is      *)
(* validated as one transition.  Paths are name sequences, contents are    *)
(* interned ids, the tree is a set of <<path, content>> pairs (-2 = folder)*)
(* `bad` names the clause that failed; the invariant is  bad = "".         *)
(***************************************************************************)
EXTENDS Naturals, Integers, Sequences, FiniteSets, TLC, Json, IOUtils

Batch == JsonDeserialize(IOEnv.TRACE_FILE)
Traces == Batch.traces

VARIABLES tid, l, chg, bad
vars == <<tid, l, chg, bad>>

Ev == Traces[tid].events
E == Ev[l]

ToSet(s) == { s[k] : k \in 1..Len(s) }
Range(s) == ToSet(s)
IsPrefix(p, q) == Len(p) <= Len(q) /\ SubSeq(q, 1, Len(p)) = p
Rebase(r, p, q) == q \o SubSeq(r, Len(p) + 1, Len(r))
Reverse(s) == [j \in 1..Len(s) |-> s[Len(s) + 1 - j]]

Has(t, p) == \E e \in t : e[1] = p
Val(t, p) == (CHOOSE e \in t : e[1] = p)[2]
Absent == -1

\* leaves that touch rope's own folder are invisible in the recorded trees
Visible(lf) == ~(Len(lf.p) >= 1 /\ lf.p[1] = ".ropeproject")

ApplyLeaf(t, lf) ==
  IF ~Visible(lf) THEN t
  ELSE CASE lf.k = "W"  -> { e \in t : e[1] # lf.p } \cup { <<lf.p, lf.c>> }
         [] lf.k = "CF" -> t \cup { <<lf.p, 0>> }
         [] lf.k = "CD" -> t \cup { <<lf.p, -2>> }
         [] lf.k = "MV" -> { IF IsPrefix(lf.p, e[1]) THEN <<Rebase(e[1], lf.p, lf.q), e[2]>> ELSE e : e \in t }
         [] lf.k = "RM" -> { e \in t : ~IsPrefix(lf.p, e[1]) }
         [] OTHER -> t

UnapplyLeaf(t, lf, old) ==
  IF ~Visible(lf) THEN t
  ELSE CASE lf.k = "W"  -> { e \in t : e[1] # lf.p } \cup { <<lf.p, old>> }
         [] lf.k = "CF" -> { e \in t : ~IsPrefix(lf.p, e[1]) }
         [] lf.k = "CD" -> { e \in t : ~IsPrefix(lf.p, e[1]) }
         [] lf.k = "MV" -> { IF IsPrefix(lf.q, e[1]) THEN <<Rebase(e[1], lf.q, lf.p), e[2]>> ELSE e : e \in t }
         [] OTHER -> t

RECURSIVE ApplyLeaves(_, _), OldsOf(_, _), UnapplyLeaves(_, _, _)
ApplyLeaves(t, ls) == IF ls = << >> THEN t ELSE ApplyLeaves(ApplyLeaf(t, Head(ls)), Tail(ls))
OldsOf(t, ls) ==
  IF ls = << >> THEN << >>
  ELSE <<IF Head(ls).k = "W" /\ Has(t, Head(ls).p) THEN Val(t, Head(ls).p) ELSE Absent>>
       \o OldsOf(ApplyLeaf(t, Head(ls)), Tail(ls))
UnapplyLeaves(t, ls, olds) ==
  IF ls = << >> THEN t
  ELSE UnapplyLeaves(UnapplyLeaf(t, ls[Len(ls)], olds[Len(ls)]), SubSeq(ls, 1, Len(ls) - 1), SubSeq(olds, 1, Len(ls) - 1))

Known(id) == id \in DOMAIN chg
TouchedBy(id) == UNION { IF chg[id].leaves[k].k = "MV" THEN {chg[id].leaves[k].p, chg[id].leaves[k].q}
                         ELSE {chg[id].leaves[k].p} : k \in 1..Len(chg[id].leaves) }
IsDirIn(id, p) == \E k \in 1..Len(chg[id].leaves) :
                     LET lf == chg[id].leaves[k] IN
                     (lf.k = "CD" /\ lf.p = p) \/ (lf.k = "MV" /\ lf.dir /\ (lf.p = p \/ lf.q = p))
\* resource equality / folder containment as History._FindChangeDependencies sees it
RelatedCh(a, b) ==
  \E r \in TouchedBy(a), c \in TouchedBy(b) :
     \/ r = c
     \/ (r # c /\ IsPrefix(r, c) /\ IsDirIn(a, r))
     \/ (r # c /\ IsPrefix(c, r) /\ IsDirIn(b, c))

RECURSIVE Closure(_, _, _)
Closure(list, i, S) ==
  LET S2 == S \cup { j \in (i+1)..Len(list) : \E m \in S : m < j /\ RelatedCh(list[j], list[m]) }
  IN IF S2 = S THEN S ELSE Closure(list, i, S2)
\* positions of the dependants of list[i], ascending
DepPositions(list, i) == Closure(list, i, {i})
RECURSIVE SeqOfPositions(_, _, _)
SeqOfPositions(list, S, k) ==
  IF k > Len(list) THEN << >>
  ELSE (IF k \in S THEN <<list[k]>> ELSE << >>) \o SeqOfPositions(list, S, k + 1)

Truncate(u, lim) == IF Len(u) > lim THEN SubSeq(u, Len(u) - lim + 1, Len(u)) ELSE u

TraceInit ==
  /\ tid \in 1..Len(Traces)
  /\ l = 1
  /\ chg = << >>          \* function id -> [leaves, olds]; ids are 1..n in order of first do
  /\ bad = ""

Consume == l <= Len(Ev) /\ l' = l + 1 /\ UNCHANGED tid

Tree0 == ToSet(E.tree0)
Tree1 == ToSet(E.tree1)

TraceDo ==
  /\ Consume
  /\ E.op = "do"
  /\ IF E.exc # ""
       THEN /\ bad' = IF Tree1 # Tree0 THEN "do-failed-but-tree-changed"
                      ELSE IF E.undo1 # E.undo0 \/ E.redo1 # E.redo0 THEN "do-failed-but-history-changed"
                      ELSE bad
            /\ UNCHANGED chg
       ELSE LET t1 == ApplyLeaves(Tree0, E.leaves)
                u1 == IF E.interesting THEN Truncate(Append(E.undo0, E.id), E.limit) ELSE E.undo0
            IN /\ bad' = IF \E k \in 1..Len(E.leaves) : E.leaves[k].k = "?" THEN bad
                         ELSE IF t1 # Tree1 THEN "do-tree"
                         ELSE IF E.undo1 # u1 THEN "do-undo-list"
                         ELSE IF E.redo1 # << >> THEN "do-redo-not-cleared"
                         ELSE bad
               /\ chg' = IF E.id = Len(chg) + 1
                           THEN Append(chg, [leaves |-> E.leaves, olds |-> OldsOf(Tree0, E.leaves)])
                           ELSE chg

AllKnown(s) == \A k \in 1..Len(s) : s[k] \in 1..Len(chg)

RECURSIVE UnapplyChanges(_, _), ReapplyChanges(_, _)
UnapplyChanges(t, ids) ==   \* ids in list order; undone last-to-first
  IF ids = << >> THEN t
  ELSE UnapplyChanges(UnapplyLeaves(t, chg[ids[Len(ids)]].leaves, chg[ids[Len(ids)]].olds), SubSeq(ids, 1, Len(ids) - 1))
ReapplyChanges(t, ids) ==
  IF ids = << >> THEN t
  ELSE ReapplyChanges(ApplyLeaves(t, chg[ids[Len(ids)]].leaves), SubSeq(ids, 1, Len(ids) - 1))

HasRemove(ids) == \E k \in 1..Len(ids) : \E j \in 1..Len(chg[ids[k]].leaves) : chg[ids[k]].leaves[j].k \in {"RM", "?"}

TraceUndo ==
  /\ Consume
  /\ E.op = "undo"
  /\ UNCHANGED chg
  /\ IF E.exc # "" \/ E.i < 1 \/ ~AllKnown(E.undo0)
       THEN bad' = IF E.exc # "" /\ E.undo0 = << >> /\ (Tree1 # Tree0 \/ E.undo1 # E.undo0 \/ E.redo1 # E.redo0)
                     THEN "empty-undo-had-effect" ELSE bad
       ELSE LET pos  == DepPositions(E.undo0, E.i)
                deps == SeqOfPositions(E.undo0, pos, 1)
                keep == SeqOfPositions(E.undo0, (1..Len(E.undo0)) \ pos, 1)
                r1   == IF E.drop THEN E.redo0 ELSE E.redo0 \o Reverse(deps)
            IN bad' = IF HasRemove(deps) THEN bad
                      ELSE IF E.undo1 # keep THEN "undo-set-not-the-dependency-closure"
                      ELSE IF E.redo1 # r1 THEN "undo-redo-list"
                      ELSE IF UnapplyChanges(Tree0, deps) # Tree1 THEN "undo-tree"
                      ELSE bad

TraceRedo ==
  /\ Consume
  /\ E.op = "redo"
  /\ UNCHANGED chg
  /\ IF E.exc # "" \/ E.i < 1 \/ ~AllKnown(E.redo0)
       THEN bad' = IF E.exc # "" /\ E.redo0 = << >> /\ (Tree1 # Tree0 \/ E.undo1 # E.undo0 \/ E.redo1 # E.redo0)
                     THEN "empty-redo-had-effect" ELSE bad
       ELSE LET pos  == DepPositions(E.redo0, E.i)
                deps == SeqOfPositions(E.redo0, pos, 1)
                keep == SeqOfPositions(E.redo0, (1..Len(E.redo0)) \ pos, 1)
            IN bad' = IF HasRemove(deps) THEN bad
                      ELSE IF E.redo1 # keep THEN "redo-set-not-the-dependency-closure"
                      ELSE IF E.undo1 # E.undo0 \o Reverse(deps) THEN "redo-undo-list"
                      ELSE IF ReapplyChanges(Tree0, deps) # Tree1 THEN "redo-tree"
                      ELSE bad

Finished == l > Len(Ev) /\ UNCHANGED vars

TraceNext == TraceDo \/ TraceUndo \/ TraceRedo \/ Finished
TraceSpec == TraceInit /\ [][TraceNext]_vars

Accepted == bad = ""
=============================================================================
